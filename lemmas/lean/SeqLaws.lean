/-
  SeqLaws.lean — the algebraic laws that PyVC's SMT back end uses as axioms of kind `lemma` / `definitional` about
  its uninterpreted sequence sorts, proved here over the intended model:

      RSeq := List ℝ          rlen := length     rsum := sum       rconcat := (++)
      ASeq := List α          (α any type with decidable equality: the arm labels)
      BSeq := List Bool       bcnt := count true                   bconcat := (++)
      Mat  := List (Fin d → ℝ)   (the list of rows)   mrows := length   mvstack := (++)
      eqmask d a  := d.map (· = a)
      rsel r m    := the elements of r whose mask bit is set       (boolean-mask indexing r[m])
      msel X m    := the rows of X whose mask bit is set
      gram X      := Σ_rows xᵀx  (= XᵀX)        xty X y := Σ_i y_i • x_i  (= Xᵀy)
      binarized b d r := zipWith b d r

  The correspondence between these definitions and the z3 function symbols of the same names is by convention
  (pyvc/laws.py LEAN, pyvc/theory.py); what this file removes from the trusted base is the *truth* of the laws in the
  model, not the naming.  Checked with:  lean lemmas/lean/SeqLaws.lean   (Lean 4 + Mathlib, no sorry).
-/
import Mathlib.Data.Real.Basic
import Mathlib.Data.Matrix.Basic
import Mathlib.Data.Matrix.Mul
import Mathlib.Algebra.BigOperators.Group.List.Basic
import Mathlib.Data.List.Perm.Basic
import Mathlib.Data.List.Count
import Mathlib.Data.List.Zip
import Mathlib.Tactic

open List

namespace SeqLaws

variable {α : Type} [DecidableEq α] {d : ℕ}

abbrev Vec (d : ℕ) := Fin d → ℝ
abbrev Mtx (d : ℕ) := Matrix (Fin d) (Fin d) ℝ

def eqmask (ds : List α) (a : α) : List Bool := ds.map (fun x => decide (x = a))
def bcnt (m : List Bool) : ℕ := m.count true
def sel {β : Type} (r : List β) (m : List Bool) : List β := ((r.zip m).filter (fun p => p.2)).map (fun p => p.1)
def rsum (r : List ℝ) : ℝ := r.sum
def gram (X : List (Vec d)) : Mtx d := (X.map (fun x => Matrix.vecMulVec x x)).sum
def xty (X : List (Vec d)) (y : List ℝ) : Vec d := ((X.zip y).map (fun p => p.2 • p.1)).sum
def binarized {ρ : Type} (b : α → ρ → ℝ) (ds : List α) (r : List ρ) : List ℝ := List.zipWith b ds r

/-! ### concatenation (C06) -/

theorem rconcat_sum (r q : List ℝ) : rsum (r ++ q) = rsum r + rsum q := by
  simp [rsum]

theorem bconcat_cnt (m n : List Bool) : bcnt (m ++ n) = bcnt m + bcnt n := by
  simp [bcnt]

theorem eqmask_concat (s t : List α) (a : α) : eqmask (s ++ t) a = eqmask s a ++ eqmask t a := by
  simp [eqmask]

theorem sel_concat {β : Type} (r q : List β) (m n : List Bool) (h : r.length = m.length) :
    sel (r ++ q) (m ++ n) = sel r m ++ sel q n := by
  simp [sel, List.zip_append h]

theorem sel_len {β : Type} (r : List β) (m : List Bool) (h : r.length = m.length) :
    (sel r m).length = bcnt m := by
  induction r generalizing m with
  | nil =>
    cases m with
    | nil => simp [sel, bcnt]
    | cons b m => simp at h
  | cons x r ih =>
    cases m with
    | nil => simp at h
    | cons b m =>
      have h' : r.length = m.length := by simpa using h
      have := ih m h'
      cases b <;> simp_all [sel, bcnt]

theorem concat_empty_left (u v : List ℝ) (h : u.length = 0) : u ++ v = v := by
  have : u = [] := List.length_eq_zero_iff.mp h
  simp [this]

theorem concat_empty_right (u v : List ℝ) (h : v.length = 0) : u ++ v = u := by
  have : v = [] := List.length_eq_zero_iff.mp h
  simp [this]

theorem vstack_empty_left (A B : List (Vec d)) (h : A.length = 0) : A ++ B = B := by
  have : A = [] := List.length_eq_zero_iff.mp h
  simp [this]

theorem vstack_empty_right (A B : List (Vec d)) (h : B.length = 0) : A ++ B = A := by
  have : B = [] := List.length_eq_zero_iff.mp h
  simp [this]

theorem msel_concat (A B : List (Vec d)) (m n : List Bool) (h : A.length = m.length) :
    sel (A ++ B) (m ++ n) = sel A m ++ sel B n := sel_concat A B m n h

omit [DecidableEq α] in
theorem binarized_concat {ρ : Type} (b : α → ρ → ℝ) (d1 d2 : List α) (r1 r2 : List ρ)
    (h : d1.length = r1.length) :
    binarized b (d1 ++ d2) (r1 ++ r2) = binarized b d1 r1 ++ binarized b d2 r2 := by
  simp [binarized, List.zipWith_append h]

theorem gram_vstack (A B : List (Vec d)) : gram (A ++ B) = gram A + gram B := by
  simp [gram]

theorem gram_vstack_acc (X : Mtx d) (A B : List (Vec d)) :
    X + gram (A ++ B) = (X + gram A) + gram B := by
  rw [gram_vstack, add_assoc]

theorem xty_vstack (A B : List (Vec d)) (u v : List ℝ) (h : A.length = u.length) :
    xty (A ++ B) (u ++ v) = xty A u + xty B v := by
  simp [xty, List.zip_append h]

theorem xty_vstack_acc (w : Vec d) (A B : List (Vec d)) (u v : List ℝ) (h : A.length = u.length) :
    w + xty (A ++ B) (u ++ v) = (w + xty A u) + xty B v := by
  rw [xty_vstack A B u v h, add_assoc]

/-! ### row order (C20): the statistics are functions of the multiset of rows -/

/-- the rewards of arm `a`, read off the zipped rows -/
def armRewards (rows : List (α × ℝ)) (a : α) : List ℝ := (rows.filter (fun p => decide (p.1 = a))).map (fun p => p.2)

theorem sel_eqmask_eq (ds : List α) (r : List ℝ) (a : α) (h : ds.length = r.length) :
    sel r (eqmask ds a) = armRewards (ds.zip r) a := by
  induction ds generalizing r with
  | nil => simp [sel, eqmask, armRewards]
  | cons x ds ih =>
    cases r with
    | nil => simp at h
    | cons y r =>
      have h' : ds.length = r.length := by simpa using h
      have := ih r h'
      by_cases hx : x = a <;> simp_all [sel, eqmask, armRewards]

theorem perm_sum (rows rows' : List (α × ℝ)) (a : α) (h : rows.Perm rows') :
    rsum (armRewards rows a) = rsum (armRewards rows' a) := by
  unfold rsum armRewards
  exact ((h.filter _).map _).sum_eq

theorem perm_cnt (rows rows' : List (α × ℝ)) (a : α) (h : rows.Perm rows') :
    (armRewards rows a).length = (armRewards rows' a).length := by
  unfold armRewards
  exact ((h.filter _).map _).length_eq

theorem perm_gram (X X' : List (Vec d)) (h : X.Perm X') : gram X = gram X' := by
  unfold gram
  exact (h.map _).sum_eq

theorem perm_xty (R R' : List (Vec d × ℝ)) (h : R.Perm R') :
    (R.map (fun p => p.2 • p.1)).sum = (R'.map (fun p => p.2 • p.1)).sum :=
  (h.map _).sum_eq

/-! ### reward shift and scale (C20) -/

theorem shift_sum (r : List ℝ) (c : ℝ) : rsum (r.map (· + c)) = rsum r + c * r.length := by
  induction r with
  | nil => simp [rsum]
  | cons x r ih =>
    simp only [rsum, List.map_cons, List.sum_cons, List.length_cons] at ih ⊢
    rw [ih]; push_cast; ring

theorem sel_map {β γ : Type} (f : β → γ) (r : List β) (m : List Bool) : sel (r.map f) m = (sel r m).map f := by
  induction r generalizing m with
  | nil => simp [sel]
  | cons x r ih =>
    cases m with
    | nil => simp [sel]
    | cons b m =>
      have := ih m
      cases b <;> simp_all [sel]

theorem shift_sel_sum (r : List ℝ) (m : List Bool) (c : ℝ) (h : r.length = m.length) :
    rsum (sel (r.map (· + c)) m) = rsum (sel r m) + c * bcnt m := by
  rw [sel_map, shift_sum, sel_len r m h]

theorem shift_mean (S c : ℝ) (n : ℝ) (hn : n ≠ 0) : (S + c * n) / n = S / n + c := by
  field_simp

theorem scale_sum (r : List ℝ) (c : ℝ) : rsum (r.map (c * ·)) = c * rsum r := by
  induction r with
  | nil => simp [rsum]
  | cons x r ih =>
    simp only [rsum, List.map_cons, List.sum_cons] at ih ⊢
    rw [ih]; ring

theorem scale_sel_sum (r : List ℝ) (m : List Bool) (c : ℝ) :
    rsum (sel (r.map (c * ·)) m) = c * rsum (sel r m) := by
  rw [sel_map, scale_sum]

theorem scale_xty (X : List (Vec d)) (y : List ℝ) (c : ℝ) : xty X (y.map (c * ·)) = c • xty X y := by
  induction X generalizing y with
  | nil => simp [xty]
  | cons x X ih =>
    cases y with
    | nil => simp [xty]
    | cons b y =>
      have := ih y
      simp only [xty, List.map_cons, List.zip_cons_cons, List.sum_cons] at this ⊢
      rw [this, smul_add, smul_smul]

/-- the mean of the selected rewards shifts by the constant (law `shift.selmean`) -/
theorem shift_sel_mean (r : List ℝ) (m : List Bool) (c : ℝ) (h : r.length = m.length) (hn : 0 < bcnt m) :
    rsum (sel (r.map (· + c)) m) / (bcnt m : ℝ) = rsum (sel r m) / (bcnt m : ℝ) + c := by
  rw [shift_sel_sum r m c h]
  have : (bcnt m : ℝ) ≠ 0 := by exact_mod_cast (Nat.pos_iff_ne_zero.mp hn)
  field_simp

/-! ### NumPy fancy indexing with a permutation of the row indices (C20, index form used by the SMT laws) -/

/-- `x[p]` -/
def take {β : Type} [Inhabited β] (l : List β) (p : List ℕ) : List β := p.map (fun i => l.getD i default)
/-- `p` visits every index below `n` exactly once -/
def isperm (p : List ℕ) (n : ℕ) : Prop := p.Perm (List.range n)

theorem perm_len (p : List ℕ) (n : ℕ) (h : isperm p n) : p.length = n := by
  have := h.length_eq
  simpa using this

theorem take_range {β : Type} [Inhabited β] (l : List β) : take l (List.range l.length) = l := by
  apply List.ext_getElem
  · simp [take]
  · intro i h1 h2
    simp [take, List.getD_eq_getElem?_getD, List.getElem?_eq_getElem (by simpa [take] using h1)]

theorem take_perm {β : Type} [Inhabited β] (l : List β) (p : List ℕ) (h : isperm p l.length) :
    (take l p).Perm l := by
  have := h.map (fun i => l.getD i default)
  have e := take_range l
  unfold take at e ⊢
  rw [e] at this
  exact this

theorem take_zip {β γ : Type} [Inhabited β] [Inhabited γ] (l : List β) (k : List γ) (p : List ℕ)
    (hp : ∀ i ∈ p, i < l.length) (hl : l.length = k.length) :
    take (l.zip k) p = (take l p).zip (take k p) := by
  induction p with
  | nil => simp [take]
  | cons i p ih =>
    have hi : i < l.length := hp i (by simp)
    have hk : i < k.length := hl ▸ hi
    have ih' := ih (fun j hj => hp j (by simp [hj]))
    simp only [take, List.map_cons, List.zip_cons_cons] at ih' ⊢
    rw [ih']
    congr 1
    simp [List.getD_eq_getElem?_getD, hi, hk]

theorem isperm_lt (p : List ℕ) (n : ℕ) (h : isperm p n) : ∀ i ∈ p, i < n := by
  intro i hi
  have : i ∈ List.range n := h.mem_iff.mp hi
  simpa using this

/-- law `perm.selsum` -/
theorem perm_sum_take (ds : List α) (r : List ℝ) (p : List ℕ) (a : α) [Inhabited α]
    (hl : ds.length = r.length) (h : isperm p ds.length) :
    rsum (sel (take r p) (eqmask (take ds p) a)) = rsum (sel r (eqmask ds a)) := by
  have hlt := isperm_lt p ds.length h
  have hz : take (ds.zip r) p = (take ds p).zip (take r p) := take_zip ds r p hlt hl
  have hlen : (take ds p).length = (take r p).length := by simp [take]
  rw [sel_eqmask_eq _ _ a hlen, sel_eqmask_eq _ _ a hl, ← hz]
  have hzl : (ds.zip r).length = ds.length := by simp [hl]
  exact perm_sum _ _ a (take_perm (ds.zip r) p (hzl ▸ h))

/-- law `perm.cnt` -/
theorem perm_cnt_take (ds : List α) (p : List ℕ) (a : α) [Inhabited α] (h : isperm p ds.length) :
    bcnt (eqmask (take ds p) a) = bcnt (eqmask ds a) := by
  have hp := take_perm ds p h
  unfold bcnt eqmask
  exact (hp.map _).count_eq _

omit [DecidableEq α] in
/-- law `perm.mem` -/
theorem perm_mem_take (ds : List α) (p : List ℕ) (a : α) [Inhabited α] (h : isperm p ds.length) :
    a ∈ take ds p ↔ a ∈ ds := (take_perm ds p h).mem_iff

/-- rows of arm `a` (any payload) read off the zipped rows -/
def armRows {β : Type} (rows : List (α × β)) (a : α) : List β :=
  (rows.filter (fun p => decide (p.1 = a))).map (fun p => p.2)

theorem sel_eqmask_rows {β : Type} (ds : List α) (r : List β) (a : α) (h : ds.length = r.length) :
    sel r (eqmask ds a) = armRows (ds.zip r) a := by
  induction ds generalizing r with
  | nil => simp [sel, eqmask, armRows]
  | cons x ds ih =>
    cases r with
    | nil => simp at h
    | cons y r =>
      have h' : ds.length = r.length := by simpa using h
      have := ih r h'
      by_cases hx : x = a <;> simp_all [sel, eqmask, armRows]

theorem armRows_perm {β : Type} (rows rows' : List (α × β)) (a : α) (h : rows.Perm rows') :
    (armRows rows a).Perm (armRows rows' a) := (h.filter _).map _

theorem sel_take_perm {β : Type} [Inhabited α] [Inhabited β] (ds : List α) (r : List β) (p : List ℕ) (a : α)
    (hl : ds.length = r.length) (h : isperm p ds.length) :
    (sel (take r p) (eqmask (take ds p) a)).Perm (sel r (eqmask ds a)) := by
  have hlt := isperm_lt p ds.length h
  have hz : take (ds.zip r) p = (take ds p).zip (take r p) := take_zip ds r p hlt hl
  have hlen : (take ds p).length = (take r p).length := by simp [take]
  rw [sel_eqmask_rows _ _ a hlen, sel_eqmask_rows _ _ a hl, ← hz]
  have hzl : (ds.zip r).length = ds.length := by simp [hl]
  exact armRows_perm _ _ a (take_perm (ds.zip r) p (hzl ▸ h))

/-- law `perm.gram` -/
theorem perm_gram_take [Inhabited α] (ds : List α) (X : List (Vec d)) (p : List ℕ) (a : α)
    (hl : ds.length = X.length) (h : isperm p ds.length) :
    gram (sel (take X p) (eqmask (take ds p) a)) = gram (sel X (eqmask ds a)) :=
  perm_gram _ _ (sel_take_perm ds X p a hl h)

theorem sel_zip {β γ : Type} (l : List β) (k : List γ) (m : List Bool) :
    (sel l m).zip (sel k m) = sel (l.zip k) m := by
  induction l generalizing k m with
  | nil => simp [sel]
  | cons x l ih =>
    cases k with
    | nil => simp [sel]
    | cons y k =>
      cases m with
      | nil => simp [sel]
      | cons b m =>
        have := ih k m
        cases b <;> simp_all [sel]

/-- law `perm.xty` -/
theorem perm_xty_take [Inhabited α] (ds : List α) (X : List (Vec d)) (y : List ℝ) (p : List ℕ) (a : α)
    (hl : ds.length = X.length) (hy : ds.length = y.length) (h : isperm p ds.length) :
    xty (sel (take X p) (eqmask (take ds p) a)) (sel (take y p) (eqmask (take ds p) a)) =
    xty (sel X (eqmask ds a)) (sel y (eqmask ds a)) := by
  have hlt := isperm_lt p ds.length h
  have hXy : X.length = y.length := hl ▸ hy
  have hz : take (X.zip y) p = (take X p).zip (take y p) := take_zip X y p (hl ▸ hlt) hXy
  unfold xty
  rw [sel_zip, sel_zip, ← hz]
  have hl2 : ds.length = (X.zip y).length := by simp [← hl, ← hy]
  exact perm_xty _ _ (sel_take_perm ds (X.zip y) p a hl2 h)

/-! ### linearity used by the reward-scale law (C20) -/

theorem scale_matvec (M : Mtx d) (u : Vec d) (c : ℝ) : M.mulVec (c • u) = c • M.mulVec u :=
  Matrix.mulVec_smul M c u

theorem scale_vdot (u v : Vec d) (c : ℝ) : dotProduct u (c • v) = c * dotProduct u v := by
  simp [dotProduct_smul]

theorem scale_add_zeros (u : Vec d) (c : ℝ) : (0 : Vec d) + c • u = c • ((0 : Vec d) + u) := by
  simp

/-! ### positions of a value in concatenated rows (LSH hash tables under partial_fit, law `where.hashes.vstack`) -/

/-- `np.where(mask)[0]` for the mask `p x`: the positions of the elements satisfying `p`, ascending -/
def positions {β : Type} (p : β → Bool) : List β → List ℕ
  | [] => []
  | x :: xs => (if p x then [0] else []) ++ (positions p xs).map (· + 1)

theorem positions_append {β : Type} (p : β → Bool) (l1 l2 : List β) :
    positions p (l1 ++ l2) = positions p l1 ++ (positions p l2).map (· + l1.length) := by
  induction l1 with
  | nil => simp [positions]
  | cons x xs ih =>
    simp only [List.cons_append, positions, ih, List.map_append, List.map_map, List.length_cons, List.append_assoc]
    congr 2

/-- the hash of every row (any row-wise function `code`), positions of the value `h`: stacking rows appends the
    positions of the new rows shifted by the number of old rows -/
theorem where_hashes_vstack {ρ : Type} [DecidableEq ρ] (code : Vec d → ρ) (A B : List (Vec d)) (h : ρ) :
    positions (fun v => decide (v = h)) ((A ++ B).map code) =
    positions (fun v => decide (v = h)) (A.map code) ++
      (positions (fun v => decide (v = h)) (B.map code)).map (· + A.length) := by
  rw [List.map_append, positions_append]
  simp

/-- a sequence is its first `t` elements followed by the rest (laws `aslice.split`, `rslice.split`) -/
theorem take_append_drop {β : Type} (l : List β) (t : ℕ) : l.take t ++ l.drop t = l :=
  List.take_append_drop t l

end SeqLaws
