"""C16 lemma program: the per-arm statistics of the training rows and of the test rows add up to those of all rows
(counts and sums), as a corollary of the contracts of _run_train_test_split (ordered) and get_arm_stats."""


def c16_totals(sim):
    tr_d, tr_r, tr_x, te_d, te_r, te_x = sim._run_train_test_split()
    total = sim.get_arm_stats(sim.decisions, sim.rewards)
    train = sim.get_arm_stats(tr_d, tr_r)
    test = sim.get_arm_stats(te_d, te_r)
    return total, train, test
