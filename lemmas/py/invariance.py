"""C20 lemma programs: row order, reward shift and reward scale, as client code over the contracts of fit.

`p` sees the transformed data, `q` the original; the contracts in specs/lemmas.py state how the two views relate.
`perm` is a permutation of the row indices (requires isperm(perm, len(d))).
"""
import numpy as np


def c20_rows(p, q, d, r, perm):
    p.fit(d[perm], r[perm])
    q.fit(d, r)


def c20_rows_ctx(p, q, d, r, c, perm):
    p.fit(d[perm], r[perm], c[perm])
    q.fit(d, r, c)


def c20_shift(p, q, d, r, shift):
    p.fit(d, r + shift)
    q.fit(d, r)


def c20_scale_ctx(p, q, d, r, c, k):
    p.fit(d, k * r, c)
    q.fit(d, r, c)
