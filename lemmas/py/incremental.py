"""C06 lemma programs: client code over the contracts of fit / partial_fit (the bodies are verified separately).

Each function drives two bandits of the same class and configuration: `p` is trained on the whole history in one
fit call, `q` on a prefix with fit and on the rest with partial_fit.  The contract of the lemma (specs/lemmas.py)
states that the two end in the same view.  Calls are resolved against the callees' contracts only.
"""
import numpy as np


def c06_split(p, q, d1, r1, d2, r2):
    p.fit(np.concatenate((d1, d2)), np.concatenate((r1, r2)))
    q.fit(d1, r1)
    q.partial_fit(d2, r2)


def c06_split_ctx(p, q, d1, r1, c1, d2, r2, c2):
    p.fit(np.concatenate((d1, d2)), np.concatenate((r1, r2)), np.concatenate((c1, c2)))
    q.fit(d1, r1, c1)
    q.partial_fit(d2, r2, c2)


def derived_same(p, q):
    """two bandits of one class whose learned statistics agree: their derived quantities agree (no call is made;
    the statement is about the class invariant alone)"""
    pass
