#!/bin/bash
# usage: tools_mut.sh <file> <sed-expr> -- <pyvc.main args>   (scratch copy of /repo/mabwiser under /tmp/mut)
f=$1; e=$2; shift 3
rm -rf /tmp/mut && mkdir -p /tmp/mut && cp -r /repo/mabwiser /tmp/mut/
sed -i "$e" /tmp/mut/mabwiser/$f
diff -u /repo/mabwiser/$f /tmp/mut/mabwiser/$f | grep '^[-+]' | grep -v '^[-+][-+]'
PYVC_REPO=/tmp/mut python3-vt -m pyvc.main "$@" 2>&1 | tail -8
rm -rf /tmp/mut
