"""CLI of the bounded runtime leg.  Run under /venv/bin/python with PYTHONPATH=<tree>:/verif

    python -m rt.run --prop C03 [--focus neighbors] [--budget 60] [--seed 0] [--tier quick] [--all] --out result.json

Writes {"property":…, "cases": n, "failures": [record…], "seconds": …, "mabwiser": <path of the imported package>}.
Exit 0: no failing input found within the budget; 1: failing input found (first failure per policy module unless --all);
3: the harness itself crashed.
"""
import argparse
import hashlib
import json
import os
import sys
import time
import traceback


def main():
    ap = argparse.ArgumentParser()
    ap.add_argument('--prop', required=True)
    ap.add_argument('--focus')
    ap.add_argument('--budget', type=float, default=120.0)
    ap.add_argument('--seed', type=int, default=int(os.environ.get('VERIF_SEED', '0') or 0))
    ap.add_argument('--tier', default='quick')
    ap.add_argument('--out')
    ap.add_argument('--all', action='store_true', help='keep going after a failure (one failure per policy module)')
    args = ap.parse_args()
    os.environ.setdefault('OMP_NUM_THREADS', '1')
    os.environ.setdefault('OPENBLAS_NUM_THREADS', '1')
    os.environ.setdefault('MKL_NUM_THREADS', '1')
    import numpy as np
    import mabwiser
    from rt import props
    from rt.core import Failure
    t0 = time.time()
    res = {'property': args.prop, 'seed': args.seed, 'tier': args.tier, 'focus': args.focus, 'cases': 0, 'failures': [],
           'mabwiser': os.path.dirname(mabwiser.__file__), 'exhausted': True, 'samples': []}
    seen = set()
    check = props.CHECKS.get(args.prop)
    rc = 0
    if check is None:
        res['note'] = 'no executable form of this property'
    else:
        blocked = set()
        rounds = 0
        reps = 1 if args.tier != 'thorough' else 6       # thorough: the same enumeration over more random data sets
        rep = 0
        while rep < reps:
            rounds += 1
            env = {'rng': np.random.default_rng(args.seed + 1000 * rep), 'tier': args.tier, 'focus': args.focus,
                   'blocked': blocked}
            try:
                for c in check(env):
                    res['cases'] += 1
                    key = hashlib.sha1(json.dumps(c, sort_keys=True, default=str).encode()).hexdigest()
                    if c and key not in seen:
                        seen.add(key)
                        if len(res['samples']) < 3:
                            res['samples'].append(c)
                    if time.time() - t0 > args.budget:
                        res['exhausted'] = False
                        break
                rep += 1
                if not res['exhausted']:
                    break
            except Failure as f:
                res['failures'].append(f.record)
                rc = 1
                c = f.record.get('case') or {}
                key = ((c.get('lp') or [None])[0], (c.get('np') or [None])[0] if c.get('np') else None)
                if not args.all or key in blocked or rounds > 60 or time.time() - t0 > args.budget:
                    break
                blocked.add(key)
            except Exception:       # noqa
                res['error'] = traceback.format_exc()
                rc = 3
                break
    res['distinct_cases'] = len(seen)
    res['seconds'] = round(time.time() - t0, 2)
    if args.out:
        with open(args.out, 'w') as f:
            json.dump(res, f, indent=1, default=str)
    else:
        json.dump(res, sys.stdout, indent=1, default=str)
    return rc


if __name__ == '__main__':
    sys.exit(main())
