"""Bounded runtime leg (DESIGN 8): drives the REAL mabwiser code (imported from the tree given on PYTHONPATH) through
enumerated small scopes and evaluates executable forms of the contracts / properties.

Two uses, both labelled *bounded* and never counted as proved:
  * replay: when the deductive leg reports a failed obligation, search for a concrete failing input of the property
    on the same tree, so that the VIOLATION line carries an input that fails on the real code;
  * stand-in for the functions PyVC cannot reach (LSHNearest, Clusters, TreeBandit, the Simulator, dtype effects).

A *case* is a JSON-able dict; everything needed to re-run it is inside (see replay_case).  Runs under /venv/bin/python.
"""
import copy
import itertools
import json
import math
import os
import pickle
import sys
import warnings

import numpy as np

warnings.filterwarnings('ignore')

from mabwiser.mab import MAB, LearningPolicy, NeighborhoodPolicy      # noqa: E402


# --------------------------------------------------------------------------------------- configuration
def binz(arm, reward):
    """module-level binarizer (picklable): success when the reward is at least 5"""
    return 1 if reward >= 5 else 0


def binz_arm(arm, reward):
    """a binarizer whose threshold depends on the arm"""
    return 1 if reward >= (3 if arm == 1 else 6) else 0


def binz_one(arm, reward):
    """success when the reward is at least 1 (the identity on 0 / 1 values)"""
    return 1 if reward >= 1 else 0


def binz_flip(arm, reward):
    """success when the reward is below 1: defined on 0 / 1 values and not the identity there"""
    return 1 if reward < 1 else 0


BINARIZERS = {'binz': binz, 'binz_arm': binz_arm, 'binz_one': binz_one, 'binz_flip': binz_flip}


def make_lp(spec):
    name, kw = spec[0], dict(spec[1])
    if 'binarizer' in kw and isinstance(kw['binarizer'], str):
        kw['binarizer'] = BINARIZERS[kw['binarizer']]
    return getattr(LearningPolicy, name)(**kw)


def make_np(spec):
    if spec is None:
        return None
    name, kw = spec[0], dict(spec[1])
    return getattr(NeighborhoodPolicy, name)(**kw)


def build(case):
    return MAB(list(case['arms']), make_lp(case['lp']), make_np(case.get('np')), seed=case.get('seed', 7),
               n_jobs=case.get('n_jobs', 1), backend=case.get('backend'))


def as_container(x, kind, two_d=False):
    """the same data in another container kind"""
    import pandas as pd
    if x is None:
        return None
    if kind == 'list':
        return [list(r) for r in x] if two_d else list(x)
    if kind == 'ndarray':
        return np.array(x)
    if kind == 'ndarray_c':
        return np.ascontiguousarray(np.array(x, dtype=float))      # passed through by the library without a copy
    if kind == 'ndarray_f':
        return np.asfortranarray(np.array(x, dtype=float)) if two_d else np.array(x, dtype=float)
    if kind == 'series':
        return pd.DataFrame(x) if two_d else pd.Series(x)
    if kind == 'dataframe':
        return pd.DataFrame(x)
    raise ValueError(kind)


def call(mab, c, container='list'):
    """one public call, c = [method, args...] with JSON-able arguments"""
    m = c[0]
    if m in ('fit', 'partial_fit'):
        d, r = c[1], c[2]
        x = c[3] if len(c) > 3 else None
        getattr(mab, m)(as_container(d, container), as_container(r, container),
                        as_container(x, container, True) if x is not None else None)
    elif m == 'add_arm':
        b = c[2] if len(c) > 2 else None
        mab.add_arm(c[1], BINARIZERS[b] if isinstance(b, str) else b)
    elif m == 'remove_arm':
        mab.remove_arm(c[1])
    elif m == 'warm_start':
        mab.warm_start({(int(k) if isinstance(k, str) and k.lstrip('-').isdigit() else k): v for k, v in c[1].items()}
                       if isinstance(c[1], dict) else dict(c[1]), c[2])
    elif m == 'predict':
        return mab.predict(c[1] if len(c) > 1 else None)
    elif m == 'predict_expectations':
        return mab.predict_expectations(c[1] if len(c) > 1 else None)
    else:
        raise ValueError(m)


def drive(mab, calls, container='list'):
    out = []
    for c in calls:
        out.append(call(mab, c, container))
    return out


# --------------------------------------------------------------------------------------- comparisons
def close(a, b, tol=1e-8):
    if a is None or b is None:
        return a is b
    if isinstance(a, (str, bytes)) or isinstance(b, (str, bytes)):
        return a == b
    try:
        fa, fb = float(a), float(b)
    except (TypeError, ValueError):
        return a == b
    if math.isnan(fa) or math.isnan(fb):
        return math.isnan(fa) and math.isnan(fb)
    return math.isclose(fa, fb, rel_tol=tol, abs_tol=tol)


def same_result(a, b, tol=1e-8):
    """results of predict / predict_expectations (arm, dict, list of either)"""
    if isinstance(a, dict) and isinstance(b, dict):
        return list(a.keys()) == list(b.keys()) and all(close(a[k], b[k], tol) for k in a)
    if isinstance(a, (list, tuple)) and isinstance(b, (list, tuple)):
        return len(a) == len(b) and all(same_result(x, y, tol) for x, y in zip(a, b))
    if isinstance(a, (dict, list, tuple)) or isinstance(b, (dict, list, tuple)):
        return False
    return close(a, b, tol)


def jsonable(x):
    if isinstance(x, dict):
        return {str(k): jsonable(v) for k, v in x.items()}
    if isinstance(x, (list, tuple)):
        return [jsonable(v) for v in x]
    if isinstance(x, np.ndarray):
        return jsonable(x.tolist())
    if isinstance(x, (np.integer,)):
        return int(x)
    if isinstance(x, (np.floating, float)):
        return None if math.isnan(float(x)) else float(x)
    if isinstance(x, (int, str, bool)) or x is None:
        return x
    return repr(x)


def state_digest(obj, skip=('rng',), _seen=None, _depth=0):
    """a structural, value-level digest of an object graph (learned state), ignoring generator objects"""
    if _seen is None:
        _seen = {}
    if _depth > 12:
        return '...'
    if isinstance(obj, (int, str, bool, type(None))):
        return obj
    if isinstance(obj, float):
        return 'nan' if math.isnan(obj) else obj
    if isinstance(obj, (np.integer, np.floating, np.bool_)):
        return state_digest(obj.item(), skip, _seen, _depth)
    if isinstance(obj, np.ndarray):
        return ('nd', str(obj.dtype.kind), obj.shape, state_digest(obj.tolist(), skip, _seen, _depth + 1))
    if id(obj) in _seen:
        return ('ref', _seen[id(obj)])
    _seen[id(obj)] = len(_seen)
    _seen.setdefault('__keep__', []).append(obj)      # keep temporaries alive: a recycled id() must not look like sharing
    if isinstance(obj, dict):
        return ('dict', [(state_digest(k, skip, _seen, _depth + 1), state_digest(v, skip, _seen, _depth + 1))
                         for k, v in obj.items()])
    if isinstance(obj, (list, tuple)):
        return (type(obj).__name__, [state_digest(v, skip, _seen, _depth + 1) for v in obj])
    if isinstance(obj, (set, frozenset)):
        return ('set', sorted(repr(state_digest(v, skip, _seen, _depth + 1)) for v in obj))
    if callable(obj) and not hasattr(obj, '__dict__'):
        return ('callable', getattr(obj, '__name__', repr(obj)))
    mod = type(obj).__module__ or ''
    if mod.startswith('sklearn'):
        d = {k: v for k, v in vars(obj).items()}
        if hasattr(obj, 'tree_'):
            t = obj.tree_
            d['tree_'] = (t.node_count, t.feature.tolist(), t.threshold.tolist(), t.value.tolist())
        return ('sk', type(obj).__name__, state_digest(d, skip, _seen, _depth + 1))
    if mod.startswith('numpy.random') or type(obj).__name__ in ('_NumpyRNG', 'Generator', 'RandomState'):
        return ('rng',)
    if hasattr(obj, '__dict__'):
        return ('obj', type(obj).__name__, [(k, state_digest(v, skip, _seen, _depth + 1))
                                            for k, v in vars(obj).items() if k not in skip])
    if callable(obj):
        return ('callable', getattr(obj, '__name__', repr(obj)))
    return repr(obj)


def learned_state(mab):
    return state_digest(mab._imp)


def rng_position(mab):
    """a copy of the generator state of the bandit (to compare stream positions)"""
    g = mab._rng.rng if hasattr(mab._rng, 'rng') else None
    if g is None:
        return None
    s = g.bit_generator.state
    return json.dumps(jsonable(s), sort_keys=True, default=str)


class Failure(Exception):
    def __init__(self, prop, what, case, observed=None, expected=None, where=None):
        Exception.__init__(self, what)
        self.record = {'property': prop, 'what': what, 'case': case, 'observed': jsonable(observed),
                       'expected': jsonable(expected), 'where': where}
