"""Re-run one recorded failing input:  PYTHONPATH=<tree>:/verif /venv/bin/python -m rt.replay <replay file>

The replay file's failing_input.case is re-executed through the property's executable form restricted to that policy
combination; exit 1 when the real code still fails on it, 0 when it no longer does."""
import json
import sys

import numpy as np


def main():
    doc = json.load(open(sys.argv[1]))
    fi = doc.get('failing_input') or doc
    prop = fi.get('property') or doc.get('property')
    case = fi.get('case') or {}
    from rt import props
    from rt.core import Failure
    check = props.CHECKS.get(prop)
    if check is None:
        print('no executable form of', prop)
        return 2
    lp = (case.get('lp') or [None])[0]
    nbh = (case.get('np') or [None])[0] if case.get('np') else None
    only = {'lp': lp, 'np': nbh}
    env = {'rng': np.random.default_rng(int(doc.get('seed', 0) or 0)), 'tier': 'quick', 'focus': None, 'only': only}
    try:
        for _ in check(env):
            pass
    except Failure as f:
        print('STILL FAILS:', f.record['what'])
        print(json.dumps(f.record['case'])[:2000])
        return 1
    print('no longer fails')
    return 0


if __name__ == '__main__':
    sys.exit(main())
