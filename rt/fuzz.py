"""Random call histories for the differential properties (C04, C05, C07, C08, C09, C10, C19, C20).

The hand-written histories of rt/props.py fix *where* queries and arm changes happen; the changes that slipped through
them (a label array cached by the first query and not rebuilt by remove_arm, an expectation table written by a query and
never reset by fit) all needed a query or an arm change at a place no fixed history had one.  Here the plan itself is
drawn: fit on a random subset of the arms, then a few of {partial_fit on a subset, add_arm, remove_arm, refit on a subset,
warm_start, query}; every property then states its own condition over the plan.  All draws come from env['rng'], so a
failure is reproduced by (property, seed, policy combination): the record carries the full plan.
"""
import copy
import math
import pickle

import numpy as np

from rt import core
from rt.core import Failure, build, call, same_result, learned_state
from rt import props as P

POOL = [4, 5, 6, 7, 8, 9]
NAMES_STR = {1: 'x', 2: 'y', 3: 'z', 4: 'w', 5: 'v', 6: 'u', 7: 't', 8: 's', 9: 'r'}
NAMES_INT0 = {1: 0, 2: 10, 3: 20, 4: 30, 5: 40, 6: 50, 7: 60, 8: 70, 9: 80}       # 0 is a label like any other
NAMES_FLT = {1: 0.0, 2: 1.5, 3: 2.5, 4: 3.5, 5: 4.5, 6: 5.5, 7: 6.5, 8: 7.5, 9: 8.5}


def _subset(rng, arms, least=1):
    k = int(rng.integers(least, len(arms) + 1))
    idx = sorted(int(i) for i in rng.permutation(len(arms))[:k])
    return [arms[i] for i in idx]


def random_plan(rng, lp, nbh, n_ops=6, arm_ops=True, warm=True):
    binary = P.is_binary_lp(lp)
    d = 2 if P.needs_ctx(lp, nbh) else 0
    cur = list(P.ARMS)
    pool = list(POOL)
    plan = [['fit'] + P.rand_rows(rng, int(rng.integers(8, 12)), _subset(rng, cur, 2), binary, d)]
    for _ in range(n_ops):
        k = int(rng.integers(0, 12))
        if k < 3:
            plan.append(['partial_fit'] + P.rand_rows(rng, int(rng.integers(1, 6)), _subset(rng, cur), binary, d))
        elif k < 5 and pool and arm_ops:
            a = pool.pop(0)
            cur.append(a)
            plan.append(['add_arm', a])
        elif k < 6 and len(cur) > 2 and arm_ops:
            a = cur[int(rng.integers(len(cur)))]
            cur.remove(a)
            plan.append(['remove_arm', a])
        elif k < 7:
            plan.append(['fit'] + P.rand_rows(rng, int(rng.integers(6, 10)), _subset(rng, cur, 2), binary, d))
        elif k < 8 and warm and nbh is None and lp[0] != 'Random':
            feats = [[a, [int(rng.integers(1, 6)) for _ in range(3)]] for a in cur]
            plan.append(['warm_start', feats, [0.3, 0.7, 1.0][int(rng.integers(3))]])
        else:
            plan.append('Q')
    if plan[-1] != 'Q':
        plan.append('Q')
    return plan


def _calls(plan):
    return [c for c in plan if c != 'Q']


def _rename(c, names):
    if c == 'Q':
        return c
    if c[0] in ('fit', 'partial_fit'):
        return [c[0], [names[a] for a in c[1]]] + list(c[2:])
    if c[0] in ('add_arm', 'remove_arm'):
        return [c[0], names[c[1]]] + list(c[2:])
    if c[0] == 'warm_start':
        return [c[0], [[names[a], v] for a, v in c[1]], c[2]]
    return c


def _ren_out(v, names):
    if isinstance(v, dict):
        return {names.get(k, k): x for k, x in v.items()}
    if isinstance(v, list):
        return [_ren_out(x, names) for x in v]
    try:
        return names.get(v, v)
    except TypeError:
        return v


def _where(lp, nbh):
    return P.MODULE_OF.get((nbh or lp)[0])


def _apply_pair(a, b, ca, cb):
    """the same call on two bandits; (True, None) when both accept, (False, None) when both reject alike (plan abandoned),
    (None, text) when only one of them rejects"""
    ea = eb = None
    try:
        call(a, ca)
    except Exception as e:      # noqa
        ea = e
    try:
        call(b, cb)
    except Exception as e:      # noqa
        eb = e
    if ea is None and eb is None:
        return True, None
    if ea is not None and eb is not None:
        return False, None
    return None, 'only one of the two bandits rejects %s: %r' % (ca[0], ea or eb)


def fuzz(prop, env, plans_per_config=None):
    rng = env['rng']
    if plans_per_config is None:
        plans_per_config = 3 if env.get('tier') == 'thorough' else 1
    for lp, nbh in P.all_configs(env):
        if prop == 'C20' and lp[1].get('binarizer'):
            continue
        for _ in range(plans_per_config):
            plan = random_plan(rng, lp, nbh)
            case = {'arms': P.ARMS, 'lp': lp, 'np': nbh, 'calls': _calls(plan), 'plan': plan, 'seed': 13, 'random_plan': True}
            fn = globals()['_fuzz_' + prop]
            fn(env, rng, lp, nbh, plan, case)
            yield case


# ------------------------------------------------------------------------------------------------ C04
def _fuzz_C04(env, rng, lp, nbh, plan, case):
    a, b = build(case), build(case)
    other = build(dict(case, seed=77))
    for k, c in enumerate(plan):
        if c == 'Q':
            P.observe(other, lp, nbh)
            ra, rb = P.observe(a, lp, nbh), P.observe(b, lp, nbh)
            if not same_result(ra, rb, 0):
                raise Failure('C04', 'two bandits built with equal arguments and driven through the same random plan return '
                              'different results (%s/%s)' % (lp[0], nbh and nbh[0]), case, ra, rb, _where(lp, nbh))
            continue
        try:
            call(other, c)
        except Exception:       # noqa
            pass
        ok, msg = _apply_pair(a, b, c, c)
        if ok is None:
            raise Failure('C04', msg, case, None, None, _where(lp, nbh))
        if not ok:
            return


# ------------------------------------------------------------------------------------------------ C05
def _fuzz_C05(env, rng, lp, nbh, plan, case):
    if nbh is None:
        return          # context-free / linear prediction has no partition; their parallel fit is covered by props.check_C05
    a = build(dict(case, n_jobs=1))
    b = build(dict(case, n_jobs=3, backend='threading'))
    qs = [[int(rng.integers(-3, 4)), int(rng.integers(-3, 4))] for _ in range(7)]
    case = dict(case, n_jobs=3, backend='threading', queries=qs)
    for c in plan:
        if c == 'Q':
            for q in ([qs[0]], qs[:4], qs):
                ra = [a.predict_expectations(q), a.predict(q)]
                rb = [b.predict_expectations(q), b.predict(q)]
                if not same_result(ra, rb, 0):
                    raise Failure('C05', 'n_jobs=3 (threading) changes the results of %s/%s after a random plan, %d query rows'
                                  % (lp[0], nbh[0], len(q)), case, rb, ra, _where(lp, nbh))
            continue
        ok, msg = _apply_pair(a, b, c, c)
        if ok is None:
            raise Failure('C05', msg, case, None, None, _where(lp, nbh))
        if not ok:
            return


# ------------------------------------------------------------------------------------------------ C07
def _fuzz_C07(env, rng, lp, nbh, plan, case):
    """after a random plan, fit(D): from equal stream positions the bandit and a fresh one (current arm list) fit on D give
    the same results now, after one more partial_fit, and after a warm start (statuses).  Results are compared, not the
    raw attribute digest: a policy object nested in a neighbourhood policy keeps values no query ever reads, and
    scikit-learn estimators keep run-dependent internals."""
    calls = _calls(plan)
    a = build(case)
    try:
        for c in calls:
            call(a, c)
    except Exception:       # noqa
        return
    cur = list(a.arms)
    binary = P.is_binary_lp(lp)
    d = 2 if P.needs_ctx(lp, nbh) else 0
    new = ['fit'] + P.rand_rows(rng, int(rng.integers(5, 9)), _subset(rng, cur, 1), binary, d)
    cont = [['partial_fit'] + P.rand_rows(rng, 3, _subset(rng, cur, 1), binary, d)]
    if nbh is None and lp[0] != 'Random':
        cont.append(['warm_start', [[x, [int(rng.integers(1, 6)) for _ in range(3)]] for x in cur], 1.0])
    case = dict(case, calls=calls + [new], fresh={'arms': cur, 'calls': [new]}, continuation=cont)
    b = build(dict(case, arms=cur))
    a._rng.rng.bit_generator.state = b._rng.rng.bit_generator.state        # equal stream positions (fit may draw: LSH planes)
    for k, c in enumerate([new] + cont):
        ok, msg = _apply_pair(a, b, c, c)
        if ok is None:
            raise Failure('C07', msg, case, None, None, _where(lp, nbh))
        if not ok:
            return
        if lp[0] == 'LinTS' and k > 0:
            return          # (every arm model has drawn from a private stream by now)
        ra, rb = P.observe(a, lp, nbh), P.observe(b, lp, nbh)
        if nbh is None:
            ra.append(list(a.cold_arms))
            rb.append(list(b.cold_arms))
        if not same_result(ra, rb, 0):
            absent = [x for x in cur if x not in new[1]]
            raise Failure('C07', 'results %s depend on the random plan before that fit: %s/%s%s'
                          % ('after fit' if k == 0 else 'after fit and %s' % c[0], lp[0], nbh and nbh[0],
                             (' (arms %r are absent from that fit)' % absent) if absent else ''),
                          case, ra, rb, _where(lp, nbh))


# ------------------------------------------------------------------------------------------------ C08 / C09
def _fuzz_C08(env, rng, lp, nbh, plan, case, prop='C08'):
    m = build(case)
    cur = list(P.ARMS)
    done = 0
    for c in plan:
        if c != 'Q':
            try:
                call(m, c)
            except Exception as e:      # noqa
                if prop == 'C08' and c[0] in ('add_arm', 'remove_arm'):
                    raise Failure('C08', '%s raised %r' % (c[0], e), dict(case, calls=case['calls'][:done + 1]), repr(e),
                                  'no exception', _where(lp, nbh))
                return
            done += 1
            if c[0] == 'add_arm':
                cur.append(c[1])
            if c[0] == 'remove_arm':
                cur.remove(c[1])
            continue
        for q in P.queries_for(lp, nbh):
            twin = copy.deepcopy(m)
            e = m.predict_expectations(q)
            p = twin.predict(q)
            m.predict(q)
            n = 1 if q is None else len(q)
            es = e if isinstance(e, list) else [e]
            ps = p if isinstance(p, list) else [p]
            if prop == 'C08' and ((n > 1) != isinstance(e, list) or (n > 1) != isinstance(p, list) or len(es) != n or len(ps) != n):
                raise Failure('C08', 'shape of the results for %d rows' % n, dict(case, calls=case['calls'][:done]), [e, p],
                              'one result per row', _where(lp, nbh))
            for ee, pp in zip(es, ps):
                if prop == 'C08' and (list(ee.keys()) != cur or pp not in cur):
                    raise Failure('C08', 'random plan, after %d calls: the outputs do not range over the arms %r: predict gives '
                                  '%r, the expectations have keys %r' % (done, cur, pp, list(ee.keys())),
                                  dict(case, calls=case['calls'][:done]), [list(ee.keys()), pp], cur, _where(lp, nbh))
                vals = list(ee.values())
                if prop == 'C09' and not any(isinstance(v, float) and math.isnan(v) for v in vals):
                    best = [a_ for a_ in ee if ee[a_] == max(vals)][0]
                    if pp != best:
                        raise Failure('C09', 'random plan, after %d calls: predict returns %r, the first arg-max of the '
                                      'expectations from the same stream position is %r' % (done, pp, best),
                                      dict(case, calls=case['calls'][:done]), pp, ee, _where(lp, nbh))


def _fuzz_C09(env, rng, lp, nbh, plan, case):
    return _fuzz_C08(env, rng, lp, nbh, plan, case, prop='C09')


# ------------------------------------------------------------------------------------------------ C10
def _fuzz_C10(env, rng, lp, nbh, plan, case):
    """a bandit that answers queries wherever the plan says so, and a twin that is never queried: before each round of
    queries (and at the end) copies of the two, put at the same stream position, answer alike"""
    if lp[0] == 'LinTS':
        return              # every arm model advances a private stream while predicting (allowed: random streams)
    a, b = build(case), build(case)
    done = 0
    for c in plan:
        if c == 'Q':
            ta, tb = copy.deepcopy(a), copy.deepcopy(b)
            tb._rng.rng.bit_generator.state = ta._rng.rng.bit_generator.state
            ra, rb = P.observe(ta, lp, nbh), P.observe(tb, lp, nbh)
            if not same_result(ra, rb, 0):
                raise Failure('C10', 'random plan, after %d calls: a bandit that answered queries earlier answers differently '
                              'from a twin that was never queried (%s/%s)' % (done, lp[0], nbh and nbh[0]),
                              dict(case, calls=case['calls'][:done]), ra, rb, _where(lp, nbh))
            for q in P.queries_for(lp, nbh):
                a.predict(q)
                a.predict_expectations(q)
            # the queries advanced a's streams only; the twin gets the same position so that later training draws agree
            b._rng.rng.bit_generator.state = a._rng.rng.bit_generator.state
            continue
        ok, msg = _apply_pair(a, b, c, c)
        if ok is None:
            raise Failure('C10', 'a queried bandit and a never queried twin: ' + msg, dict(case, calls=case['calls'][:done + 1]),
                          None, None, _where(lp, nbh))
        if not ok:
            return
        done += 1


# ------------------------------------------------------------------------------------------------ C19
def _fuzz_C19(env, rng, lp, nbh, plan, case):
    if lp[1].get('binarizer') == 'binz_arm':
        return
    m = build(case)
    done = 0
    binary = P.is_binary_lp(lp)
    d = 2 if P.needs_ctx(lp, nbh) else 0
    for c in plan:
        if c != 'Q':
            try:
                call(m, c)
            except Exception:       # noqa
                return
            done += 1
            continue
        here = dict(case, calls=case['calls'][:done])
        try:
            clones = [copy.deepcopy(m)] + [pickle.loads(pickle.dumps(m, protocol=p)) for p in (2, 5)]
        except Exception as e:      # noqa
            raise Failure('C19', 'random plan, after %d calls: %s/%s cannot be copied or pickled: %r'
                          % (done, lp[0], nbh and nbh[0], e), here, repr(e), 'a restored copy', _where(lp, nbh))
        more = ['partial_fit'] + P.rand_rows(rng, 3, list(m.arms)[:2], binary, d)
        want = P.observe(m, lp, nbh)
        for cl in clones:
            got = P.observe(cl, lp, nbh)
            if not same_result(got, want, 0):
                raise Failure('C19', 'random plan, after %d calls: a copy / pickle of %s/%s answers differently'
                              % (done, lp[0], nbh and nbh[0]), here, got, want, _where(lp, nbh))
        # the copies are independent of the original: train one of them on, the original must not notice
        before = learned_state(m)
        try:
            call(clones[0], more)
        except Exception:       # noqa
            pass
        if learned_state(m) != before:
            raise Failure('C19', 'random plan, after %d calls: training a deep copy of %s/%s changed the original'
                          % (done, lp[0], nbh and nbh[0]), dict(here, continuation=[more]), None, None, _where(lp, nbh))


# ------------------------------------------------------------------------------------------------ C20
def _fuzz_C20(env, rng, lp, nbh, plan, case):
    a = build(case)
    outs = []
    try:
        for c in plan:
            if c == 'Q':
                outs.append(P.observe(a, lp, nbh))
            else:
                call(a, c)
    except Exception:       # noqa
        return
    for names in (NAMES_STR, NAMES_INT0, NAMES_FLT):
        plan_b = [_rename(c, names) for c in plan]
        case_b = dict(case, arms=[names[x] for x in P.ARMS], calls=_calls(plan_b), plan=plan_b)
        b = build(case_b)
        k = 0
        for c in plan_b:
            if c == 'Q':
                rb = P.observe(b, lp, nbh)
                if not same_result(_ren_out(outs[k], names), rb, 0):
                    raise Failure('C20', 'random plan: renaming the arms to %r changes more than the names (%s/%s)'
                                  % ([names[x] for x in P.ARMS], lp[0], nbh and nbh[0]), case_b, rb, _ren_out(outs[k], names),
                                  _where(lp, nbh))
                k += 1
            else:
                try:
                    call(b, c)
                except Exception as e:      # noqa
                    raise Failure('C20', 'random plan: with the arms renamed to %r, %s raises %r (accepted with labels 1, 2, 3)'
                                  % ([names[x] for x in P.ARMS], c[0], e), case_b, repr(e), 'accepted', _where(lp, nbh))


FUZZ_PROPS = ('C04', 'C05', 'C07', 'C08', 'C09', 'C10', 'C17', 'C19', 'C20')


# ------------------------------------------------------------------------------------------------ C17
def _fuzz_C17(env, rng, lp, nbh, plan, case):
    """after a random plan, every call of a list of calls the library must reject leaves the bandit as it was (the raw
    attribute digest may be compared here: nothing but the rejected call happens between the two snapshots)"""
    m = build(case)
    try:
        for c in _calls(plan):
            call(m, c)
    except Exception:       # noqa
        return
    cur = list(m.arms)
    binary = P.is_binary_lp(lp)
    ctx = P.needs_ctx(lp, nbh)
    d = 2 if ctx else 0
    x2 = [[0, 0], [1, 1]]
    good = P.rand_rows(rng, 4, cur, binary, d)
    bad = [['partial_fit', cur[:2], [1]] + ([x2] if ctx else []),                           # length mismatch
           ['partial_fit', [cur[0], 99], [1, 0]] + ([x2] if ctx else []),                     # unknown arm
           ['fit', [cur[0], 99], [1, 0]] + ([x2] if ctx else []),
           ['partial_fit', cur[:2], [1, float('nan')]] + ([x2] if ctx else []),               # non-finite reward
           ['fit', cur[:2], [float('inf'), 0]] + ([x2] if ctx else []),
           ['add_arm', cur[0]], ['add_arm', None], ['add_arm', float('nan')], ['remove_arm', 42],
           ['warm_start', [[a, [1, 2, 3]] for a in cur], 2.0],                                # quantile out of range
           ['warm_start', [[a, [1, 2, 3]] for a in cur[:-1]], 0.5]]                           # an arm without features
    if ctx:
        bad += [['partial_fit', good[0], good[1], [[0, 0, 0]] * len(good[0])],                # wrong number of features
                ['fit', good[0], good[1], [[0, 0]] * (len(good[0]) - 1)],                     # fewer context rows
                ['partial_fit', good[0], good[1]],                                            # contexts missing
                ['predict_expectations', [[0, 0, 0]]], ['predict', [[0]]]]
    else:
        bad += [['partial_fit', good[0], good[1], [[0, 0]] * len(good[0])]]                   # contexts superfluous
    if not binary and lp[0] == 'ThompsonSampling' and not lp[1].get('binarizer'):
        pass
    if binary:
        bad.append(['partial_fit', cur[:2], [0, 3]] + ([x2] if ctx else []))                  # non-binary reward for Thompson
    case = dict(case, rejected=bad)
    for c in bad:
        before = learned_state(m)
        arms_before = list(m.arms)
        try:
            call(m, c)
        except Exception:       # noqa
            after = learned_state(m)
            if before != after or list(m.arms) != arms_before:
                raise Failure('C17', 'random plan: the rejected call %r changed the bandit (%s/%s)'
                              % ([c[0]] + [str(x)[:40] for x in c[1:3]], lp[0], nbh and nbh[0]), dict(case, rejected=[c]),
                              repr(after)[:500], repr(before)[:500], _where(lp, nbh))
