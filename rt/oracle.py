"""Executable reference semantics (independent of mabwiser): what the property statements say the expectations are.

RefBandit replays the public call sequence on plain Python data and answers with the documented statistic of exactly
the rows observed since the most recent fit.  Only deterministic quantities are produced (learned statistics and the
expectations of policies whose expectations are deterministic).
"""
import math

import numpy as np


def dist(metric, u, v):
    d = np.abs(np.asarray(u, dtype=float) - np.asarray(v, dtype=float))
    if metric == 'cityblock':
        return float(d.sum())
    if metric == 'chebyshev':
        return float(d.max())
    if metric == 'sqeuclidean':
        return float((d * d).sum())
    if metric == 'euclidean':
        return float(math.sqrt((d * d).sum()))
    raise ValueError(metric)


class Rows:
    """the observations since the most recent fit"""

    def __init__(self):
        self.d, self.r, self.x = [], [], []

    def extend(self, d, r, x=None):
        self.d += list(d)
        self.r += list(r)
        if x is not None:
            self.x += [list(map(float, row)) for row in x]

    def subset(self, idx):
        s = Rows()
        s.d = [self.d[i] for i in idx]
        s.r = [self.r[i] for i in idx]
        s.x = [self.x[i] for i in idx] if self.x else []
        return s

    def of(self, arm):
        return [r for d, r in zip(self.d, self.r) if d == arm]

    def x_of(self, arm):
        return [x for d, x in zip(self.d, self.x) if d == arm]


def mean_of(rs):
    return sum(rs) / len(rs) if rs else 0


# ------------------------------------------------------------------------------------ learning policies (C01, C02)
def lp_stat(lp, arms, rows, query=None, n_total=None):
    """deterministic expectation per arm of learning policy `lp` trained from scratch on `rows`;
    returns None for policies whose expectations are random draws"""
    name, kw = lp[0], lp[1]
    if name == 'EpsilonGreedy':
        if kw.get('epsilon', 0.1) != 0:
            return None
        return {a: mean_of(rows.of(a)) for a in arms}
    if name == 'UCB1':
        n_total = len(rows.d) if n_total is None else n_total
        out = {}
        for a in arms:
            rs = rows.of(a)
            out[a] = (mean_of(rs) + kw.get('alpha', 1) * math.sqrt(2 * math.log(n_total) / len(rs))) if rs else 0
        return out
    if name == 'Softmax':
        return None            # the returned expectations are Dirichlet draws around the soft-max shares
    if name in ('LinGreedy', 'LinUCB', 'LinTS'):
        if name == 'LinGreedy' and kw.get('epsilon', 0.1) != 0:
            return None
        if name == 'LinTS' or kw.get('scale', False):
            return None
        l2 = kw.get('l2_lambda', 1.0)
        alpha = kw.get('alpha', 1.0) if name == 'LinUCB' else 0.0
        q = np.asarray(query, dtype=float)
        dim = len(q)
        out = {}
        for a in arms:
            xs = rows.x_of(a)
            X = np.asarray(xs, dtype=float).reshape(len(xs), dim)
            y = np.asarray(rows.of(a), dtype=float)
            A = l2 * np.identity(dim) + X.T @ X
            A_inv = np.linalg.inv(A)
            beta = A_inv @ (X.T @ y)
            out[a] = float(q @ beta + alpha * math.sqrt(max(float(q @ A_inv @ q), 0.0)))
        return out
    return None


def learned(lp, arms, rows, n_total=None):
    """deterministic learned statistics of a context-free policy: name -> {arm: value} (compared with the fields of the
    implementor of the same name)"""
    name, kw = lp[0], lp[1]
    if name == 'EpsilonGreedy':
        return {'arm_to_expectation': {a: mean_of(rows.of(a)) for a in arms}}
    if name == 'UCB1':
        return {'arm_to_expectation': lp_stat(lp, arms, rows, n_total=n_total)}
    if name == 'Softmax':
        tau = kw.get('tau', 1)
        means = {a: mean_of(rows.of(a)) for a in arms}
        mx = max(means.values())
        ex = {a: math.exp((means[a] - mx) / tau) for a in arms}
        tot = sum(ex.values())
        return {'arm_to_expectation': {a: ex[a] / tot for a in arms}}
    if name == 'Popularity':
        means = {a: mean_of(rows.of(a)) for a in arms}
        tot = sum(means.values())
        if tot == 0:
            return None        # the uniform fallback is only defined right after fit; not compared
        return {'arm_to_expectation': {a: means[a] / tot for a in arms}}
    if name == 'ThompsonSampling':
        b = kw.get('binarizer')
        from rt.core import BINARIZERS
        f = BINARIZERS[b] if isinstance(b, str) else None
        succ, fail = {}, {}
        for a in arms:
            rs = rows.of(a)
            rs = [f(a, r) for r in rs] if f else rs
            succ[a] = 1 + sum(rs)
            fail[a] = 1 + len(rs) - sum(rs)
        return {'arm_to_success_count': succ, 'arm_to_fail_count': fail}
    return None


# ------------------------------------------------------------------------------------ neighbourhoods (C03)
def radius_rows(rows, query, radius, metric):
    return [i for i, x in enumerate(rows.x) if dist(metric, x, query) <= radius]


def knn_rows(rows, query, k, metric):
    """indices of the k smallest distances, or None when the k-th and (k+1)-th smallest coincide (any tie-break valid)"""
    ds = sorted((dist(metric, x, query), i) for i, x in enumerate(rows.x))
    if k < len(ds) and ds[k - 1][0] == ds[k][0]:
        return None
    return sorted(i for _, i in ds[:k])


class RefBandit:
    """reference bandit: arms + rows since the most recent fit; arm changes keep the rows of the remaining arms"""

    def __init__(self, arms, lp, nbh=None):
        self.arms = list(arms)
        self.lp = lp
        self.nbh = nbh
        self.rows = Rows()
        self.fitted = False

    def apply(self, c):
        m = c[0]
        if m == 'fit':
            self.rows = Rows()
            self.rows.extend(c[1], c[2], c[3] if len(c) > 3 else None)
            self.fitted = True
        elif m == 'partial_fit':
            if not self.fitted:
                self.rows = Rows()
                self.fitted = True
            self.rows.extend(c[1], c[2], c[3] if len(c) > 3 else None)
        elif m == 'add_arm':
            self.arms.append(c[1])
        elif m == 'remove_arm':
            self.arms.remove(c[1])
            # context-free statistics of a removed arm are gone; if the label is added again it starts afresh
            keep = [i for i, d in enumerate(self.rows.d) if d != c[1]]
            if self.nbh is None:
                self.removed_rows = getattr(self, 'removed_rows', 0) + (len(self.rows.d) - len(keep))
                self.rows = self.rows.subset(keep)

    def n_total(self):
        return len(self.rows.d) + getattr(self, 'removed_rows', 0)
