"""Executable forms of the properties C01-C20 over enumerated small scopes (bounded; see rt/core.py).

Every check_Cxx(env) is a generator of cases; it raises core.Failure with a JSON-able record on the first input for
which the real code disagrees with the property.  env carries the random generator (VERIF_SEED), the tier and an
optional `focus` (substring of a module / class name: restrict the scopes to the policies implemented there).
"""
import copy
import itertools
import json
import math
import pickle

import numpy as np

from rt import core, oracle
from rt.core import Failure, build, call, drive, same_result, close, learned_state

ARMS = [1, 2, 3]

CF_DET = [['EpsilonGreedy', {'epsilon': 0.0}], ['UCB1', {'alpha': 1.5}], ['Softmax', {'tau': 0.7}]]
CF_OUT = CF_DET[:2]        # policies whose *returned* expectations are deterministic (Softmax returns Dirichlet draws)
CF_STATE = CF_DET + [['Popularity', {}], ['ThompsonSampling', {}], ['ThompsonSampling', {'binarizer': 'binz'}]]
CF_ALL = CF_STATE + [['EpsilonGreedy', {'epsilon': 0.3}], ['Random', {}]]
LIN_DET = [['LinGreedy', {'epsilon': 0.0, 'l2_lambda': 1.0}], ['LinUCB', {'alpha': 1.2, 'l2_lambda': 1.0}],
           ['LinGreedy', {'epsilon': 0.0, 'l2_lambda': 0.5}]]
LIN_ALL = LIN_DET + [['LinTS', {'alpha': 0.6, 'l2_lambda': 1.0}], ['LinGreedy', {'epsilon': 0.3, 'l2_lambda': 1.0}]]
NBH_EXACT = [['Radius', {'radius': 2.0, 'metric': 'cityblock'}], ['Radius', {'radius': 2.0, 'metric': 'chebyshev'}],
             ['Radius', {'radius': 5.0, 'metric': 'sqeuclidean'}], ['KNearest', {'k': 3, 'metric': 'cityblock'}],
             ['KNearest', {'k': 2, 'metric': 'euclidean'}]]
NBH_OTHER = [['LSHNearest', {'n_dimensions': 3, 'n_tables': 2}], ['Clusters', {'n_clusters': 2}],
             ['Clusters', {'n_clusters': 2, 'is_minibatch': True}], ['TreeBandit', {}]]
TREE_LPS = [['EpsilonGreedy', {'epsilon': 0.0}], ['UCB1', {'alpha': 1.5}], ['ThompsonSampling', {}]]


def is_binary_lp(lp):
    return lp[0] == 'ThompsonSampling' and not lp[1].get('binarizer')


def focus_ok(env, *names):
    f = env.get('focus')
    if not f:
        return True
    return any(n and (n.lower() in f.lower() or f.lower() in n.lower()) for n in names)


MODULE_OF = {'EpsilonGreedy': 'greedy', 'UCB1': 'ucb', 'Softmax': 'softmax', 'Popularity': 'popularity',
             'ThompsonSampling': 'thompson', 'Random': 'rand', 'LinGreedy': 'linear', 'LinUCB': 'linear',
             'LinTS': 'linear', 'Radius': 'neighbors', 'KNearest': 'neighbors', 'LSHNearest': 'approximate',
             'Clusters': 'clusters', 'TreeBandit': 'treebandit'}


def in_focus(env, lp, nbh=None):
    if (lp[0], nbh[0] if nbh else None) in env.get('blocked', ()):
        return False           # a failure of this combination was already recorded (--all keeps going)
    only = env.get('only')
    if only and (only.get('lp') != lp[0] or only.get('np') != (nbh[0] if nbh else None)):
        return False           # replay of one recorded combination
    f = env.get('focus')
    if not f:
        return True
    mods = {MODULE_OF.get(lp[0], '')}
    if nbh:
        mods.add(MODULE_OF.get(nbh[0], ''))
    mods |= {'mab', 'base_mab', 'utils'}
    return any(m and m in f for m in mods)


# ------------------------------------------------------------------------------------------- data
def rand_rows(rng, n, arms, binary=False, dim=0, lo=-3, hi=3):
    d = [arms[int(rng.integers(len(arms)))] for _ in range(n)]
    r = [int(rng.integers(0, 2)) if binary else int(rng.integers(0, 11)) for _ in range(n)]
    if dim:
        x = [[int(rng.integers(lo, hi + 1)) for _ in range(dim)] for _ in range(n)]
        return [d, r, x]
    return [d, r]


def cf_histories(rng, binary, n_random=3):
    """call sequences over fit / partial_fit / add_arm / remove_arm (re-adding a removed label included)"""
    R = (lambda v: [1 if x >= 5 else 0 for x in v]) if binary else (lambda v: v)
    hs = [
        [['fit', [1, 2, 3, 1, 2, 1], R([10, 3, 7, 2, 8, 4])], ['partial_fit', [2, 2], R([1, 5])]],
        # a batch that omits an arm, then one with only that arm; arm changes in between
        [['fit', [1, 2, 1, 2], R([6, 1, 9, 4])], ['partial_fit', [3], R([7])], ['add_arm', 4],
         ['partial_fit', [4, 1, 4], R([2, 6, 9])], ['remove_arm', 1], ['partial_fit', [2, 3], R([8, 0])],
         ['add_arm', 1], ['partial_fit', [1, 1, 2], R([5, 10, 3])]],
        # refit on smaller data
        [['fit', [1, 2, 3, 3, 2, 1, 1], R([1, 9, 4, 6, 7, 0, 10])], ['fit', [2, 3], R([6, 2])],
         ['partial_fit', [1], R([8])]],
        # single-row chunks
        [['fit', [3], R([9])], ['partial_fit', [1], R([2])], ['partial_fit', [2], R([6])], ['partial_fit', [3], R([0])]],
    ]
    for _ in range(n_random):
        arms = list(ARMS)
        h = [['fit'] + rand_rows(rng, int(rng.integers(3, 9)), arms, binary)]
        for _ in range(int(rng.integers(1, 4))):
            k = int(rng.integers(4))
            if k == 0 and len(arms) < 5:
                new = max(arms) + 1
                arms.append(new)
                h.append(['add_arm', new])
            elif k == 1 and len(arms) > 2:
                a = arms[int(rng.integers(len(arms)))]
                arms.remove(a)
                h.append(['remove_arm', a])
            h.append(['partial_fit'] + rand_rows(rng, int(rng.integers(1, 6)), arms, binary))
        hs.append(h)
    return hs


GRID_FIT = [[1, 2, 3, 1, 2, 3, 1, 2], [10, 3, 7, 2, 8, 5, 6, 1],
            [[0, 0], [2, 0], [0, 2], [1, 1], [-2, 0], [3, 3], [0, -1], [-1, -1]]]
GRID_PF1 = [[3, 1, 2], [1, 6, 9], [[1, 0], [-3, -4], [0, 1]]]
GRID_PF2 = [[2, 3], [4, 0], [[2, 2], [-1, 1]]]
GRID_QUERIES = [[0, 0], [1, 1], [2, 0], [-1, 0], [9, 9]]


def ctx_histories(rng, binary, n_random=2, dim=2):
    R = (lambda v: [1 if x >= 5 else 0 for x in v]) if binary else (lambda v: v)
    hs = [[['fit', GRID_FIT[0], R(GRID_FIT[1]), GRID_FIT[2]]],
          [['fit', GRID_FIT[0], R(GRID_FIT[1]), GRID_FIT[2]], ['partial_fit', GRID_PF1[0], R(GRID_PF1[1]), GRID_PF1[2]],
           ['partial_fit', GRID_PF2[0], R(GRID_PF2[1]), GRID_PF2[2]]]]
    for _ in range(n_random):
        h = [['fit'] + rand_rows(rng, int(rng.integers(6, 11)), ARMS, binary, dim)]
        for _ in range(int(rng.integers(0, 3))):
            h.append(['partial_fit'] + rand_rows(rng, int(rng.integers(1, 5)), ARMS, binary, dim))
        hs.append(h)
    return hs


def ctx_histories_rich(rng, binary, dim=2):
    """contextual histories with arm changes in between: add an arm and train it, remove an arm, train on, refit"""
    R = (lambda v: [1 if x >= 5 else 0 for x in v]) if binary else (lambda v: v)
    hs = ctx_histories(rng, binary, 1, dim)
    a = rand_rows(rng, 9, ARMS, binary, dim)
    b = rand_rows(rng, 5, ARMS + [4], binary, dim)
    b[0][0] = 4
    c = rand_rows(rng, 4, [1, 3, 4], binary, dim)
    d = rand_rows(rng, 6, [1, 3, 4], binary, dim)
    hs.append([['fit'] + a, ['add_arm', 4], ['partial_fit'] + b, ['remove_arm', 2], ['partial_fit'] + c, ['fit'] + d])
    return hs


def compare_maps(prop, what, case, got, exp, arms, where):
    if list(got.keys()) != list(arms):
        raise Failure(prop, what + ': keys differ from the arms', case, list(got.keys()), list(arms), where)
    for a in arms:
        if not close(got[a], exp[a], 1e-9):
            raise Failure(prop, '%s: arm %r holds %r, the property gives %r' % (what, a, got[a], exp[a]), case,
                          {str(k): v for k, v in got.items()}, {str(k): v for k, v in exp.items()}, where)


# =========================================================================================== C01
def check_C01(env):
    rng = env['rng']
    for lp in CF_STATE:
        if not in_focus(env, lp):
            continue
        for h in cf_histories(rng, is_binary_lp(lp)):
            case = {'arms': ARMS, 'lp': lp, 'calls': h}
            mab = build(case)
            ref = oracle.RefBandit(ARMS, lp)
            for k, c in enumerate(h):
                call(mab, c)
                ref.apply(c)
                exp = oracle.learned(lp, ref.arms, ref.rows, n_total=ref.n_total())
                if exp is None:
                    continue
                for field, vals in exp.items():
                    compare_maps('C01', '%s.%s after call %d (%s)' % (lp[0], field, k, c[0]), case,
                                 dict(getattr(mab._imp, field)), vals, ref.arms, '%s' % MODULE_OF[lp[0]])
            yield case


# =========================================================================================== C02
def check_C02(env):
    rng = env['rng']
    for lp in LIN_DET + [['LinUCB', {'alpha': 0.7, 'l2_lambda': 2.5}]]:
        if not in_focus(env, lp):
            continue
        for h in ctx_histories(rng, False):
            h = h + [['add_arm', 4], ['partial_fit', [4, 4, 1], [3, 8, 5], [[1, 2], [0, 1], [2, 2]]]]
            case = {'arms': ARMS, 'lp': lp, 'calls': h}
            mab = build(case)
            ref = oracle.RefBandit(ARMS, lp)
            for k, c in enumerate(h):
                call(mab, c)
                ref.apply(c)
                if not ref.fitted:
                    continue
                for q in GRID_QUERIES[:3]:
                    got = mab.predict_expectations([q])
                    exp = oracle.lp_stat(lp, ref.arms, ref.rows, q)
                    # known finding D2: a never-observed arm holds lambda*I, the property demands I/lambda
                    arms = [a for a in ref.arms if ref.rows.of(a) or lp[1]['l2_lambda'] == 1.0 or lp[0] != 'LinUCB']
                    if list(got.keys()) != list(ref.arms):
                        raise Failure('C02', 'keys differ from the arms', case, list(got.keys()), ref.arms, 'linear')
                    for a in arms:
                        if not close(got[a], exp[a], 1e-7):
                            raise Failure('C02', '%s after call %d: arm %r query %r: %r, ridge regression gives %r'
                                          % (lp[0], k, a, q, got[a], exp[a]), case, got, exp, 'linear')
            yield case


    # LinTS: as alpha -> 0 the draws concentrate on x.beta; one feature and several query rows in one call included
    for dim in (1, 2):
        lp = ['LinTS', {'alpha': 1e-9, 'l2_lambda': 1.0}]
        if not in_focus(env, lp):
            continue
        rows = rand_rows(rng, 10, ARMS, False, dim)
        case = {'arms': ARMS, 'lp': lp, 'calls': [['fit'] + rows]}
        m = build(case)
        drive(m, case['calls'])
        ref = oracle.RefBandit(ARMS, lp)
        ref.apply(case['calls'][0])
        qs = [[1.0] * dim, [2.0] * dim, [-1.0] * dim, [0.5] * dim]
        got = m.predict_expectations(qs)
        for q, g in zip(qs, got):
            exp = oracle.lp_stat(['LinGreedy', {'epsilon': 0.0, 'l2_lambda': 1.0}], ARMS, ref.rows, q)
            for a in ARMS:
                if not close(g[a], exp[a], 1e-5):
                    raise Failure('C02', 'LinTS (alpha -> 0), %d feature(s), %d query rows: arm %r at %r has %r, x.beta is %r'
                                  % (dim, len(qs), a, q, g[a], exp[a]), case, g, exp, 'linear')
        yield case


# =========================================================================================== C03
def nbh_rows(nbh, rows, q):
    if nbh[0] == 'Radius':
        return oracle.radius_rows(rows, q, nbh[1]['radius'], nbh[1]['metric'])
    return oracle.knn_rows(rows, q, nbh[1]['k'], nbh[1]['metric'])


def check_C03(env):
    rng = env['rng']
    for nbh in NBH_EXACT:
        for lp in CF_OUT + LIN_DET[:2]:
            if not in_focus(env, lp, nbh):
                continue
            for h in ctx_histories_rich(rng, False):
                case = {'arms': ARMS, 'lp': lp, 'np': nbh, 'calls': h}
                mab = build(case)
                ref = oracle.RefBandit(ARMS, lp, nbh)
                for k, c in enumerate(h):
                    call(mab, c)
                    ref.apply(c)
                    for q in GRID_QUERIES:
                        idx = nbh_rows(nbh, ref.rows, q)
                        if idx is None:
                            continue
                        got = mab.predict_expectations([q])
                        if list(got.keys()) != list(ref.arms):
                            raise Failure('C03', 'keys differ from the arms', case, list(got.keys()), ref.arms, 'neighbors')
                        if not idx:
                            if not all(isinstance(v, float) and math.isnan(v) for v in got.values()):
                                raise Failure('C03', 'empty neighbourhood of %r: expectations are not all NaN' % (q,),
                                              case, got, 'NaN for every arm', 'neighbors')
                            p = mab.predict([q])
                            if p not in ref.arms:
                                raise Failure('C03', 'empty neighbourhood: predicted %r is not an arm' % (p,), case, p,
                                              ref.arms, 'neighbors')
                            continue
                        exp = oracle.lp_stat(lp, ref.arms, ref.rows.subset(idx), q)
                        for a in ref.arms:
                            if not close(got[a], exp[a], 1e-7):
                                raise Failure('C03', '%s/%s after call %d, query %r (neighbourhood rows %r): arm %r has %r, '
                                              'training on exactly those rows gives %r' % (nbh[0], lp[0], k, q, idx, a,
                                                                                           got[a], exp[a]),
                                              case, got, exp, 'neighbors')
                yield case
    # an arm whose label is wider than every label seen at fit is first observed by partial_fit
    for nbh in (NBH_EXACT[0], NBH_EXACT[3]):
        lp = CF_OUT[0]
        if not in_focus(env, lp, nbh):
            continue
        arms = ['A', 'B', 'long_arm']
        rows1 = rand_rows(rng, 8, arms[:2], False, 2)
        rows2 = rand_rows(rng, 6, arms, False, 2)
        rows2[0][0] = 'long_arm'
        case = {'arms': arms, 'lp': lp, 'np': nbh, 'calls': [['fit'] + rows1, ['partial_fit'] + rows2]}
        m = build(case)
        ref = oracle.RefBandit(arms, lp, nbh)
        for c in case['calls']:
            call(m, c)
            ref.apply(c)
        for q in GRID_QUERIES[:4]:
            idx = nbh_rows(nbh, ref.rows, q)
            if not idx:
                continue
            got = m.predict_expectations([q])
            exp = oracle.lp_stat(lp, arms, ref.rows.subset(idx), q)
            if not all(close(got[a], exp[a], 1e-9) for a in arms):
                raise Failure('C03', '%s with string labels of different widths: query %r has %r, the neighbourhood rows %r give %r'
                              % (nbh[0], q, got, idx, exp), case, got, exp, 'neighbors')
        yield case
    # a large radius with rows exactly on it and one grid step beyond it (no tolerance at the boundary)
    for metric, radius in (('cityblock', 200000.0), ('chebyshev', 300000.0), ('sqeuclidean', 250000.0)):
        lp, nbh = CF_OUT[0], ['Radius', {'radius': radius, 'metric': metric}]
        if not in_focus(env, lp, nbh):
            continue
        on = {'cityblock': [radius, 0], 'chebyshev': [radius, 5], 'sqeuclidean': [500, 0]}[metric]
        off = {'cityblock': [radius, 1], 'chebyshev': [radius + 1, 5], 'sqeuclidean': [500, 1]}[metric]
        rows = [[1, 2, 3, 1], [10, 2, 6, 4], [[0, 0], on, off, [1, 0]]]
        case = {'arms': ARMS, 'lp': lp, 'np': nbh, 'calls': [['fit'] + rows]}
        m = build(case)
        drive(m, case['calls'])
        ref = oracle.RefBandit(ARMS, lp, nbh)
        ref.apply(case['calls'][0])
        idx = oracle.radius_rows(ref.rows, [0, 0], radius, metric)
        got = m.predict_expectations([[0, 0]])
        exp = oracle.lp_stat(lp, ARMS, ref.rows.subset(idx), [0, 0])
        if not all(close(got[a], exp[a], 1e-9) for a in ARMS):
            raise Failure('C03', 'Radius(%g, %s): rows exactly on the radius belong to the neighbourhood, the row one step beyond '
                          'does not: got %r, rows %r give %r' % (radius, metric, got, idx, exp), case, got, exp, 'neighbors')
        yield case
    # the empty-neighbourhood distribution: never an arm with probability zero
    for lp in CF_OUT[:1]:
        nbh = ['Radius', {'radius': 0.5, 'metric': 'cityblock', 'no_nhood_prob_of_arm': [0.0, 1.0, 0.0]}]
        if not in_focus(env, lp, nbh):
            continue
        case = {'arms': ARMS, 'lp': lp, 'np': nbh, 'calls': [['fit'] + GRID_FIT]}
        mab = build(case)
        drive(mab, case['calls'])
        for _ in range(25):
            p = mab.predict([[9, 9]])
            if p != 2:
                raise Failure('C03', 'empty neighbourhood: arm %r drawn although its probability is zero' % (p,), case, p, 2,
                              'neighbors')
        yield case


# =========================================================================================== differential helpers
def all_configs(env, cf=True, ctx=True, others=True, lps_cf=None, lps_lin=None):
    """(lp, nbh, needs_context) over the policy combinations of the statement quantifiers"""
    out = []
    if cf:
        for lp in (lps_cf or CF_ALL):
            out.append((lp, None))
    if ctx:
        for lp in (lps_lin or LIN_ALL):
            out.append((lp, None))
        for nbh in NBH_EXACT[:1] + NBH_EXACT[3:4] + (NBH_OTHER if others else []):
            lps = (lps_cf or CF_ALL)[:] + (lps_lin or LIN_ALL)[:2]
            if nbh[0] == 'TreeBandit':
                lps = TREE_LPS
            for lp in lps:
                out.append((lp, nbh))
    return [(lp, nbh) for lp, nbh in out if in_focus(env, lp, nbh)]


def needs_ctx(lp, nbh):
    return nbh is not None or lp[0].startswith('Lin')


def history_for(rng, lp, nbh, n_random=1):
    binary = is_binary_lp(lp)
    return ctx_histories(rng, binary, n_random) if needs_ctx(lp, nbh) else cf_histories(rng, binary, n_random)


def queries_for(lp, nbh, multi=True):
    if needs_ctx(lp, nbh):
        return [[GRID_QUERIES[0]], GRID_QUERIES[:4]] if multi else [[GRID_QUERIES[0]]]
    return [None]


def observe(mab, lp, nbh, multi=True):
    out = []
    for q in queries_for(lp, nbh, multi):
        out.append(mab.predict_expectations(q))
        out.append(mab.predict(q))
    return out


def _arm_changes_between_queries(prop, env):
    """queries before and after arm changes - also after a remove / add pair that keeps the number of arms, with no query in
    between - so that anything a query leaves behind (cached label arrays, expectations) meets a changed arm list"""
    rng = env['rng']
    for lp, nbh in all_configs(env):
        binary = is_binary_lp(lp)
        d = 2 if needs_ctx(lp, nbh) else 0
        rows = rand_rows(rng, 10, ARMS, binary, d)
        more = rand_rows(rng, 6, [2, 3, 9], binary, d)
        more[0][0] = 9
        plans = [[['fit'] + rows, 'Q', ['remove_arm', 1], 'Q', ['add_arm', 9], 'Q', ['partial_fit'] + more, 'Q'],
                 [['fit'] + rows, 'Q', ['remove_arm', 2], ['add_arm', 8], 'Q', ['remove_arm', 1], ['add_arm', 2], 'Q'],
                 [['fit'] + rows, 'Q', ['add_arm', 5], ['remove_arm', 3], 'Q', ['fit'] + rows, 'Q']]
        for plan in plans:
            calls = [c for c in plan if c != 'Q']
            case = {'arms': ARMS, 'lp': lp, 'np': nbh, 'calls': calls, 'queries_after_calls': [], 'seed': 12}
            m = build(case)
            cur = list(ARMS)
            done = 0
            for c in plan:
                if c != 'Q':
                    try:
                        call(m, c)
                    except Exception as e:      # noqa
                        if prop == 'C08' and c[0] in ('add_arm', 'remove_arm'):
                            raise Failure('C08', '%s raised %r' % (c[0], e), dict(case, calls=calls[:done + 1]), repr(e),
                                          'no exception', MODULE_OF.get((nbh or lp)[0]))
                        break       # (a training call that fails, e.g. an arm of the batch was removed: not this check)
                    done += 1
                    if c[0] == 'add_arm':
                        cur.append(c[1])
                    if c[0] == 'remove_arm':
                        cur.remove(c[1])
                    continue
                case['queries_after_calls'].append(done)
                for q in queries_for(lp, nbh):
                    twin = copy.deepcopy(m)
                    e = m.predict_expectations(q)
                    p = twin.predict(q)
                    m.predict(q)
                    es = e if isinstance(e, list) else [e]
                    ps = p if isinstance(p, list) else [p]
                    for ee, pp in zip(es, ps):
                        if prop == 'C08' and (list(ee.keys()) != cur or pp not in cur):
                            raise Failure('C08', 'after %d calls (queries in between) the outputs do not range over the arms %r: '
                                          'predict gives %r, the expectations have keys %r' % (done, cur, pp, list(ee.keys())),
                                          dict(case, calls=calls[:done]), [list(ee.keys()), pp], cur,
                                          MODULE_OF.get((nbh or lp)[0]))
                        vals = list(ee.values())
                        if prop == 'C09' and not any(isinstance(v, float) and math.isnan(v) for v in vals):
                            best = [a for a in ee if ee[a] == max(vals)][0]
                            if pp != best:
                                raise Failure('C09', 'after %d calls (queries in between) predict returns %r, the first arg-max '
                                              'of the expectations from the same stream position is %r' % (done, pp, best),
                                              dict(case, calls=calls[:done]), pp, ee, MODULE_OF.get((nbh or lp)[0]))
            yield case


# =========================================================================================== C04
def check_C04(env):
    rng = env['rng']
    for lp, nbh in all_configs(env):
        for h in history_for(rng, lp, nbh, 0)[:2]:
            case = {'arms': ARMS, 'lp': lp, 'np': nbh, 'calls': h, 'seed': 11}
            a = build(case)
            other = build(dict(case, seed=99))
            b = build(case)
            ra, rb = [], []
            for c in h:
                call(a, c)
                ra += observe(a, lp, nbh)
                call(other, c)                 # another bandit trained and queried in between
                observe(other, lp, nbh)
                call(b, c)
                rb += observe(b, lp, nbh)
            if not same_result(ra, rb, 0):
                raise Failure('C04', 'two bandits built with equal arguments and driven alike return different results',
                              case, ra, rb, MODULE_OF.get((nbh or lp)[0]))
            yield case


    # an arm added after fit: whatever it builds (a tree, a model) is seeded from the bandit, not from numpy's global state
    for lp, nbh in [(TREE_LPS[0], ['TreeBandit', {}]), (TREE_LPS[1], ['TreeBandit', {}])]:
        if not in_focus(env, lp, nbh):
            continue
        # two identical feature columns: every split has a tied candidate, so an unseeded tree picks by global state
        base = rand_rows(rng, 10, ARMS, False, 1)
        dup = lambda rows: [rows[0], rows[1], [[x[0], x[0]] for x in rows[2]]]      # noqa: E731
        more = rand_rows(rng, 8, [4], False, 1)
        more[1] = [float(i % 3) + 0.25 * i for i in range(8)]
        more[2] = [[float(i)] for i in range(8)]
        calls = [['fit'] + dup(base), ['add_arm', 4], ['partial_fit'] + dup(more)]
        case = {'arms': ARMS, 'lp': lp, 'np': nbh, 'calls': calls, 'seed': 11}
        outs = []
        for g in range(6):
            m = build(case)
            np.random.seed(g)                  # other code in the process uses numpy's global generator
            drive(m, calls)
            qs = [[0.5, 3.5], [3.5, 0.5], [6.5, 1.5], [1.5, 6.5], [2.5, 5.5]]
            outs.append([m.predict_expectations(qs), m.predict(qs)])
        for o in outs[1:]:
            if not same_result(o, outs[0], 0):
                raise Failure('C04', 'equally seeded TreeBandit bandits differ when numpy\'s global generator is in a different '
                              'state (an arm added after fit)', case, o, outs[0], 'treebandit')
        yield case


    if env.get('tier') == 'thorough' and in_focus(env, CF_OUT[0]):
        # other interpreter processes with other hash seeds (string labels, tied distances in warm_start)
        import os
        import subprocess
        import sys
        child = (
            "import json, sys\n"
            "from rt.core import build\n"
            "case = json.loads(sys.argv[1])\n"
            "m = build(case)\n"
            "m.fit(case['d'], case['r'])\n"
            "m.warm_start({k: v for k, v in case['feats']}, 1.0)\n"
            "print(json.dumps([[str(k), v['is_warm'], str(v['warm_started_by'])] for k, v in m._imp.arm_to_status.items()]))\n"
            "print(json.dumps({str(k): float(v) for k, v in m.predict_expectations().items()}))\n")
        for lp in (CF_OUT[0], CF_OUT[1]):
            arms = ['news', 'sports', 'cooking', 'travel']
            case = {'arms': arms, 'lp': lp, 'seed': 6, 'd': ['news', 'sports', 'news', 'sports', 'sports'], 'r': [1, 0, 1, 1, 0],
                    # cooking and travel are equally close to news and to sports (which share one feature vector)
                    'feats': [['news', [1.0, 0.0]], ['sports', [1.0, 0.0]], ['cooking', [1.0, 0.5]], ['travel', [0.5, 1.0]]]}
            outs = []
            for hs in ('0', '1', '2', '3', '4'):
                e = dict(os.environ)
                e['PYTHONHASHSEED'] = hs
                e['PYTHONPATH'] = os.pathsep.join(sys.path)
                pr = subprocess.run([sys.executable, '-c', child, json.dumps(case)], env=e, capture_output=True, text=True)
                outs.append(pr.stdout.strip() or pr.stderr[-300:])
            if len(set(outs)) != 1:
                raise Failure('C04', 'equal bandits in interpreter processes with different PYTHONHASHSEED disagree '
                              '(string labels, a cold arm equally close to two trained arms)', case, outs, outs[0], 'base_mab')
            yield case


# =========================================================================================== C05
def check_C05(env):
    rng = env['rng']
    jobs = [(2, None), (3, None), (-1, None), (2, 'threading')]
    if env.get('tier') == 'thorough':
        jobs += [(2, 'loky'), (4, 'threading')]
    for lp, nbh in all_configs(env, cf=False):
        for h in history_for(rng, lp, nbh, 0)[:2]:
            base = {'arms': ARMS, 'lp': lp, 'np': nbh, 'calls': h, 'seed': 5}
            ref = build(base)
            drive(ref, h)
            want = [ref.predict_expectations(GRID_QUERIES), ref.predict(GRID_QUERIES)]
            for nj, be in jobs:
                case = dict(base, n_jobs=nj, backend=be)
                m = build(case)
                drive(m, h)
                got = [m.predict_expectations(GRID_QUERIES), m.predict(GRID_QUERIES)]
                if not same_result(got, want, 1e-12):
                    raise Failure('C05', 'n_jobs=%r backend=%r changes the results of %s/%s' % (nj, be, lp[0], nbh and nbh[0]),
                                  case, got, want, MODULE_OF.get((nbh or lp)[0]))
            yield base
    if env.get('tier') == 'thorough':
        # the ambient joblib configuration must not matter either: training under a process backend (thorough only:
        # starting worker processes is slow)
        import joblib
        for lp, nbh in [(CF_OUT[1], NBH_OTHER[0]), (CF_OUT[0], NBH_EXACT[0])]:
            if not in_focus(env, lp, nbh):
                continue
            h = history_for(rng, lp, nbh, 0)[1]
            base = {'arms': ARMS, 'lp': lp, 'np': nbh, 'calls': h, 'seed': 5}
            ref = build(base)
            drive(ref, h)
            want = ref.predict_expectations(GRID_QUERIES)
            case = dict(base, n_jobs=2, ambient_backend='loky')
            m = build(case)
            with joblib.parallel_config(backend='loky'):
                drive(m, h)
                got = m.predict_expectations(GRID_QUERIES)
            if not same_result(got, want, 1e-12):
                raise Failure('C05', 'training / predicting with n_jobs=2 under joblib.parallel_config(backend="loky") changes '
                              'the results of %s/%s' % (lp[0], nbh[0]), case, got, want, MODULE_OF[nbh[0]])
            yield case


# =========================================================================================== C06
def check_C06(env):
    rng = env['rng']
    for lp, nbh in all_configs(env):
        if (nbh and nbh[0] == 'TreeBandit') or lp[1].get('scale'):
            continue
        binary = is_binary_lp(lp)
        ctx = needs_ctx(lp, nbh)
        rows = rand_rows(rng, 9, ARMS, binary, 2 if ctx else 0)
        full = [['fit'] + rows]
        for cuts in ([4], [1, 2], [3, 8], [8]):
            if nbh and nbh[0] == 'Clusters' and cuts[0] < 3:
                continue            # k-means needs at least n_clusters rows at the first fit (documented precondition)
            bounds = [0] + cuts + [9]
            calls = []
            for i in range(len(bounds) - 1):
                part = [col[bounds[i]:bounds[i + 1]] for col in rows]
                calls.append(['fit' if i == 0 else 'partial_fit'] + part)
            case = {'arms': ARMS, 'lp': lp, 'np': nbh, 'calls': calls, 'seed': 3, 'batch': full}
            a, b = build(case), build(case)
            drive(a, full)
            drive(b, calls)
            # same random-stream position: training draws nothing for the policies compared here
            ra, rb = observe(a, lp, nbh), observe(b, lp, nbh)
            tol = 1e-7 if lp[0].startswith('Lin') else 0
            if not same_result(ra, rb, tol):
                raise Failure('C06', 'fit on a prefix + partial_fit on the rest (cuts %r) differs from one fit: %s/%s'
                              % (cuts, lp[0], nbh and nbh[0]), case, rb, ra, MODULE_OF.get((nbh or lp)[0]))
            yield case
    # a prefix whose rewards are all zero and an arm that is never played, then a chunk with positive rewards
    for lp in (['Popularity', {}], ['EpsilonGreedy', {'epsilon': 0.0}], ['Softmax', {'tau': 0.7}]):
        if not in_focus(env, lp):
            continue
        rows = [[1, 2, 1, 2, 1, 2, 2], [0, 0, 0, 0, 3, 1, 2]]
        full = [['fit'] + rows]
        calls = [['fit', rows[0][:4], rows[1][:4]], ['partial_fit', rows[0][4:], rows[1][4:]]]
        case = {'arms': ARMS, 'lp': lp, 'calls': calls, 'seed': 3, 'batch': full}
        a, b = build(case), build(case)
        drive(a, full)
        drive(b, calls)
        sa, sb = dict(a._imp.arm_to_expectation), dict(b._imp.arm_to_expectation)
        if not same_result(sa, sb, 1e-12):
            raise Failure('C06', '%s: fit on an all-zero prefix (arm 3 never played) + partial_fit differs from one fit'
                          % lp[0], case, sb, sa, MODULE_OF[lp[0]])
        yield case


# =========================================================================================== C07
def check_C07(env):
    rng = env['rng']
    for lp, nbh in all_configs(env):
        binary = is_binary_lp(lp)
        ctx = needs_ctx(lp, nbh)
        d = 2 if ctx else 0
        old = [['fit'] + rand_rows(rng, 10, ARMS, binary, d), ['partial_fit'] + rand_rows(rng, 4, ARMS, binary, d)]
        new_rows = rand_rows(rng, 5, ARMS[:2], binary, d)        # fewer rows, one arm absent
        new = [['fit'] + new_rows]
        case = {'arms': ARMS, 'lp': lp, 'np': nbh, 'calls': old + new, 'seed': 3, 'fresh': new}
        a, b = build(case), build(case)
        drive(a, old)
        # fit may draw from the bandit's generator (LSH hyperplanes): compare from equal stream positions
        a._rng.rng.bit_generator.state = b._rng.rng.bit_generator.state
        drive(a, new)
        drive(b, new)
        sa, sb = learned_state(a), learned_state(b)
        if sa != sb:
            raise Failure('C07', 'learned state after fit depends on what was learned before: %s/%s' % (lp[0], nbh and nbh[0]),
                          case, repr(sa)[:600], repr(sb)[:600], MODULE_OF.get((nbh or lp)[0]))
        yield case


# =========================================================================================== C08
def check_C08(env):
    rng = env['rng']
    for lp, nbh in all_configs(env):
        binary = is_binary_lp(lp)
        ctx = needs_ctx(lp, nbh)
        d = 2 if ctx else 0
        arms = list(ARMS)
        calls = [['fit'] + rand_rows(rng, 8, arms, binary, d), ['add_arm', 7], ['remove_arm', 2],
                 ['partial_fit'] + rand_rows(rng, 5, [1, 3, 7], binary, d), ['add_arm', 2]]
        case = {'arms': ARMS, 'lp': lp, 'np': nbh, 'calls': calls}
        m = build(case)
        cur = list(ARMS)
        for c in calls:
            try:
                call(m, c)
            except Exception as e:      # noqa
                raise Failure('C08', '%s raised %r' % (c[0], e), case, repr(e), 'no exception',
                              MODULE_OF.get((nbh or lp)[0]))
            if c[0] == 'add_arm':
                cur.append(c[1])
            if c[0] == 'remove_arm':
                cur.remove(c[1])
            for q in queries_for(lp, nbh):
                e = m.predict_expectations(q)
                p = m.predict(q)
                n = 1 if q is None else len(q)
                es = [e] if n == 1 else e
                ps = [p] if n == 1 else p
                if (n > 1) != isinstance(e, list) or (n > 1) != isinstance(p, list) or len(es) != n or len(ps) != n:
                    raise Failure('C08', 'shape of the results for %d rows' % n, case, [e, p], 'one result per row',
                                  MODULE_OF.get((nbh or lp)[0]))
                for ee, pp in zip(es, ps):
                    if list(ee.keys()) != cur or pp not in cur:
                        raise Failure('C08', 'after %s the outputs do not range over the arms %r' % (c[0], cur), case,
                                      [list(ee.keys()), pp], cur, MODULE_OF.get((nbh or lp)[0]))
        yield case


    for case in _arm_changes_between_queries('C08', env):
        yield case
    # one result per query row whatever the number of jobs (3 and 5 rows over 2 jobs, 7 over 3)
    for lp, nbh in [(CF_OUT[0], NBH_EXACT[0]), (CF_OUT[1], NBH_EXACT[3]), (CF_OUT[0], NBH_OTHER[0]), (CF_OUT[0], NBH_OTHER[1]),
                    (TREE_LPS[0], NBH_OTHER[3])]:
        if not in_focus(env, lp, nbh):
            continue
        rows = rand_rows(rng, 10, ARMS, False, 2)
        for nj, m_rows in ((2, 3), (2, 5), (3, 7)):
            case = {'arms': ARMS, 'lp': lp, 'np': nbh, 'calls': [['fit'] + rows], 'n_jobs': nj, 'backend': 'threading'}
            m = build(case)
            drive(m, case['calls'])
            qs = [[int(rng.integers(-3, 4)), int(rng.integers(-3, 4))] for _ in range(m_rows)]
            e, p_ = m.predict_expectations(qs), m.predict(qs)
            if not (isinstance(e, list) and isinstance(p_, list) and len(e) == m_rows and len(p_) == m_rows):
                raise Failure('C08', '%d query rows with n_jobs=%d: %s results' % (m_rows, nj, len(e) if isinstance(e, list) else 1),
                              dict(case, queries=qs), [len(e) if isinstance(e, list) else 1], m_rows, 'base_mab')
        yield case
    # two bandits built from one list object: an arm change of one must not reach the other
    from mabwiser.mab import MAB
    for lp in CF_ALL[:2] + LIN_DET[:1]:
        if not in_focus(env, lp):
            continue
        shared = list(ARMS)
        ctx = lp[0].startswith('Lin')
        rows = rand_rows(rng, 8, ARMS, False, 2 if ctx else 0)
        a = MAB(shared, core.make_lp(lp), seed=3)
        b = MAB(shared, core.make_lp(lp), seed=3)
        case = {'arms': ARMS, 'lp': lp, 'calls': [['fit'] + rows], 'note': 'two bandits constructed from the same list object; '
                'add_arm(7) on the first only'}
        call(a, ['fit'] + rows)
        call(b, ['fit'] + rows)
        a.add_arm(7)
        shared.append(99)
        q = [GRID_QUERIES[0]] if ctx else None
        try:
            e = b.predict_expectations(q)
            p_ = b.predict(q)
        except Exception as ex:      # noqa
            raise Failure('C08', 'a bandit raised %r after an arm was added to ANOTHER bandit built from the same list' % ex,
                          case, repr(ex), None, 'mab')
        if list(e.keys()) != ARMS or list(b.arms) != ARMS or p_ not in ARMS:
            raise Failure('C08', 'outputs of a bandit changed after an arm was added to another bandit / to the caller\'s list',
                          case, [list(e.keys()), list(b.arms)], ARMS, 'mab')
        yield case


# =========================================================================================== C09
def check_C09(env):
    rng = env['rng']
    for lp, nbh in all_configs(env):
        hs = history_for(rng, lp, nbh, 0)[:2]
        if not is_binary_lp(lp) and lp[0] != 'Popularity' and not lp[1].get('binarizer'):
            d = 2 if needs_ctx(lp, nbh) else 0
            # all rewards negative and one arm never observed (its neutral 0 is then the maximum); tiny reward scale
            neg = rand_rows(rng, 9, ARMS[:2], False, d)
            neg[1] = [-1 - r for r in neg[1]]
            tiny = rand_rows(rng, 9, ARMS, False, d)
            tiny[1] = [r * 1e-12 for r in tiny[1]]
            hs = hs + [[['fit'] + neg], [['fit'] + tiny]]
        for h in hs:
            case = {'arms': ARMS, 'lp': lp, 'np': nbh, 'calls': h}
            m = build(case)
            drive(m, h)
            for q in queries_for(lp, nbh):
                twin = copy.deepcopy(m)
                e = m.predict_expectations(q)
                p = twin.predict(q)
                es = e if isinstance(e, list) else [e]
                ps = p if isinstance(p, list) else [p]
                for ee, pp in zip(es, ps):
                    vals = list(ee.values())
                    if any(isinstance(v, float) and math.isnan(v) for v in vals):
                        continue            # empty neighbourhood (excluded by the statement)
                    best = [a for a in ee if ee[a] == max(vals)][0]
                    if pp != best:
                        raise Failure('C09', 'predict returns %r, the first arg-max of the expectations from the same '
                                      'stream position is %r' % (pp, best), case, pp, ee, MODULE_OF.get((nbh or lp)[0]))
            yield case
    for case in _arm_changes_between_queries('C09', env):
        yield case


# =========================================================================================== C10
def check_C10(env):
    rng = env['rng']
    for lp, nbh in all_configs(env):
        for h in history_for(rng, lp, nbh, 0)[:1]:
            case = {'arms': ARMS, 'lp': lp, 'np': nbh, 'calls': h}
            m = build(case)
            drive(m, h)
            before = learned_state(m)
            skip_exp = lp[0] == 'ThompsonSampling'
            for q in queries_for(lp, nbh):
                m.predict(q)
                m.predict_expectations(q)
            after = learned_state(m)
            if before != after and not skip_exp:
                raise Failure('C10', 'predict / predict_expectations changed the learned state of %s/%s' % (lp[0], nbh and nbh[0]),
                              case, repr(after)[:600], repr(before)[:600], MODULE_OF.get((nbh or lp)[0]))
            # whatever was touched, a queried bandit and its unqueried twin agree under every continuation when started
            # from equal stream positions
            if lp[0] == 'LinTS':
                yield case          # every arm model advances a private stream while predicting (allowed: random streams)
                continue
            binary = is_binary_lp(lp)
            d = 2 if needs_ctx(lp, nbh) else 0
            conts = [[], [['partial_fit'] + rand_rows(rng, 3, ARMS, binary, d)],
                     [['add_arm', 8], ['partial_fit'] + rand_rows(rng, 4, [8, 1], binary, d)],
                     [['remove_arm', 2], ['add_arm', 2]],
                     [['fit'] + rand_rows(rng, 5, ARMS[:2], binary, d)]]
            for cont in conts:
                a, b = build(case), build(case)
                drive(a, h)
                drive(b, h)
                for q in queries_for(lp, nbh):
                    a.predict(q)
                    a.predict_expectations(q)
                b._rng.rng.bit_generator.state = a._rng.rng.bit_generator.state
                try:
                    drive(a, cont)
                    drive(b, cont)
                except Exception as e:      # noqa
                    raise Failure('C10', 'continuation %r raised %r' % ([c[0] for c in cont], e), dict(case, continuation=cont),
                                  repr(e), None, MODULE_OF.get((nbh or lp)[0]))
                ra, rb = observe(a, lp, nbh), observe(b, lp, nbh)
                if not same_result(ra, rb, 0):
                    raise Failure('C10', 'a bandit that answered queries behaves differently under the continuation %r'
                                  % ([c[0] for c in cont],), dict(case, continuation=cont), ra, rb,
                                  MODULE_OF.get((nbh or lp)[0]))
            yield case


# =========================================================================================== C14
def check_C14(env):
    rng = env['rng']
    for nbh in [None] + NBH_EXACT[:1] + NBH_EXACT[3:4] + NBH_OTHER:
        lp = ['ThompsonSampling', {'binarizer': 'binz_arm'}]
        plain = ['ThompsonSampling', {}]
        if not in_focus(env, lp, nbh):
            continue
        d = 2 if nbh else 0
        rows1 = rand_rows(rng, 9, ARMS, False, d)
        rows2 = rand_rows(rng, 4, ARMS, False, d)
        conv = lambda rows: [rows[0], [core.binz_arm(a, r) for a, r in zip(rows[0], rows[1])]] + rows[2:]   # noqa: E731
        rows3 = rand_rows(rng, 5, ARMS, True, d)         # raw rewards that happen to be 0 / 1 (converted all the same)
        calls = [['fit'] + rows1, ['partial_fit'] + rows2, ['partial_fit'] + rows3]
        calls_b = [['fit'] + conv(rows1), ['partial_fit'] + conv(rows2), ['partial_fit'] + conv(rows3)]
        case = {'arms': ARMS, 'lp': lp, 'np': nbh, 'calls': calls, 'seed': 9}
        a, b = build(case), build(dict(case, lp=plain))
        for ca, cb in zip(calls, calls_b):
            call(a, ca)
            call(b, cb)
            ra, rb = observe(a, lp, nbh), observe(b, plain, nbh)
            if not same_result(ra, rb, 0):
                raise Failure('C14', 'a bandit with a binarizer differs from a binarizer-free bandit fed the converted rewards '
                              '(%s)' % (nbh and nbh[0]), case, ra, rb, MODULE_OF.get((nbh or lp)[0]))
        # add_arm with a (same) binarizer is an accepted call for every neighbourhood policy
        try:
            a.add_arm(9, core.binz_arm)
            b.add_arm(9)
        except Exception as e:      # noqa
            raise Failure('C14', 'add_arm(arm, binarizer) raised %r (%s)' % (e, nbh and nbh[0]),
                          dict(case, calls=calls + [['add_arm', 9, 'binz_arm']]), repr(e), 'accepted',
                          MODULE_OF.get((nbh or lp)[0]))
        rows3 = rand_rows(rng, 4, ARMS + [9], False, d)
        call(a, ['partial_fit'] + rows3)
        call(b, ['partial_fit'] + conv(rows3))
        ra, rb = observe(a, lp, nbh), observe(b, plain, nbh)
        if not same_result(ra, rb, 0):
            raise Failure('C14', 'after add_arm with a binarizer the bandit differs from a binarizer-free bandit fed the '
                          'converted rewards (%s)' % (nbh and nbh[0]), dict(case, calls=calls + [['add_arm', 9, 'binz_arm'],
                                                                                                 ['partial_fit'] + rows3]),
                          ra, rb, MODULE_OF.get((nbh or lp)[0]))
        yield case
        # a bandit built without a binarizer gets its first one from add_arm: observations stored before stay as they
        # are, later ones are converted exactly once (the binarizer is not the identity on 0 / 1)
        flip = lambda rows: [rows[0], [core.binz_flip(a_, r_) for a_, r_ in zip(rows[0], rows[1])]] + rows[2:]   # noqa: E731
        rows1 = rand_rows(rng, 10, ARMS, True, d)
        later = [rand_rows(rng, 5, ARMS + [9], True, d), rand_rows(rng, 4, ARMS + [9], True, d)]
        case2 = {'arms': ARMS, 'lp': plain, 'np': nbh, 'seed': 9,
                 'calls': [['fit'] + rows1, ['add_arm', 9, 'binz_flip']] + [['partial_fit'] + r for r in later]}
        a, b = build(case2), build(case2)
        call(a, ['fit'] + rows1)
        call(b, ['fit'] + rows1)
        call(a, ['add_arm', 9, 'binz_flip'])
        call(b, ['add_arm', 9])
        for r in later:
            call(a, ['partial_fit'] + r)
            call(b, ['partial_fit'] + flip(r))
            ra, rb = observe(a, plain, nbh), observe(b, plain, nbh)
            if not same_result(ra, rb, 0):
                raise Failure('C14', 'a binarizer installed by add_arm on a bandit built without one: the bandit differs from a '
                              'binarizer-free bandit fed the converted rewards (%s)' % (nbh and nbh[0]), case2, ra, rb,
                              MODULE_OF.get((nbh or lp)[0]))
        yield case2


# =========================================================================================== C17
def check_C17(env):
    rng = env['rng']
    for lp, nbh in all_configs(env):
        binary = is_binary_lp(lp)
        ctx = needs_ctx(lp, nbh)
        d = 2 if ctx else 0
        h = [['fit'] + rand_rows(rng, 8, ARMS, binary, d)]
        bad = [['partial_fit', [1, 2], [1]] + ([[[0, 0], [1, 1]]] if ctx else []),       # length mismatch
               ['partial_fit', [1, 99], [1, 0]] + ([[[0, 0], [1, 1]]] if ctx else []),  # unknown arm
               ['add_arm', 1], ['remove_arm', 42]]
        if ctx:
            bad.append(['partial_fit', [1, 2], [1, 0], [[0, 0, 0], [1, 1, 1]]])           # wrong number of features
            bad.append(['predict_expectations', [[0, 0, 0]]])
        if ctx:
            # a history in which arm 1 has not been observed yet, then a batch of the wrong width that starts with arm 1
            h2 = [['fit'] + rand_rows(rng, 7, ARMS[1:], binary, d)]
            m2 = build({'arms': ARMS, 'lp': lp, 'np': nbh})
            drive(m2, h2)
            c2 = ['partial_fit', [1, 1, 2, 3], [1, 0, 1, 0], [[0, 0, 0], [1, 1, 1], [1, 0, 1], [0, 1, 0]]]
            before = learned_state(m2)
            try:
                call(m2, c2)
            except Exception:       # noqa
                if learned_state(m2) != before:
                    raise Failure('C17', 'rejected partial_fit (wrong number of features, first rows for a not yet observed '
                                  'arm) changed the bandit (%s/%s)' % (lp[0], nbh and nbh[0]),
                                  {'arms': ARMS, 'lp': lp, 'np': nbh, 'calls': h2, 'rejected': [c2]}, None, None,
                                  MODULE_OF.get((nbh or lp)[0]))
        if nbh and nbh[0] == 'Clusters':
            victim, twin = build({'arms': ARMS, 'lp': lp, 'np': nbh, 'seed': 2}), build({'arms': ARMS, 'lp': lp, 'np': nbh, 'seed': 2})
            one = rand_rows(rng, 1, ARMS, binary, d)
            good = rand_rows(rng, 7, ARMS, binary, d)
            rejected = False
            try:
                call(victim, ['partial_fit'] + one)
            except Exception:       # noqa
                rejected = True
            if rejected:
                call(victim, ['partial_fit'] + good)
                call(twin, ['partial_fit'] + good)
                if learned_state(victim) != learned_state(twin):
                    raise Failure('C17', 'a first training batch rejected from inside training (fewer rows than clusters) '
                                  'left the bandit different from one that never saw it (%s/%s)' % (lp[0], nbh[0]),
                                  {'arms': ARMS, 'lp': lp, 'np': nbh, 'seed': 2, 'calls': [['partial_fit'] + good],
                                   'rejected': [['partial_fit'] + one]}, None, None, 'mab')
        case = {'arms': ARMS, 'lp': lp, 'np': nbh, 'calls': h, 'rejected': bad}
        m = build(case)
        drive(m, h)
        for c in bad:
            before = learned_state(m)
            arms_before = list(m.arms)
            try:
                call(m, c)
            except Exception:       # noqa
                after = learned_state(m)
                if before != after or list(m.arms) != arms_before:
                    raise Failure('C17', 'rejected call %r changed the bandit (%s/%s)' % (c[:2], lp[0], nbh and nbh[0]),
                                  dict(case, rejected=[c]), repr(after)[:500], repr(before)[:500],
                                  MODULE_OF.get((nbh or lp)[0]))
        yield case


# =========================================================================================== C18
def check_C18(env):
    rng = env['rng']
    for lp, nbh in all_configs(env):
        binary = is_binary_lp(lp)
        ctx = needs_ctx(lp, nbh)
        d = 2 if ctx else 0
        h = [['fit'] + rand_rows(rng, 9, ARMS, binary, d), ['partial_fit'] + rand_rows(rng, 3, ARMS, binary, d)]
        if ctx:
            # whole numbers at fit, fractional values afterwards: an integer dtype picked up at fit must not stick
            h[1][3] = [[v + 0.5 for v in row] for row in h[1][3]]
        case = {'arms': ARMS, 'lp': lp, 'np': nbh, 'calls': h, 'seed': 4}
        want = None
        for kind in ('list', 'ndarray', 'ndarray_c', 'ndarray_f', 'series'):
            m = build(case)
            for c in h:
                dd = core.as_container(c[1], kind)
                rr = core.as_container(c[2], kind)
                xx = core.as_container(c[3], kind, True) if len(c) > 3 else None
                snap = [copy.deepcopy(dd), copy.deepcopy(rr), copy.deepcopy(xx)]
                getattr(m, c[0])(dd, rr, xx)
                for o, s in zip((dd, rr, xx), snap):
                    same = (o is None and s is None) or (np.array_equal(np.asarray(o), np.asarray(s)) and
                                                         np.asarray(o).tobytes() == np.asarray(s).tobytes())
                    if not same:
                        raise Failure('C18', '%s modified its %s argument' % (c[0], kind), dict(case, container=kind),
                                      repr(o)[:300], repr(s)[:300], MODULE_OF.get((nbh or lp)[0]))
            got = observe(m, lp, nbh)
            if want is None:
                want = got
            elif not same_result(got, want, 1e-9):
                raise Failure('C18', 'results depend on the container kind (%s vs list)' % kind, dict(case, container=kind),
                              got, want, MODULE_OF.get((nbh or lp)[0]))
        # the arm list and the policy tuples are the caller's
        arms = list(ARMS)
        lpo, npo = core.make_lp(lp), core.make_np(nbh)
        snap = (list(arms), copy.deepcopy(lpo), copy.deepcopy(npo))
        from mabwiser.mab import MAB
        m = MAB(arms, lpo, npo, seed=4)
        drive(m, h)
        m.add_arm(9)
        observe(m, lp, nbh)
        if arms != snap[0] or repr(lpo) != repr(snap[1]) or repr(npo) != repr(snap[2]):
            raise Failure('C18', 'the caller\'s arm list or policy tuple was modified', case, [arms, repr(lpo), repr(npo)],
                          [snap[0], repr(snap[1]), repr(snap[2])], MODULE_OF.get((nbh or lp)[0]))
        yield case
    # the arm-feature dictionary handed to warm_start is the caller's: same keys, the very same value objects, unchanged
    for lp in CF_STATE[:5] + LIN_DET[:2]:
        if not in_focus(env, lp):
            continue
        ctx = lp[0].startswith('Lin')
        rows = rand_rows(rng, 8, [1, 2], is_binary_lp(lp), 2 if ctx else 0)
        for mk in (lambda v: list(v), lambda v: tuple(v), lambda v: np.array(v, dtype=int)):
            feats = {1: mk([1, 0, 2]), 2: mk([0, 1, 0]), 3: mk([1, 0, 1])}
            held = dict(feats)
            snap = [(k, type(v).__name__, repr(v), getattr(v, 'dtype', None)) for k, v in feats.items()]
            m = build({'arms': ARMS, 'lp': lp, 'seed': 4})
            m.fit(*rows)
            m.warm_start(feats, 0.9)
            now = [(k, type(v).__name__, repr(v), getattr(v, 'dtype', None)) for k, v in feats.items()]
            if now != snap or any(feats[k] is not held[k] for k in held):
                raise Failure('C18', 'warm_start modified the caller\'s arm-feature dictionary (%s)' % lp[0],
                              {'arms': ARMS, 'lp': lp, 'seed': 4,
                               'calls': [['fit'] + rows, ['warm_start', [[k, [int(x) for x in v]] for k, v in held.items()], 0.9]]},
                              [list(map(str, t)) for t in now], [list(map(str, t)) for t in snap], 'base_mab')
        yield {}
    # a parameter dictionary handed to a policy tuple is the caller's
    lp, nbh = TREE_LPS[0], ['TreeBandit', {'tree_parameters': {'max_depth': 3}}]
    if in_focus(env, lp, nbh):
        from mabwiser.mab import MAB
        params = {'max_depth': 3}
        npo = core.make_np(['TreeBandit', {'tree_parameters': params}])
        m = MAB(list(ARMS), core.make_lp(lp), npo, seed=4)
        if params != {'max_depth': 3}:
            raise Failure('C18', 'the tree_parameters dictionary of the caller was modified by the constructor',
                          {'arms': ARMS, 'lp': lp, 'np': nbh, 'calls': []}, params, {'max_depth': 3}, 'treebandit')
        yield {}


# =========================================================================================== C19
def check_C19(env):
    rng = env['rng']
    for lp, nbh in all_configs(env):
        if lp[1].get('binarizer') == 'binz_arm':
            continue
        binary = is_binary_lp(lp)
        ctx = needs_ctx(lp, nbh)
        d = 2 if ctx else 0
        h = [['fit'] + rand_rows(rng, 8, ARMS, binary, d)]
        cont = [['partial_fit'] + rand_rows(rng, 3, ARMS, binary, d), ['add_arm', 6]]
        case = {'arms': ARMS, 'lp': lp, 'np': nbh, 'calls': h, 'continuation': cont}
        for stage in (0, 1):
            m = build(case)
            if stage:
                drive(m, h)
            clones = [copy.deepcopy(m)] + [pickle.loads(pickle.dumps(m, protocol=p)) for p in (2, 5)]
            if stage:
                want = observe(m, lp, nbh)
            for c in cont if stage else h:
                call(m, c)
            want2 = observe(m, lp, nbh)
            for cl in clones:
                if stage:
                    got = observe(cl, lp, nbh)
                    if not same_result(got, want, 0):
                        raise Failure('C19', 'a copy / pickle of %s/%s answers differently' % (lp[0], nbh and nbh[0]), case,
                                      got, want, MODULE_OF.get((nbh or lp)[0]))
                for c in cont if stage else h:
                    call(cl, c)
                got2 = observe(cl, lp, nbh)
                if not same_result(got2, want2, 0):
                    raise Failure('C19', 'a copy / pickle of %s/%s diverges under the same continuation' % (lp[0], nbh and nbh[0]),
                                  case, got2, want2, MODULE_OF.get((nbh or lp)[0]))
        # after arm changes (the bandit `m` of the last stage has been trained on, and arm 6 added; one more removed here)
        case3 = dict(case, calls=h + cont + [['remove_arm', 2]])
        m.remove_arm(2)
        try:
            clones = [copy.deepcopy(m)] + [pickle.loads(pickle.dumps(m, protocol=p)) for p in (2, 5)]
        except Exception as e:      # noqa
            raise Failure('C19', 'after add_arm / remove_arm %s/%s cannot be copied or pickled: %r' % (lp[0], nbh and nbh[0], e),
                          case3, repr(e), 'a restored copy', MODULE_OF.get((nbh or lp)[0]))
        more = [['partial_fit'] + rand_rows(rng, 4, [1, 3, 6], binary, d)]
        want3 = observe(m, lp, nbh)
        call(m, more[0])
        want4 = observe(m, lp, nbh)
        for cl in clones:
            got3 = observe(cl, lp, nbh)
            call(cl, more[0])
            got4 = observe(cl, lp, nbh)
            if not same_result(got3, want3, 0) or not same_result(got4, want4, 0):
                raise Failure('C19', 'after add_arm / remove_arm a copy / pickle of %s/%s answers differently'
                              % (lp[0], nbh and nbh[0]), dict(case3, continuation=more), [got3, got4], [want3, want4],
                              MODULE_OF.get((nbh or lp)[0]))
        yield case


# =========================================================================================== C20
def check_C20(env):
    rng = env['rng']
    relabel = {1: 'x', 2: 'y', 3: 'z', 4: 'w', 6: 'v', 7: 'u'}
    for lp, nbh in all_configs(env):
        if lp[1].get('binarizer'):
            continue
        binary = is_binary_lp(lp)
        ctx = needs_ctx(lp, nbh)
        d = 2 if ctx else 0
        rows = rand_rows(rng, 9, ARMS, binary, d)
        h = [['fit'] + rows]
        case = {'arms': ARMS, 'lp': lp, 'np': nbh, 'calls': h, 'seed': 8}
        a = build(case)
        drive(a, h)
        ra = observe(a, lp, nbh)
        # relabelling (order kept)
        rows_b = [[relabel[x] for x in rows[0]]] + rows[1:]
        case_b = dict(case, arms=[relabel[x] for x in ARMS], calls=[['fit'] + rows_b])
        b = build(case_b)
        drive(b, case_b['calls'])
        rb = observe(b, lp, nbh)

        def ren(v):
            if isinstance(v, dict):
                return {relabel[k]: x for k, x in v.items()}
            if isinstance(v, list):
                return [ren(x) for x in v]
            return relabel.get(v, v)
        if not same_result(ren(ra), rb, 0):
            raise Failure('C20', 'renaming the arms changes more than the names (%s/%s)' % (lp[0], nbh and nbh[0]), case_b,
                          rb, ren(ra), MODULE_OF.get((nbh or lp)[0]))
        # row order (not for KNearest / Clusters / TreeBandit, as the statement says)
        if nbh is None or nbh[0] in ('Radius', 'LSHNearest'):
            perm = [int(i) for i in rng.permutation(9)]
            rows_p = [[col[i] for i in perm] for col in rows]
            case_p = dict(case, calls=[['fit'] + rows_p])
            p = build(case_p)
            drive(p, case_p['calls'])
            qs = queries_for(lp, nbh)
            if lp[0] in ('EpsilonGreedy', 'UCB1', 'LinGreedy', 'LinUCB') and lp[1].get('epsilon', 0) == 0:
                for q in qs:
                    ea, ep = a.predict_expectations(q), p.predict_expectations(q)
                    if not same_result(ea, ep, 1e-7):
                        raise Failure('C20', 'row order changes the expectations (%s/%s)' % (lp[0], nbh and nbh[0]), case_p,
                                      ep, ea, MODULE_OF.get((nbh or lp)[0]))
        yield case
    # a label wider than every label seen at fit arrives by partial_fit (string widths, float vs int)
    for nbh in (NBH_EXACT[0], NBH_EXACT[3], NBH_OTHER[0]):
        lp = CF_OUT[0]
        if not in_focus(env, lp, nbh):
            continue
        rows1 = rand_rows(rng, 8, [1, 2], False, 2)
        rows2 = rand_rows(rng, 6, [1, 2, 3], False, 2)
        rows2[0][0] = 3
        for names in ({1: 'A', 2: 'B', 3: 'long_arm'}, {1: 1, 2: 2, 3: 2.5}):
            ren = lambda rows: [[names[x] for x in rows[0]]] + rows[1:]        # noqa: E731
            a = build({'arms': ARMS, 'lp': lp, 'np': nbh, 'seed': 8})
            b = build({'arms': [names[x] for x in ARMS], 'lp': lp, 'np': nbh, 'seed': 8})
            drive(a, [['fit'] + rows1, ['partial_fit'] + rows2])
            drive(b, [['fit'] + ren(rows1), ['partial_fit'] + ren(rows2)])
            for q in GRID_QUERIES[:3]:
                ea, eb = a.predict_expectations([q]), b.predict_expectations([q])
                if not same_result({names[k]: v for k, v in ea.items()}, eb, 1e-9):
                    raise Failure('C20', 'labels %r instead of 1, 2, 3 change the expectations after partial_fit (%s)'
                                  % (list(names.values()), nbh[0]),
                                  {'arms': [names[x] for x in ARMS], 'lp': lp, 'np': nbh, 'seed': 8,
                                   'calls': [['fit'] + ren(rows1), ['partial_fit'] + ren(rows2)]}, eb, ea, 'neighbors')
        yield {}
    # warm start must not depend on what the labels are (0, 0.0 and '' are labels like any other)
    for lp in CF_OUT + LIN_DET[:1]:
        if not in_focus(env, lp):
            continue
        ctx = lp[0].startswith('Lin')
        rows = rand_rows(rng, 8, [1, 2], False, 2 if ctx else 0)
        feats = {1: [1.0, 0.1], 2: [0.0, 1.0], 3: [1.0, 0.2]}
        for names in ({1: 0, 2: 1, 3: 2}, {1: '', 2: 'b', 3: 'c'}):
            a = build({'arms': ARMS, 'lp': lp, 'seed': 8})
            b = build({'arms': [names[x] for x in ARMS], 'lp': lp, 'seed': 8})
            a.fit(*rows)
            b.fit([names[x] for x in rows[0]], *rows[1:])
            a.warm_start(feats, 1.0)
            b.warm_start({names[k]: v for k, v in feats.items()}, 1.0)
            sa = {names[k]: v for k, v in a._imp.arm_to_status.items()}
            sb = dict(b._imp.arm_to_status)
            if any(sa[k]['is_warm'] != sb[k]['is_warm'] for k in sb):
                raise Failure('C20', 'warm_start with labels %r warms other arms than with labels 1, 2, 3' % (list(names.values()),),
                              {'arms': [names[x] for x in ARMS], 'lp': lp, 'seed': 8,
                               'calls': [['fit', [names[x] for x in rows[0]]] + rows[1:],
                                         ['warm_start', [[names[k], v] for k, v in feats.items()], 1.0]]},
                              {str(k): v['is_warm'] for k, v in sb.items()}, {str(k): v['is_warm'] for k, v in sa.items()},
                              'base_mab')
            # ... nor what cold_arms lists, nor what a second warm start with other features does
            feats2 = {1: [0.0, 1.0], 2: [1.0, 0.1], 3: [1.0, 0.2]}
            calls_b = [['fit', [names[x] for x in rows[0]]] + rows[1:],
                       ['warm_start', [[names[k], v] for k, v in feats.items()], 1.0]]
            ca, cb = [names[x] for x in a.cold_arms], list(b.cold_arms)
            if ca != cb:
                raise Failure('C20', 'cold_arms after warm_start is %r with labels %r but (renamed) %r with labels 1, 2, 3'
                              % (cb, list(names.values()), ca),
                              {'arms': [names[x] for x in ARMS], 'lp': lp, 'seed': 8, 'calls': calls_b}, cb, ca, 'base_mab')
            a.warm_start(feats2, 1.0)
            b.warm_start({names[k]: v for k, v in feats2.items()}, 1.0)
            ea = {names[k]: v for k, v in (a.predict_expectations([[1.0, 0.5]] if ctx else None)).items()}
            eb = b.predict_expectations([[1.0, 0.5]] if ctx else None)
            if not same_result(ea, eb, 1e-9):
                raise Failure('C20', 'labels %r instead of 1, 2, 3 change the expectations after a second warm_start (%s)'
                              % (list(names.values()), lp[0]),
                              {'arms': [names[x] for x in ARMS], 'lp': lp, 'seed': 8,
                               'calls': calls_b + [['warm_start', [[names[k], v] for k, v in feats2.items()], 1.0]]},
                              eb, ea, 'base_mab')
        yield {}
    # reward shift / scale laws (every arm observed)
    rows = [[1, 2, 3, 1, 2, 3, 1], [4, 9, 1, 6, 3, 8, 2]]
    for lp in CF_DET:
        if not in_focus(env, lp):
            continue
        a = build({'arms': ARMS, 'lp': lp})
        b = build({'arms': ARMS, 'lp': lp})
        a.fit(rows[0], rows[1])
        b.fit(rows[0], [r + 2.5 for r in rows[1]])
        ea, eb = dict(a._imp.arm_to_expectation), dict(b._imp.arm_to_expectation)
        shift = 0 if lp[0] == 'Softmax' else 2.5
        for k in ARMS:
            if not close(eb[k], ea[k] + shift, 1e-9):
                raise Failure('C20', 'adding a constant to all rewards: %s arm %r moves from %r to %r' % (lp[0], k, ea[k], eb[k]),
                              {'arms': ARMS, 'lp': lp, 'calls': [['fit'] + rows]}, eb, ea, MODULE_OF[lp[0]])
    lp = LIN_DET[0]
    if in_focus(env, lp):
        X = [[1, 0], [0, 1], [1, 1], [2, 1], [1, 2], [0, 2], [2, 2]]
        a = build({'arms': ARMS, 'lp': lp})
        b = build({'arms': ARMS, 'lp': lp})
        a.fit(rows[0], rows[1], X)
        b.fit(rows[0], [3 * r for r in rows[1]], X)
        ea, eb = a.predict_expectations([[1, 2]]), b.predict_expectations([[1, 2]])
        for k in ARMS:
            if not close(eb[k], 3 * ea[k], 1e-9):
                raise Failure('C20', 'scaling all rewards by 3: LinGreedy arm %r moves from %r to %r' % (k, ea[k], eb[k]),
                              {'arms': ARMS, 'lp': lp, 'calls': [['fit'] + rows + [X]]}, eb, ea, 'linear')
    yield {}


# =========================================================================================== C11
def check_C11(env):
    rng = env['rng']
    for lp in CF_DET[:2] + LIN_DET[:1]:
        for nd, nt in ((3, 2), (1, 1), (4, 3)):
            nbh = ['LSHNearest', {'n_dimensions': nd, 'n_tables': nt}]
            if not in_focus(env, lp, nbh):
                continue
            for h in ctx_histories_rich(rng, False):
                for nj in (1, 2):
                    case = {'arms': ARMS, 'lp': lp, 'np': nbh, 'calls': h, 'n_jobs': nj}
                    m = build(case)
                    ref = oracle.RefBandit(ARMS, lp, nbh)
                    for k, c in enumerate(h):
                        call(m, c)
                        ref.apply(c)
                        planes = [np.asarray(m._imp.table_to_plane[t], dtype=float) for t in range(nt)]
                        X = np.asarray(ref.rows.x, dtype=float)
                        stored = [tuple(map(tuple, (X @ P > 0))) for P in planes]
                        qs = GRID_QUERIES[:3] + [ref.rows.x[0], [2 * v for v in ref.rows.x[-1]]]
                        for q in qs:
                            qa = np.asarray(q, dtype=float)
                            idx = sorted({i for t, P in enumerate(planes) for i in range(len(X))
                                          if stored[t][i] == tuple(qa @ P > 0)})
                            got = m.predict_expectations([q])
                            if not idx:
                                ok = all(isinstance(v, float) and math.isnan(v) for v in got.values())
                                exp = 'NaN for every arm'
                            else:
                                exp = oracle.lp_stat(lp, ref.arms, ref.rows.subset(idx), q)
                                ok = list(got.keys()) == ref.arms and all(close(got[a], exp[a], 1e-7) for a in ref.arms)
                            if not ok:
                                raise Failure('C11', 'LSHNearest/%s after call %d, query %r: expectations %r, the sign-pattern '
                                              'collisions are rows %r which give %r' % (lp[0], k, q, got, idx, exp), case,
                                              got, exp, 'approximate')
                    yield case


    # an empty collision set gives NaN for every arm, also for an arm added after fit: all stored rows are positive multiples
    # of one vector v, so -v shares no sign pattern with them under any hyperplanes
    for lp in CF_OUT[:1]:
        nbh = ['LSHNearest', {'n_dimensions': 4, 'n_tables': 3}]
        if not in_focus(env, lp, nbh):
            continue
        v = [1.0, 2.0]
        rows = [[1, 2, 3, 1, 2, 3], [4, 9, 1, 6, 3, 8], [[c * v[0], c * v[1]] for c in (1, 2, 3, 4, 5, 6)]]
        case = {'arms': ARMS, 'lp': lp, 'np': nbh, 'calls': [['fit'] + rows, ['add_arm', 8]]}
        m = build(case)
        call(m, ['fit'] + rows)
        for stage in (0, 1):
            if stage:
                call(m, ['add_arm', 8])
            e = m.predict_expectations([[-v[0], -v[1]]])
            if not all(isinstance(x, float) and math.isnan(x) for x in e.values()):
                raise Failure('C11', 'a query that collides with no stored row%s: expectations are not NaN for every arm: %r'
                              % (' (after add_arm)' if stage else '', e), case, e, 'NaN for every arm', 'approximate')
        yield case


# =========================================================================================== C12
def check_C12(env):
    rng = env['rng']
    for lp in CF_DET[:2] + LIN_DET[:1]:
        for nbh in NBH_OTHER[1:3]:
            if not in_focus(env, lp, nbh):
                continue
            for h in ctx_histories_rich(rng, False):
                case = {'arms': ARMS, 'lp': lp, 'np': nbh, 'calls': h}
                m = build(case)
                ref = oracle.RefBandit(ARMS, lp, nbh)
                for k, c in enumerate(h):
                    call(m, c)
                    ref.apply(c)
                    labels = list(m._imp.kmeans.labels_)
                    for q in GRID_QUERIES[:4]:
                        cell = int(m._imp.kmeans.predict(np.asarray([q], dtype=float))[0])
                        idx = [i for i, l in enumerate(labels) if l == cell]
                        got = m.predict_expectations([q])
                        exp = oracle.lp_stat(lp, ref.arms, ref.rows.subset(idx), q)
                        if list(got.keys()) != ref.arms or not all(close(got[a], exp[a], 1e-7) for a in ref.arms):
                            raise Failure('C12', 'Clusters/%s after call %d, query %r in cell %d (rows %r): %r, training on the '
                                          'cell gives %r' % (lp[0], k, q, cell, idx, got, exp), case, got, exp, 'clusters')
                yield case
    for lp in TREE_LPS[:2]:
        nbh = ['TreeBandit', {}]
        if not in_focus(env, lp, nbh):
            continue
        for h in ctx_histories(rng, False, 1):
            # arm 4 is first seen with a single observation (one leaf), then with a batch that makes its tree split
            h = h + [['add_arm', 4], ['partial_fit', [4], [10], [[0, 0]]],
                     ['partial_fit', [4, 4, 4, 4], [1, 2, 9, 8], [[-3, -3], [-2, -3], [3, 3], [3, 2]]]]
            # ... and a refit on a smaller history that omits arms which had data (and were queried): neutral 0 again
            h = h + [['fit'] + rand_rows(rng, 7, [1, 2], False, 2)]
            case = {'arms': ARMS, 'lp': lp, 'np': nbh, 'calls': h}
            m = build(case)
            ref = oracle.RefBandit(ARMS, lp, nbh)
            for k, c in enumerate(h):
                call(m, c)
                ref.apply(c)
                for q in GRID_QUERIES[:4]:
                    got = m.predict_expectations([q])
                    exp = {}
                    for a in ref.arms:
                        xs, rs = ref.rows.x_of(a), ref.rows.of(a)
                        if not rs:
                            exp[a] = 0
                            continue
                        tree = m._imp.arm_to_tree[a]
                        leaf = tree.apply(np.asarray([q], dtype=float))[0]
                        leaves = tree.apply(np.asarray(xs, dtype=float))
                        sub = oracle.Rows()
                        sub.extend([a] * int((leaves == leaf).sum()), [r for r, l in zip(rs, leaves) if l == leaf])
                        exp[a] = oracle.lp_stat(lp, [a], sub)[a]
                    if list(got.keys()) != ref.arms or not all(close(got[a], exp[a], 1e-7) for a in ref.arms):
                        raise Failure('C12', 'TreeBandit/%s after call %d, query %r: %r, the leaf statistics are %r'
                                      % (lp[0], k, q, got, exp), case, got, exp, 'treebandit')
            yield case


# =========================================================================================== C13
def check_C13(env):
    rng = env['rng']
    # arm 6 is closer to arm 3 (warm-started at quantile 0.5) than to its closest trained arm 1
    feats = {1: [1.0, 0.1], 2: [0.0, 1.0], 3: [1.0, 0.3], 4: [-1.0, -1.0], 5: [0.2, 1.0], 6: [1.0, 0.84]}
    arms = [1, 2, 3, 4, 5, 6]
    for lp in CF_STATE[:5] + LIN_DET[:1]:
        if not in_focus(env, lp):
            continue
        binary = is_binary_lp(lp)
        ctx = lp[0].startswith('Lin')
        rows = rand_rows(rng, 8, [1, 2], binary, 2 if ctx else 0)          # arms 3, 4, 5, 6 are cold
        case = {'arms': arms, 'lp': lp, 'calls': [['fit'] + rows, ['warm_start', [[k, v] for k, v in feats.items()], 0.5]]}
        m = build(case)
        call(m, case['calls'][0])
        st0 = copy.deepcopy(m._imp)
        m.warm_start(dict(feats), 0.5)
        imp = m._imp
        # distances and threshold as documented: cosine distances between arm features; the threshold is the quantile
        # of every arm's distance to its closest other arm
        import scipy.spatial.distance as _ssd

        class sd:
            euclidean = staticmethod(lambda u, v: float(_ssd.cosine(u, v)))
        thr = float(np.quantile([min(sd.euclidean(feats[a], feats[b]) for b in arms if b != a) for a in arms], 0.5))
        trained = [a for a in arms if rows[0].count(a) > 0]
        for a in arms:
            stt = imp.arm_to_status[a]
            if a in trained:
                if stt['is_warm'] or not stt['is_trained']:
                    raise Failure('C13', 'a trained arm was warm started', case, stt, None, MODULE_OF[lp[0]])
                continue
            best = min(trained, key=lambda t: sd.euclidean(feats[a], feats[t]))
            should = sd.euclidean(feats[a], feats[best]) <= thr
            if stt['is_warm'] != should or (should and stt['warm_started_by'] != best):
                raise Failure('C13', 'cold arm %r: warm=%r by %r; the closest trained arm is %r at distance %.3f, threshold %.3f'
                              % (a, stt['is_warm'], stt['warm_started_by'], best, sd.euclidean(feats[a], feats[best]), thr),
                              case, stt, {'is_warm': should, 'warm_started_by': best if should else None}, 'base_mab')
            if should:
                for f, v in vars(imp).items():
                    # learned state: the arm-keyed dictionaries the bandit held before the call (an attribute the call
                    # itself creates, a cache say, is not learned state and is judged by the results below only)
                    if isinstance(v, dict) and a in v and best in v and f not in ('arm_to_status',) and \
                            isinstance(vars(st0).get(f), dict) and best in vars(st0)[f]:
                        if core.state_digest(v[a]) != core.state_digest(v[best]):
                            raise Failure('C13', 'warm-started arm %r: %s is not a copy of arm %r' % (a, f, best), case,
                                          repr(v[a])[:200], repr(v[best])[:200], MODULE_OF[lp[0]])
        derived = ('arm_to_expectation', 'arm_to_exponent') if lp[0] == 'Softmax' else ()
        for t in trained:
            for f, v in vars(imp).items():
                if isinstance(v, dict) and t in v and f not in derived and isinstance(vars(st0).get(f), dict) and \
                        t in vars(st0)[f]:
                    if core.state_digest(v[t]) != core.state_digest(vars(st0)[f][t]):
                        raise Failure('C13', 'warm_start modified %s of the trained arm %r' % (f, t), case, repr(v[t])[:200],
                                      repr(vars(st0)[f][t])[:200], MODULE_OF[lp[0]])
        # trained arms untouched, idempotent
        snap = learned_state(m)
        m.warm_start(dict(feats), 0.5)
        if learned_state(m) != snap:
            raise Failure('C13', 'a second warm_start with the same arguments changed the bandit', case, None, None, 'base_mab')
        # a larger quantile warms more arms, each from its closest *trained* arm (never from a merely warm one)
        m.warm_start(dict(feats), 1.0)
        for a in arms:
            stt = m._imp.arm_to_status[a]
            if a in trained:
                continue
            best = min(trained, key=lambda t: sd.euclidean(feats[a], feats[t]))
            if not stt['is_warm'] or stt['warm_started_by'] not in trained or \
                    sd.euclidean(feats[a], feats[stt['warm_started_by']]) > sd.euclidean(feats[a], feats[best]) + 1e-12:
                raise Failure('C13', 'quantile 1.0 after 0.5: cold arm %r is warm=%r from %r, its closest trained arm is %r'
                              % (a, stt['is_warm'], stt['warm_started_by'], best),
                              dict(case, calls=case['calls'] + [['warm_start', case['calls'][1][1], 1.0]]), stt, best, 'base_mab')
        if list(m.cold_arms) != []:
            raise Failure('C13', 'cold_arms lists %r although every arm is observed or warm-started' % (m.cold_arms,), case,
                          m.cold_arms, [], 'base_mab')
        # two calls with *different* feature dictionaries while arms are still cold: the second call decides from its own
        # features (distances, threshold, closest trained arm), whatever an earlier call computed
        feats2 = dict(feats)
        feats2.update({1: feats[2], 2: feats[1], 4: [-1.0, 0.5]})     # the trained arms trade places

        def _oracle(ff, q):
            th = float(np.quantile([min(sd.euclidean(ff[a], ff[b]) for b in arms if b != a) for a in arms], q))
            out = {}
            for a in arms:
                if a in trained:
                    continue
                ds = sorted((sd.euclidean(ff[a], ff[t]), t) for t in trained)
                if (len(ds) > 1 and ds[1][0] - ds[0][0] < 1e-9) or abs(ds[0][0] - th) < 1e-9:
                    out[a] = None            # a tie the statement does not decide
                else:
                    out[a] = (ds[0][0] <= th, ds[0][1])
            return out
        for q1, q2 in ((0.0, 0.5), (0.2, 1.0), (0.0, 0.0)):
            case2 = {'arms': arms, 'lp': lp, 'calls': [['fit'] + rows, ['warm_start', [[k, v] for k, v in feats.items()], q1],
                                                        ['warm_start', [[k, v] for k, v in feats2.items()], q2]]}
            m2 = build(case2)
            call(m2, case2['calls'][0])
            m2.warm_start(dict(feats), q1)
            o1, o2 = _oracle(feats, q1), _oracle(feats2, q2)
            after1 = {a: dict(m2._imp.arm_to_status[a]) for a in arms}
            m2.warm_start(dict(feats2), q2)
            for a in arms:
                if a in trained or o1[a] is None or o2[a] is None:
                    continue
                stt = m2._imp.arm_to_status[a]
                if after1[a]['is_warm']:
                    want = (True, after1[a]['warm_started_by'])
                else:
                    want = o2[a]
                if stt['is_warm'] != want[0] or (want[0] and stt['warm_started_by'] != want[1]):
                    raise Failure('C13', 'second warm_start with other features (quantiles %r then %r): cold arm %r is warm=%r by '
                                  '%r; by the features of that call it should be warm=%r by %r'
                                  % (q1, q2, a, stt['is_warm'], stt['warm_started_by'], want[0], want[1] if want[0] else None),
                                  case2, stt, {'is_warm': want[0], 'warm_started_by': want[1] if want[0] else None}, 'base_mab')
            yield case2
        # refit on data that omits a trained and the warm arms: they are cold again
        refit = rand_rows(rng, 6, [2], binary, 2 if ctx else 0)
        call(m, ['fit'] + refit)
        if sorted(m.cold_arms) != [1, 3, 4, 5, 6]:
            raise Failure('C13', 'after a refit on arm 2 only, cold_arms is %r (every other arm is neither observed nor '
                          'warm-started since that fit)' % (m.cold_arms,), dict(case, calls=case['calls'] + [['fit'] + refit]),
                          m.cold_arms, [1, 3, 4, 5, 6], MODULE_OF[lp[0]])
        yield case


def check_C12_binarizer(env):
    """Clusters: every cluster's policy sees the rewards converted exactly once, also when the binarizer arrives by add_arm"""
    rng = env['rng']
    for nbh in NBH_OTHER[1:3]:
        lp, plain = ['ThompsonSampling', {}], ['ThompsonSampling', {}]
        if not in_focus(env, lp, nbh):
            continue
        rows1 = rand_rows(rng, 12, ARMS, True, 2)
        rows2 = rand_rows(rng, 8, ARMS + [9], False, 2)
        conv = [rows2[0], [core.binz_arm(a, r) for a, r in zip(rows2[0], rows2[1])], rows2[2]]
        case = {'arms': ARMS, 'lp': lp, 'np': nbh, 'seed': 9,
                'calls': [['fit'] + rows1, ['add_arm', 9, 'binz_arm'], ['partial_fit'] + rows2]}
        a, b = build(case), build(case)
        call(a, ['fit'] + rows1)
        call(b, ['fit'] + rows1)
        a.add_arm(9, core.binz_arm)
        b.add_arm(9)
        call(a, ['partial_fit'] + rows2)
        call(b, ['partial_fit'] + conv)
        ra, rb = observe(a, lp, nbh), observe(b, plain, nbh)
        if not same_result(ra, rb, 0):
            raise Failure('C12', 'Clusters/ThompsonSampling: after add_arm(arm, binarizer) and partial_fit the cells do not hold '
                          'the once-converted rewards (differs from a binarizer-free bandit fed the converted rewards)', case,
                          ra, rb, 'clusters')
        yield case


def _check_C12_all(env):
    for c in check_C12(env):
        yield c
    for c in check_C12_binarizer(env):
        yield c


def check_C19_binarizer(env):
    rng = env['rng']
    for nbh in (NBH_OTHER[3], NBH_EXACT[0], None):
        lp = ['ThompsonSampling', {'binarizer': 'binz'}]
        if not in_focus(env, lp, nbh):
            continue
        d = 2 if nbh else 0
        rows = rand_rows(rng, 10, ARMS, False, d)
        rows2 = rand_rows(rng, 5, ARMS + [6], False, d)
        case = {'arms': ARMS, 'lp': lp, 'np': nbh, 'seed': 4, 'calls': [['fit'] + rows, ['predict'], ['add_arm', 6, 'binz_one']],
                'continuation': [['partial_fit'] + rows2]}
        m = build(case)
        call(m, ['fit'] + rows)
        observe(m, lp, nbh)
        m.add_arm(6, core.binz_one)
        clones = [copy.deepcopy(m), pickle.loads(pickle.dumps(m, protocol=4))]
        call(m, ['partial_fit'] + rows2)
        want = observe(m, lp, nbh)
        for cl in clones:
            call(cl, ['partial_fit'] + rows2)
            if not same_result(observe(cl, lp, nbh), want, 0):
                raise Failure('C19', 'a copy / pickle taken after predict and add_arm(arm, new binarizer) diverges from the '
                              'original (%s)' % (nbh and nbh[0]), case, None, None, MODULE_OF.get((nbh or lp)[0]))
        yield case


def check_C19_shared_params(env):
    """a copy taken before training answers like the original whatever other bandits are constructed in between from the
    same policy-parameter objects (the library's default tree_parameters, or one dictionary the caller reuses): data whose
    best split is a tie, so the trees depend on the random_state the bandit derives from its own seed"""
    from mabwiser.mab import MAB, LearningPolicy, NeighborhoodPolicy
    lp, nbh = ['EpsilonGreedy', {'epsilon': 0.0}], ['TreeBandit', {}]
    if not in_focus(env, lp, nbh):
        return
    X = [[0, 0], [0, 0], [1, 1], [1, 1], [0, 0], [0, 0], [1, 1], [1, 1]]
    D = [1, 1, 1, 1, 2, 2, 2, 2]
    R = [0.0, 0.0, 1.0, 1.0, 1.0, 1.0, 0.0, 0.0]
    Q = [[0, 1], [1, 0], [0, 0], [1, 1]]

    def cont(m):
        out = []
        m.fit(D, R, X)
        out += [m.predict(Q), m.predict_expectations(Q)]
        m.add_arm(3)
        m.partial_fit([3, 3, 3, 3], [0.0, 0.0, 2.0, 2.0], [[0, 0], [0, 0], [1, 1], [1, 1]])
        out += [m.predict(Q), m.predict_expectations(Q)]
        return out
    for shared in (None, {'max_depth': 3}):
        for seed_other in (2, 7, 12345, 99):
            def mk(sd):
                pol = NeighborhoodPolicy.TreeBandit() if shared is None else NeighborhoodPolicy.TreeBandit(tree_parameters=shared)
                return MAB([1, 2], LearningPolicy.EpsilonGreedy(epsilon=0.0), pol, seed=sd)
            case = {'arms': [1, 2], 'lp': lp, 'np': nbh, 'seed': 1, 'scenario': 'copy and pickle before fit; then another '
                    'TreeBandit bandit with seed %d built from %s; then fit(tie data), query, add_arm(3), partial_fit, query on '
                    'original and copies' % (seed_other, 'the default tree_parameters' if shared is None else
                                             'the same tree_parameters dictionary'),
                    'calls': [['fit', D, R, X], ['predict', Q], ['add_arm', 3],
                              ['partial_fit', [3, 3, 3, 3], [0.0, 0.0, 2.0, 2.0], [[0, 0], [0, 0], [1, 1], [1, 1]]], ['predict', Q]]}
            orig = mk(1)
            clones = [copy.deepcopy(orig), pickle.loads(pickle.dumps(orig, protocol=4))]
            mk(seed_other)
            want = cont(orig)
            for cl in clones:
                got = cont(cl)
                if not all(same_result(g, w, 0) for g, w in zip(got, want)):
                    raise Failure('C19', 'a copy / pickle of an unfitted TreeBandit bandit diverges from the original once another '
                                  'bandit (seed %d) has been built from %s' % (seed_other, 'the default tree_parameters'
                                                                               if shared is None else 'the same dictionary'),
                                  case, repr(got)[:300], repr(want)[:300], 'treebandit')
            yield case


def _check_C19_all(env):
    for c in check_C19(env):
        yield c
    for c in check_C19_binarizer(env):
        yield c
    for c in check_C19_shared_params(env):
        yield c


CHECKS = {'C01': check_C01, 'C02': check_C02, 'C03': check_C03, 'C04': check_C04, 'C05': check_C05, 'C06': check_C06,
          'C07': check_C07, 'C08': check_C08, 'C09': check_C09, 'C10': check_C10, 'C11': check_C11, 'C12': _check_C12_all,
          'C13': check_C13, 'C14': check_C14, 'C17': check_C17, 'C18': check_C18, 'C19': _check_C19_all, 'C20': check_C20}


# =========================================================================================== C15 / C16 (Simulator)
def _sim_data(rng, n=24, dim=2):
    d = [ARMS[int(rng.integers(3))] for _ in range(n)]
    r = [int(rng.integers(0, 11)) for _ in range(n)]
    x = [[int(rng.integers(-3, 4)) for _ in range(dim)] for _ in range(n)]
    return d, r, x


SIM_BANDITS = [(['EpsilonGreedy', {'epsilon': 0.0}], None), (['UCB1', {'alpha': 1.5}], None),
               (['EpsilonGreedy', {'epsilon': 0.3}], None), (['ThompsonSampling', {'binarizer': 'binz'}], None),
               (['LinUCB', {'alpha': 1.2, 'l2_lambda': 1.0}], None), (['LinGreedy', {'epsilon': 0.0, 'l2_lambda': 1.0}], None),
               (['EpsilonGreedy', {'epsilon': 0.0}], ['Radius', {'radius': 3.0, 'metric': 'euclidean'}]),
               (['UCB1', {'alpha': 1.5}], ['KNearest', {'k': 3, 'metric': 'cityblock'}]),
               (['EpsilonGreedy', {'epsilon': 0.0}], ['Radius', {'radius': 3.0, 'metric': 'cityblock'}]),
               (['EpsilonGreedy', {'epsilon': 0.0}], ['LSHNearest', {'n_dimensions': 2, 'n_tables': 2}]),
               (['EpsilonGreedy', {'epsilon': 0.0}], ['Clusters', {'n_clusters': 2}]),
               # sparse neighbourhoods with a configured (degenerate, hence draw-free) empty-neighbourhood distribution
               (['EpsilonGreedy', {'epsilon': 0.0}], ['LSHNearest', {'n_dimensions': 7, 'n_tables': 1,
                                                                     'no_nhood_prob_of_arm': [0, 0, 1]}]),
               (['EpsilonGreedy', {'epsilon': 0.0}], ['Radius', {'radius': 0.5, 'metric': 'cityblock',
                                                                 'no_nhood_prob_of_arm': [0, 1, 0]}])]
SIM_DETERMINISTIC = {0, 1, 4, 5, 6, 7, 8, 9, 10, 11, 12}


def _run_sim(case, quiet=True):
    import logging
    from mabwiser.simulator import Simulator
    bandits = [('b%d' % i, build({'arms': ARMS, 'lp': lp, 'np': nbh, 'seed': case['seed'], 'n_jobs': case.get('n_jobs', 1)}))
               for i, (lp, nbh) in enumerate(case['bandits'])]
    import contextlib
    import io
    import os
    logging.disable(logging.CRITICAL)
    try:
        with open(os.devnull, 'w') as dn, contextlib.redirect_stdout(dn), contextlib.redirect_stderr(dn):
            sim = Simulator(bandits, case['d'], case['r'], case['x'], test_size=case['test_size'],
                            is_ordered=case['is_ordered'], batch_size=case['batch_size'], seed=case['seed'],
                            is_quick=case['is_quick'])
            sim.run()
    finally:
        logging.disable(logging.NOTSET)
    return sim


def _api_twin(case, lp, nbh, train, test):
    """drive an identically configured bandit through the public API with the simulator's split and protocol"""
    m = build({'arms': ARMS, 'lp': lp, 'np': nbh, 'seed': case['seed'], 'n_jobs': case.get('n_jobs', 1)})
    ctx = needs_ctx(lp, nbh)
    td = [case['d'][i] for i in train]
    tr = [case['r'][i] for i in train]
    tx = [case['x'][i] for i in train] if case['x'] is not None else None
    m.fit(td, tr, tx if ctx else None)
    preds, exps = [], []
    bs = case['batch_size'] or len(test)
    for s in range(0, len(test), bs):
        rows = test[s:s + bs]
        qx = [case['x'][i] for i in rows] if case['x'] is not None else None
        if ctx:
            p = m.predict(qx)
            p = p if isinstance(p, list) else [p]
        else:
            p = [m.predict() for _ in rows]
        preds += p
        if case['batch_size']:
            e = m.predict_expectations(qx if ctx else None)
            exps += e if isinstance(e, list) else [e]
            m.partial_fit([case['d'][i] for i in rows], [case['r'][i] for i in rows], qx if ctx else None)
    return preds, exps


def check_C15(env):
    rng = env['rng']
    for is_ordered, batch_size, is_quick, n_jobs in ((True, 0, False, 1), (False, 0, True, 1), (True, 3, False, 1),
                                                     (True, 10, True, 1), (False, 4, False, 1), (True, 1, True, 1),
                                                     (True, 0, False, 2), (True, 5, True, 3)):
        d, r, x = _sim_data(rng)
        for group in ([0, 1, 4, 6, 8, 7], [2, 3, 5, 9, 10], [6], [7, 6], [11, 12]):
            if n_jobs > 1 and group != [0, 1, 4, 6, 8, 7]:
                continue
            bandits = [SIM_BANDITS[i] for i in group if in_focus(env, *SIM_BANDITS[i])]
            if not bandits:
                continue
            if batch_size and any(i not in SIM_DETERMINISTIC for i in group):
                continue         # online protocol compared for deterministic policies only (the order of draws is not specified)
            case = {'bandits': bandits, 'd': d, 'r': r, 'x': x, 'test_size': 0.4, 'is_ordered': is_ordered,
                    'batch_size': batch_size, 'is_quick': is_quick, 'seed': 21, 'n_jobs': n_jobs}
            sim = _run_sim(case)
            test = [int(i) for i in sim.test_indices]
            train = [i for i in range(len(d)) if i not in set(test)]
            if not is_ordered:
                # the simulator keeps train rows in the order produced by train_test_split
                from sklearn.model_selection import train_test_split
                train, test2 = train_test_split(list(range(len(d))), test_size=0.4, random_state=21)
                train = [int(i) for i in train]
            for k, (lp, nbh) in enumerate(bandits):
                preds, exps = _api_twin(case, lp, nbh, train, test)
                got = list(sim.bandit_to_predictions['b%d' % k])
                if not same_result(got, preds, 0):
                    raise Failure('C15', 'Simulator predictions of %s/%s differ from the public API with the same split and '
                                  'protocol (ordered=%r batch=%r quick=%r, %d bandits)' % (lp[0], nbh and nbh[0], is_ordered,
                                                                                         batch_size, is_quick, len(bandits)),
                                  dict(case, lp=lp, np=nbh), got, preds, 'simulator')
            yield case
    # distances within a few ulps (1e-7 .. 1e-12, relative) of the radius / of the k-th distance: the simulator's
    # re-implementations share one distance table between bandits; any loss of precision there (a narrower dtype, a
    # rounded cache key) admits or drops exactly these rows and nothing else
    for eps in (1e-7, 1e-8, 1e-9, 1e-10, 1e-12):
        for metric in ('cityblock', 'euclidean', 'chebyshev'):
            d, r, x = [], [], []
            for c in (0.0, 16.0, -16.0, 3.0):
                d += [1, 2, 3, 1, 2]
                r += [2, 9, 1, 3, 10]
                x += [[c + 1.0, 0.0], [c + 1.0 + eps * (1 + abs(c)), 0.0], [c - 1.0 + eps * (1 + abs(c)), 0.0],
                      [c, 1.0], [c, -1.0 - eps]]
            d += [1, 2, 3, 1, 2, 3, 1, 2, 3, 1, 2, 3, 1]
            r += [0] * 13
            x += [[0.0, 0.0], [16.0, 0.0], [-16.0, 0.0], [3.0, 0.0], [0.0, 0.0], [16.0, 0.0], [-16.0, 0.0], [3.0, 0.0],
                  [0.0, 0.0], [16.0, 0.0], [-16.0, 0.0], [3.0, 0.0], [0.0, 0.0]]
            cand = [(['EpsilonGreedy', {'epsilon': 0.0}], ['Radius', {'radius': 1.0, 'metric': metric}]),
                    (['EpsilonGreedy', {'epsilon': 0.0}], ['KNearest', {'k': 3, 'metric': metric}]),
                    (['EpsilonGreedy', {'epsilon': 0.0}], ['KNearest', {'k': 4, 'metric': metric}])]
            bandits = [b for b in cand if in_focus(env, *b)]
            if not bandits:
                continue
            for batch_size in (0, 4):
                case = {'bandits': bandits, 'd': d, 'r': r, 'x': x, 'test_size': 0.39, 'is_ordered': True,
                        'batch_size': batch_size, 'is_quick': False, 'seed': 21, 'n_jobs': 1}
                sim = _run_sim(case)
                test = [int(i) for i in sim.test_indices]
                train = [i for i in range(len(d)) if i not in set(test)]
                for k, (lp, nbh) in enumerate(bandits):
                    preds, exps = _api_twin(case, lp, nbh, train, test)
                    got = list(sim.bandit_to_predictions['b%d' % k])
                    if not same_result(got, preds, 0):
                        raise Failure('C15', 'Simulator predictions of %s/%s differ from the public API when stored rows lie '
                                      'within %g (relative) of the %s (metric %s, batch=%r)'
                                      % (lp[0], nbh[0], eps, 'radius' if nbh[0] == 'Radius' else 'k-th distance', metric,
                                         batch_size), dict(case, lp=lp, np=nbh), got, preds, 'simulator')
                yield case


def check_C16(env):
    rng = env['rng']
    for is_ordered, batch_size, test_size, with_ctx in ((True, 0, 0.3, True), (False, 0, 0.25, True), (True, 4, 0.5, True),
                                                        (False, 5, 0.4, True), (True, 7, 0.45, True), (False, 0, 0.3, False),
                                                        (False, 3, 0.35, False), (True, 0, 0.3, False)):
        d, r, x = _sim_data(rng, 23)
        if is_ordered:
            d = [1 if v == 3 else v for v in d[:14]] + d[14:]         # arm 3 absent from the training rows
        bandits = [SIM_BANDITS[i] for i in ((0, 1, 6) if with_ctx else (0, 1, 2))]
        if not with_ctx:
            x = None
        case = {'bandits': bandits, 'd': d, 'r': r, 'x': x, 'test_size': test_size, 'is_ordered': is_ordered,
                'batch_size': batch_size, 'is_quick': False, 'seed': 5}
        sim = _run_sim(case)
        n = len(d)
        test = [int(i) for i in sim.test_indices]
        if len(set(test)) != len(test) or not set(test) <= set(range(n)):
            raise Failure('C16', 'test indices are not distinct rows', case, test, None, 'simulator')
        if is_ordered and test != list(range(n - len(test), n)):
            raise Failure('C16', 'ordered split: the test rows are not the last rows', case, test, None, 'simulator')
        train = [i for i in range(n) if i not in set(test)]

        def stats(rows):
            out = {}
            for a in ARMS:
                rs = np.array([r[i] for i in rows if d[i] == a])
                out[a] = ({'count': rs.size, 'sum': rs.sum(), 'min': rs.min(), 'max': rs.max(), 'mean': rs.mean(),
                           'std': rs.std()} if rs.size else {'count': 0, 'sum': 0, 'min': 0, 'max': 0, 'mean': 0, 'std': 0})
            return out
        for nm, rows, got in (('total', range(n), sim.arm_to_stats_total), ('train', train, sim.arm_to_stats_train),
                              ('test', test, sim.arm_to_stats_test)):
            exp = stats(list(rows))
            for a in ARMS:
                for kk in exp[a]:
                    if not close(got[a][kk], exp[a][kk], 1e-9):
                        raise Failure('C16', '%s statistics of arm %r: %s is %r, recomputation gives %r' % (nm, a, kk, got[a][kk],
                                                                                                  exp[a][kk]), case,
                                      got[a], exp[a], 'simulator')
        for a in ARMS:
            for kk in ('count', 'sum'):
                if not close(sim.arm_to_stats_train[a][kk] + sim.arm_to_stats_test[a][kk], sim.arm_to_stats_total[a][kk], 1e-9):
                    raise Failure('C16', 'train + test %s of arm %r is not the total' % (kk, a), case, None, None, 'simulator')
        for k in range(len(bandits)):
            name = 'b%d' % k
            if len(sim.bandit_to_predictions[name]) != len(test):
                raise Failure('C16', 'bandit %d has %d predictions for %d test rows' % (k, len(sim.bandit_to_predictions[name]),
                                                                                     len(test)), case, None, None, 'simulator')
            mn, av, mx = sim.bandit_to_arm_to_stats_min[name], sim.bandit_to_arm_to_stats_avg[name], sim.bandit_to_arm_to_stats_max[name]
            if batch_size:
                # online runs keep one evaluation per batch: {batch: {arm: stats}} or totals under 'total'
                mn, av, mx = [v.get('total', v) if isinstance(v, dict) else v for v in (mn, av, mx)]
            try:
                cnt = sum(av[a]['count'] for a in ARMS)
            except Exception:       # noqa
                continue
            if cnt != len(test):
                raise Failure('C16', 'evaluated counts sum to %d for %d test rows' % (cnt, len(test)), case, av, None, 'simulator')
            for a in ARMS:
                if av[a]['count'] and not (mn[a]['sum'] <= av[a]['sum'] + 1e-9 and av[a]['sum'] <= mx[a]['sum'] + 1e-9):
                    raise Failure('C16', 'min / mean / max analyses of arm %r are not ordered' % a, case,
                                  [mn[a], av[a], mx[a]], None, 'simulator')
        # the value credited to every test row, recomputed: the observed reward where the prediction is the logged decision,
        # otherwise the predicted arm's statistic over the training rows - for a Radius bandit over the rows it had learned
        # (training rows and earlier batches) within the radius of that test row, when there is one of that arm
        train_stats = stats(train)
        for k, (lp, nbh) in enumerate(bandits):
            if nbh is not None and nbh[0] != 'Radius':
                continue
            name = 'b%d' % k
            preds = list(sim.bandit_to_predictions[name])
            bs = batch_size or len(test)
            credited = {'min': [], 'mean': [], 'max': []}
            for j, row in enumerate(test):
                if preds[j] == d[row]:
                    src = {'min': r[row], 'mean': r[row], 'max': r[row]}
                else:
                    src = train_stats[preds[j]]
                    if nbh is not None:
                        learned = train + test[:(j // bs) * bs]
                        vals = [r[i] for i in learned if d[i] == preds[j] and
                                oracle.dist(nbh[1]['metric'], x[i], x[row]) <= nbh[1]['radius']]
                        if vals:
                            src = {'min': min(vals), 'mean': float(np.mean(vals)), 'max': max(vals)}
                for st_ in credited:
                    credited[st_].append(src[st_])
            res = {'min': sim.bandit_to_arm_to_stats_min[name], 'mean': sim.bandit_to_arm_to_stats_avg[name],
                   'max': sim.bandit_to_arm_to_stats_max[name]}
            scopes = [(None, 0, len(test))] if not batch_size else \
                [(b_, b_ * bs, min((b_ + 1) * bs, len(test))) for b_ in range((len(test) + bs - 1) // bs)] + [('total', 0, len(test))]
            for scope, lo, hi in scopes:
                for st_ in ('min', 'mean', 'max'):
                    got = res[st_] if scope is None else res[st_].get(scope)
                    if got is None:
                        continue
                    for a in ARMS:
                        vals = [credited[st_][j] for j in range(lo, hi) if preds[j] == a]
                        if got[a]['count'] != len(vals) or (vals and not close(got[a]['sum'], float(sum(vals)), 1e-9)):
                            raise Failure('C16', '%s evaluation of %s/%s, %s: arm %r is credited count %r sum %r, recomputation '
                                          'gives count %d sum %r' % (st_, lp[0], nbh and nbh[0],
                                                                     'all test rows' if scope in (None, 'total') else 'batch %d' % scope,
                                                                     a, int(got[a]['count']), float(got[a]['sum']), len(vals), float(sum(vals))),
                                          case, {kk: float(vv) if isinstance(vv, (int, float, np.floating, np.integer)) else vv
                                                 for kk, vv in got[a].items()},
                                          {'count': len(vals), 'sum': float(sum(vals))}, 'simulator')
        yield case
    # online simulation of a neighbourhood bandit over ThompsonSampling(binarizer): the raw rewards the simulator keeps for
    # its neighbourhood statistics stay row-aligned with the stored (converted) history after every batch
    d, r, x = _sim_data(rng, 30)
    bandits = [(['ThompsonSampling', {'binarizer': 'binz'}], ['KNearest', {'k': 3, 'metric': 'cityblock'}]),
               (['ThompsonSampling', {'binarizer': 'binz'}], ['Radius', {'radius': 3.0, 'metric': 'cityblock'}])]
    case = {'bandits': bandits, 'd': d, 'r': r, 'x': x, 'test_size': 0.5, 'is_ordered': True, 'batch_size': 4,
            'is_quick': False, 'seed': 5}
    sim = _run_sim(case)
    for name, mab in sim.bandits:
        raw = getattr(mab, 'raw_rewards', None)
        if raw is None:
            continue
        conv = [core.binz(a, v) for a, v in zip(mab.decisions, raw)]
        if len(raw) != len(mab.rewards) or any(int(c) != int(v) for c, v in zip(conv, mab.rewards)):
            raise Failure('C16', 'the raw rewards kept by the simulator\'s %s bandit are not aligned with its stored history '
                          '(binarizer(decision_i, raw_i) != stored reward_i for some row): the neighbourhood statistics credit '
                          'rewards of other rows' % type(mab).__name__, case, [float(v) for v in raw][:12],
                          [int(v) for v in mab.rewards][:12], 'simulator')
    yield case


CHECKS['C15'] = check_C15
CHECKS['C16'] = check_C16
MODULE_OF['Simulator'] = 'simulator'


def _with_fuzz(prop, check):
    """the hand-written histories first, then random plans (rt/fuzz.py) from the same generator"""
    def run(env):
        from rt import fuzz
        # C05: the hand-written part (process backends) does not finish within the thorough budget, so there the random
        # plans (threads, a few seconds) go first; everywhere else they follow the hand-written histories
        first = prop == 'C05' and env.get('tier') == 'thorough'
        if first:
            for c in fuzz.fuzz(prop, env):
                yield c
        for c in check(env):
            yield c
        if not first:
            for c in fuzz.fuzz(prop, env):
                yield c
    run.__name__ = getattr(check, '__name__', 'check') + '_with_random_plans'
    return run


for _p in ('C04', 'C05', 'C07', 'C08', 'C09', 'C10', 'C17', 'C19', 'C20'):
    CHECKS[_p] = _with_fuzz(_p, CHECKS[_p])
