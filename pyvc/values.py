"""Symbolic values, heap objects and execution state of PyVC (DESIGN.md 2.2)."""
import z3
from . import smt
from .smt import Arm, ASeq, RSeq, ISeq, BSeq, Mat, Rng, Opaque, Int, Real, Bool, OptArm


class Unsupported(Exception):
    """A construct outside the subset: affected obligations become UNDECIDED, never discharged/violated."""


class Infeasible(Exception):
    pass


class PyRaise(Exception):
    """The program under verification raises."""

    def __init__(self, exc_type, where, cond_desc=''):
        super().__init__(exc_type)
        self.exc_type = exc_type
        self.where = where
        self.cond_desc = cond_desc


class Val:
    tag = 'val'
    maybe_none = False      # read from a column that can hold None (encoded by a distinguished constant)


class Num(Val):
    tag = 'num'

    def __init__(self, term):
        if isinstance(term, bool):
            raise TypeError('bool passed to Num')
        if isinstance(term, int):
            term = z3.IntVal(term)
        elif isinstance(term, float):
            from fractions import Fraction
            term = z3.RealVal(str(Fraction(term)))
        self.term = term

    @property
    def is_int(self):
        return self.term.sort() == Int

    def real(self):
        return z3.ToReal(self.term) if self.is_int else self.term

    def concrete(self):
        t = z3.simplify(self.term)
        if z3.is_int_value(t):
            return t.as_long()
        if z3.is_rational_value(t):
            return float(t.numerator_as_long()) / float(t.denominator_as_long())
        return None

    def __repr__(self):
        return 'Num(%s)' % self.term


class BoolV(Val):
    tag = 'bool'

    def __init__(self, term):
        if isinstance(term, bool):
            term = z3.BoolVal(term)
        self.term = term

    def concrete(self):
        t = z3.simplify(self.term)
        if z3.is_true(t):
            return True
        if z3.is_false(t):
            return False
        return None

    def __repr__(self):
        return 'BoolV(%s)' % self.term


class ArmV(Val):
    tag = 'arm'

    def __init__(self, term):
        self.term = term

    def __repr__(self):
        return 'ArmV(%s)' % self.term


class OptArmV(Val):
    tag = 'optarm'

    def __init__(self, term):
        self.term = term


class NoneV(Val):
    tag = 'none'

    def __repr__(self):
        return 'NoneV'


NONE = NoneV()


class StrV(Val):
    tag = 'str'

    def __init__(self, s):
        self.s = s

    def __repr__(self):
        return 'StrV(%r)' % self.s


class SeqV(Val):
    """Immutable symbolic sequence: kind in A (arms) R (reals) I (ints) B (bools)."""
    tag = 'seq'
    SORT = {'A': ASeq, 'R': RSeq, 'I': ISeq, 'B': BSeq}

    def __init__(self, kind, term, pylist=False):
        self.kind = kind
        self.term = term
        self.pylist = pylist     # a Python list rather than an ndarray (matters for + and truthiness)

    def __repr__(self):
        return 'SeqV(%s,%s)' % (self.kind, self.term)


class MatV(Val):
    tag = 'mat'

    def __init__(self, term):
        self.term = term


class OpaqueV(Val):
    tag = 'opaque'

    def __init__(self, term, what=''):
        self.term = term
        self.what = what


class TupleV(Val):
    tag = 'tuple'

    def __init__(self, items):
        self.items = list(items)


class RecordV(Val):
    """dict literal with constant string keys (status records, stats dictionaries)."""
    tag = 'record'

    def __init__(self, fields):
        self.fields = dict(fields)


class Ref(Val):
    tag = 'ref'

    def __init__(self, loc):
        self.loc = loc

    def __repr__(self):
        return 'Ref(%s)' % self.loc


class EntryRef(Val):
    """View of the record-valued entry map[key] of a MapO."""
    tag = 'entry'

    def __init__(self, loc, key):
        self.loc = loc
        self.key = key


class FuncRef(Val):
    tag = 'func'

    def __init__(self, qual, self_val=None, static_cls=None):
        self.qual = qual
        self.self_val = self_val
        self.static_cls = static_cls


class ClassRef(Val):
    tag = 'class'

    def __init__(self, name):
        self.name = name


class LibRef(Val):
    tag = 'lib'

    def __init__(self, name, recv=None):
        self.name = name
        self.recv = recv

    def __repr__(self):
        return 'LibRef(%s)' % self.name


class SuperRef(Val):
    tag = 'super'

    def __init__(self, self_val, cls):
        self.self_val = self_val
        self.cls = cls


class Lazy(Val):
    """A generator expression / view kept unevaluated until consumed (dict(...), Parallel(...)(...), sum(...))."""
    tag = 'lazy'

    def __init__(self, kind, node=None, env=None, payload=None):
        self.kind = kind
        self.node = node
        self.env = env
        self.payload = payload


# ------------------------------------------------------------------------------------------------ heap
class Obj:
    kind = 'obj'

    def __init__(self, cls, fields=None):
        self.cls = cls
        self.fields = dict(fields or {})

    def set(self, name, val):
        o = Obj(self.cls, self.fields)
        o.fields[name] = val
        return o


class MapO:
    """dict keyed by arm.  cols: column name -> z3 array Arm -> sort ('' for scalar-valued dicts).
    vkind: how column values are wrapped back into Vals: dict col -> 'real'|'bool'|'optarm'|'mat'|'rseq'|... """
    kind = 'map'

    def __init__(self, keys, cols, vkinds, record_cls=None):
        self.keys = keys
        self.cols = dict(cols)
        self.vkinds = dict(vkinds)
        self.record_cls = record_cls     # for maps whose entries are objects (arm_to_model): class of the entries

    def with_col(self, col, arr):
        m = MapO(self.keys, self.cols, self.vkinds, self.record_cls)
        m.cols[col] = arr
        m.shared_rng = getattr(self, 'shared_rng', None)
        return m

    def with_keys(self, keys):
        m = MapO(keys, self.cols, self.vkinds, self.record_cls)
        m.shared_rng = getattr(self, 'shared_rng', None)
        return m

    @property
    def is_scalar(self):
        return list(self.cols.keys()) == ['']


class IMapO:
    """dict keyed by the integers 0 .. n-1 (built over range(n)): vals is a z3 array Int -> sort.
    vkind 'mat': the values are matrices (LSH hyperplanes);  vkind 'hashtab': the values are defaultdict(list) objects
    keyed by floats, as a total function Real -> ISeq (a missing key is the empty list)."""
    kind = 'imap'

    def __init__(self, n, vals, vkind):
        self.n = n
        self.vals = vals
        self.vkind = vkind


class HashTabV(Val):
    """the defaultdict(list) stored under key `k` of the IMapO at `loc` (a view: writes go through to the map)"""
    tag = 'hashtab'

    def __init__(self, loc, k):
        self.loc = loc
        self.k = k


class ListO:
    """Python list of concrete length holding Vals."""
    kind = 'list'

    def __init__(self, items):
        self.items = list(items)


class SeqO:
    """Mutable Python list with symbolic content (self.arms): kind + term."""
    kind = 'seqo'

    def __init__(self, kind, term):
        self.skind = kind
        self.term = term


class SymListO:
    """Python list of symbolic length with elements of one z3 sort: elems: Array Int -> sort."""
    kind = 'symlist'

    def __init__(self, length, elems, ekind):
        self.length = length
        self.elems = elems
        self.ekind = ekind


class NestedListO:
    """Python list (symbolic length n) of lists: lens: Array Int -> Int, elems: Array Int -> (Array Int -> PV)."""
    kind = 'nestedlist'

    def __init__(self, n, lens, elems, ekind):
        self.n = n
        self.lens = lens
        self.elems = elems
        self.ekind = ekind


RArrSort = z3.ArraySort(Arm, Real)
VKIND_SORT = {'rngstate': Rng, 'dict.keys': ASeq, 'dict.vals': RArrSort, 'real': Real, 'bool': Bool, 'optarm': OptArm, 'mat': Mat, 'rseq': RSeq, 'int': Int, 'arm': Arm,
              'opaque': Opaque, 'rng': Int, 'aseq': ASeq, 'iseq': ISeq}


def wrap(vkind, term):
    v = _wrap(vkind, term)
    if vkind in ('mat', 'rseq', 'aseq', 'iseq'):
        v.maybe_none = True
    return v


def _wrap(vkind, term):
    if vkind in ('real', 'int'):
        return Num(term)
    if vkind == 'bool':
        return BoolV(term)
    if vkind == 'optarm':
        return OptArmV(term)
    if vkind == 'arm':
        return ArmV(term)
    if vkind == 'mat':
        return MatV(term)
    if vkind == 'rseq':
        return SeqV('R', term)
    if vkind == 'aseq':
        return SeqV('A', term)
    if vkind == 'iseq':
        return SeqV('I', term)
    if vkind == 'opaque':
        return OpaqueV(term)
    if vkind == 'rngstate':
        return OpaqueV(term, 'rngstate')
    raise Unsupported('wrap ' + vkind)


class State:
    _loc = [0]

    def __init__(self):
        self.env = {}
        self.heap = {}
        self.pc = []
        self.pck = []              # parallel to pc: 'B' branch decision, 'A' assumed fact
        self.written = set()       # (loc, field) pairs written by the function under verification
        self.fresh = set()         # locs allocated by the function under verification
        self.notes = []            # library contracts / callee contracts used on this path
        self.rngheap = None        # z3 array: rng ref (Int) -> RngState
        self.draws = []            # ghost draw log

    def clone(self):
        s = State()
        s.env = dict(self.env)
        s.heap = dict(self.heap)
        s.pc = list(self.pc)
        s.pck = list(self.pck)
        s.written = set(self.written)
        s.fresh = set(self.fresh)
        s.notes = list(self.notes)
        s.rngheap = self.rngheap
        s.draws = list(self.draws)
        return s

    def alloc(self, obj, fresh=True):
        State._loc[0] += 1
        loc = State._loc[0]
        self.heap[loc] = obj
        if fresh:
            self.fresh.add(loc)
        return Ref(loc)

    def assume(self, f, kind='A'):
        self.pc.append(f)
        self.pck.append(kind)
