"""Vector / matrix operators (assumptions A3, A4).  Matrices are abstract; shape-dependent NumPy behaviour
(broadcasting, squeeze) forks the path on the dimensions that decide the result rank."""
import z3
from .smt import F, Arm, ASeq, RSeq, ISeq, BSeq, Mat, Int, Real, Bool, axiom, forall, fresh
from .values import *     # noqa
from . import theory as T
from .lib import real, intterm, mrows, mcols, ilen, iat
from .libnp import radd, rscale, rshift, rmul

madd = F('madd', Mat, Mat, Mat)
mscale = F('mscale', Real, Mat, Mat)
mmul = F('mmul', Mat, Mat, Mat)          # element-wise product of equal shapes
A_, B_, C_ = z3.Consts('A B C', Mat)
x_ = z3.Real('x')
axiom('madd.shape', forall([A_, B_], z3.And(mrows(madd(A_, B_)) == mrows(A_), mcols(madd(A_, B_)) == mcols(A_)),
                           [madd(A_, B_)]), ['madd'], 'algebra')
axiom('mscale.shape', forall([x_, A_], z3.And(mrows(mscale(x_, A_)) == mrows(A_), mcols(mscale(x_, A_)) == mcols(A_)),
                             [mscale(x_, A_)]), ['mscale'], 'algebra')
axiom('mmul.shape', forall([A_, B_], z3.And(mrows(mmul(A_, B_)) == mrows(A_), mcols(mmul(A_, B_)) == mcols(A_)),
                           [mmul(A_, B_)]), ['mmul'], 'algebra')


def binop(lib, run, op, a, b, inplace=False):
    if isinstance(a, SeqV) and a.kind == 'R' and isinstance(b, SeqV) and b.kind == 'R' and not a.pylist:
        if op == 'Add':
            if not run.spec_mode:
                run.emit('safe.shape', T.rlen(a.term) == T.rlen(b.term), 'operands of + have equal length')
            return SeqV('R', radd(a.term, b.term))
        if op == 'Mult':
            return SeqV('R', rmul(a.term, b.term))
        if op == 'Sub':
            return SeqV('R', radd(a.term, rscale(z3.RealVal(-1), b.term)))
    if isinstance(a, SeqV) and a.kind == 'R' and isinstance(b, (Num, BoolV)) and not a.pylist:
        if op == 'Add':
            return SeqV('R', rshift(a.term, real(b)))
        if op == 'Sub':
            return SeqV('R', rshift(a.term, -real(b)))
        if op == 'Mult':
            return SeqV('R', rscale(real(b), a.term))
        if op == 'Div':
            return SeqV('R', rscale(1 / real(b), a.term))
    if isinstance(b, SeqV) and b.kind == 'R' and isinstance(a, (Num, BoolV)) and not b.pylist:
        if op == 'Add':
            return SeqV('R', rshift(b.term, real(a)))
        if op == 'Mult':
            return SeqV('R', rscale(real(a), b.term))
    if isinstance(a, SeqV) and a.kind == 'I' and isinstance(b, Num) and op in ('Add', 'Sub'):
        k = intterm(b)
        return SeqV('I', F('ishift', ISeq, Int, ISeq)(a.term, k if op == 'Add' else -k))
    if isinstance(a, MatV) and isinstance(b, MatV):
        if op == 'Add':
            return MatV(madd(a.term, b.term))
        if op == 'Mult':
            return MatV(mmul(a.term, b.term))
    if isinstance(a, (Num, BoolV)) and isinstance(b, MatV) and op == 'Mult':
        return MatV(mscale(real(a), b.term))
    if isinstance(b, (Num, BoolV)) and isinstance(a, MatV) and op == 'Mult':
        return MatV(mscale(real(b), a.term))
    raise Unsupported('operator %s on %r and %r' % (op, a, b))
