"""Vector / matrix operators (assumptions A3, A4).  Matrices are abstract; shape-dependent NumPy behaviour
(broadcasting, squeeze) forks the path on the dimensions that decide the result rank."""
import z3
from .smt import F, Arm, ASeq, RSeq, ISeq, BSeq, Mat, Int, Real, Bool, axiom, forall, fresh
from .values import *     # noqa
from . import theory as T
from .lib import real, intterm, mrows, mcols, ilen, iat
from .libnp import radd, rscale, rshift, rmul

madd = F('madd', Mat, Mat, Mat)
mscale = F('mscale', Real, Mat, Mat)
mmul = F('mmul', Mat, Mat, Mat)          # element-wise product of equal shapes
A_, B_, C_ = z3.Consts('A B C', Mat)
x_ = z3.Real('x')
axiom('madd.shape', forall([A_, B_], z3.And(mrows(madd(A_, B_)) == mrows(A_), mcols(madd(A_, B_)) == mcols(A_)),
                           [madd(A_, B_)]), ['madd'], 'algebra')
axiom('mscale.shape', forall([x_, A_], z3.And(mrows(mscale(x_, A_)) == mrows(A_), mcols(mscale(x_, A_)) == mcols(A_)),
                             [mscale(x_, A_)]), ['mscale'], 'algebra')
axiom('mmul.shape', forall([A_, B_], z3.And(mrows(mmul(A_, B_)) == mrows(A_), mcols(mmul(A_, B_)) == mcols(A_)),
                           [mmul(A_, B_)]), ['mmul'], 'algebra')


def _shape_guard(run, cond, what):
    """NumPy raises ValueError on a shape mismatch: the mismatch is an exceptional path of the caller."""
    if run.spec_mode:
        return
    if not run.branch(cond):
        raise PyRaise('ValueError', what)


def binop(lib, run, op, a, b, inplace=False):
    if isinstance(a, SeqV) and a.kind == 'R' and isinstance(b, SeqV) and b.kind == 'R' and not a.pylist:
        if op == 'Add':
            _shape_guard(run, T.rlen(a.term) == T.rlen(b.term), 'operands could not be broadcast together')
            return SeqV('R', radd(a.term, b.term))
        if op == 'Mult':
            return SeqV('R', rmul(a.term, b.term))
        if op == 'Sub':
            return SeqV('R', radd(a.term, rscale(z3.RealVal(-1), b.term)))
    if isinstance(a, SeqV) and a.kind == 'R' and isinstance(b, (Num, BoolV)) and not a.pylist:
        if op == 'Add':
            return SeqV('R', rshift(a.term, real(b)))
        if op == 'Sub':
            return SeqV('R', rshift(a.term, -real(b)))
        if op == 'Mult':
            return SeqV('R', rscale(real(b), a.term))
        if op == 'Div':
            return SeqV('R', rscale(1 / real(b), a.term))
    if isinstance(b, SeqV) and b.kind == 'R' and isinstance(a, (Num, BoolV)) and not b.pylist:
        if op == 'Add':
            return SeqV('R', rshift(b.term, real(a)))
        if op == 'Mult':
            return SeqV('R', rscale(real(a), b.term))
    if isinstance(a, SeqV) and a.kind == 'I' and isinstance(b, Num) and op in ('Add', 'Sub'):
        k = intterm(b)
        return SeqV('I', F('ishift', ISeq, Int, ISeq)(a.term, k if op == 'Add' else -k))
    if isinstance(a, MatV) and isinstance(b, MatV):
        _shape_guard(run, z3.And(mrows(a.term) == mrows(b.term), mcols(a.term) == mcols(b.term)),
                     'operands could not be broadcast together')
        if op == 'Add':
            return MatV(madd(a.term, b.term))
        if op == 'Mult':
            return MatV(mmul(a.term, b.term))
    if isinstance(a, MatV) and isinstance(b, SeqV) and b.kind == 'R' and op == 'Mult':
        # NumPy broadcasting of (m, d) * (k,): k == d multiplies every row; d == 1 gives the (m, k) outer product
        if run.branch(mcols(a.term) == T.rlen(b.term)):
            return MatV(mrowmul(a.term, b.term))
        if run.branch(mcols(a.term) == 1):
            return MatV(mouter(mcol(a.term, 0), b.term))
        if run.branch(T.rlen(b.term) == 1):
            return MatV(mscale(T.rat(b.term, 0), a.term))
        raise PyRaise('ValueError', 'operands could not be broadcast together')
    if isinstance(a, (Num, BoolV)) and isinstance(b, MatV) and op == 'Mult':
        return MatV(mscale(real(a), b.term))
    if isinstance(b, (Num, BoolV)) and isinstance(a, MatV) and op == 'Mult':
        return MatV(mscale(real(b), a.term))
    raise Unsupported('operator %s on %r and %r' % (op, a, b))


# ------------------------------------------------------------------------------------ linear algebra
from .libcalls import reg, mrow, mat_at, _size      # noqa
from .libnp import lemask, ltmask                     # noqa

zeros = F('zeros', Int, RSeq)
ident = F('ident', Int, Mat)
mT = F('mtranspose', Mat, Mat)
mdot = F('mdot', Mat, Mat, Mat)
matvec = F('matvec', Mat, RSeq, RSeq)
vecmat = F('vecmat', RSeq, Mat, RSeq)
vdot = F('vdot', RSeq, RSeq, Real)
minv = F('minv', Mat, Mat)
rowsum = F('rowsum', Mat, RSeq)
rsqrt = F('rsqrt', RSeq, RSeq)
mzeros = F('mzeros', Int, Int, Mat)
v_, w_ = z3.Consts('v w', RSeq)
i_, d_ = z3.Ints('i d')
axiom('zeros', forall([d_], z3.Implies(d_ >= 0, T.rlen(zeros(d_)) == d_), [zeros(d_)]), ['zeros'], 'numpy')
axiom('zeros.at', forall([d_, i_], T.rat(zeros(d_), i_) == 0, [T.rat(zeros(d_), i_)]), ['zeros'], 'numpy')
axiom('zeros.sum', forall([d_], T.rsum(zeros(d_)) == 0, [T.rsum(zeros(d_))]), ['zeros'], 'numpy')
axiom('ident.shape', forall([d_], z3.Implies(d_ >= 0, z3.And(mrows(ident(d_)) == d_, mcols(ident(d_)) == d_)),
                            [ident(d_)]), ['ident'], 'numpy')
axiom('mT.shape', forall([A_], z3.And(mrows(mT(A_)) == mcols(A_), mcols(mT(A_)) == mrows(A_)), [mT(A_)]),
      ['mtranspose'], 'numpy')
axiom('mT.mT', forall([A_], mT(mT(A_)) == A_, [mT(mT(A_))]), ['mtranspose'], 'algebra')
axiom('mdot.shape', forall([A_, B_], z3.And(mrows(mdot(A_, B_)) == mrows(A_), mcols(mdot(A_, B_)) == mcols(B_)),
                           [mdot(A_, B_)]), ['mdot'], 'numpy')
axiom('matvec.len', forall([A_, v_], T.rlen(matvec(A_, v_)) == mrows(A_), [matvec(A_, v_)]), ['matvec'], 'numpy')
axiom('vecmat.len', forall([v_, A_], T.rlen(vecmat(v_, A_)) == mcols(A_), [vecmat(v_, A_)]), ['vecmat'], 'numpy')
axiom('rowsum.len', forall([A_], T.rlen(rowsum(A_)) == mrows(A_), [rowsum(A_)]), ['rowsum'], 'numpy')
axiom('rsqrt.len', forall([v_], T.rlen(rsqrt(v_)) == T.rlen(v_), [rsqrt(v_)]), ['rsqrt'], 'numpy')
axiom('rsqrt.at', forall([v_, i_], T.rat(rsqrt(v_), i_) == T.sqrt(T.rat(v_, i_)), [T.rat(rsqrt(v_), i_)]), ['rsqrt'],
      'numpy')
axiom('minv.shape', forall([A_], z3.And(mrows(minv(A_)) == mrows(A_), mcols(minv(A_)) == mcols(A_)), [minv(A_)]),
      ['minv'], 'numpy')
# row-wise reading of the vectorised expressions (A4)
axiom('matvec.at', forall([A_, v_, i_], z3.Implies(z3.And(0 <= i_, i_ < mrows(A_)), T.rat(matvec(A_, v_), i_) == vdot(mrow(A_, i_), v_)), [T.rat(matvec(A_, v_), i_)]),
      ['matvec'], 'algebra')
axiom('mdot.row', forall([A_, B_, i_], z3.Implies(z3.And(0 <= i_, i_ < mrows(A_)), mrow(mdot(A_, B_), i_) == vecmat(mrow(A_, i_), B_)), [mrow(mdot(A_, B_), i_)]),
      ['mdot'], 'algebra')
axiom('rowsum.mmul', forall([A_, B_, i_], z3.Implies(z3.And(0 <= i_, i_ < mrows(A_)), T.rat(rowsum(mmul(A_, B_)), i_) == vdot(mrow(A_, i_), mrow(B_, i_))),
                            [T.rat(rowsum(mmul(A_, B_)), i_)]), ['rowsum'], 'algebra')
# algebra used by the initial model (A3)
axiom('matvec.zeros', forall([A_, d_], z3.Implies(mcols(A_) == d_, matvec(A_, zeros(d_)) == zeros(mrows(A_))),
                             [matvec(A_, zeros(d_))]), ['matvec'], 'algebra')
axiom('vdot.zeros', forall([v_, d_], vdot(v_, zeros(d_)) == 0, [vdot(v_, zeros(d_))]), ['vdot'], 'algebra')
axiom('minv.scaled.ident', forall([x_, d_], z3.Implies(x_ != 0, minv(mscale(x_, ident(d_))) == mscale(1 / x_, ident(d_))),
                                  [minv(mscale(x_, ident(d_)))]), ['minv'], 'algebra')
axiom('mzeros.shape', forall([i_, d_], z3.Implies(z3.And(i_ >= 0, d_ >= 0),
                                                  z3.And(mrows(mzeros(i_, d_)) == i_, mcols(mzeros(i_, d_)) == d_)),
                             [mzeros(i_, d_)]), ['mzeros'], 'numpy')




@reg('np.zeros')
def _zeros(lib, run, recv, args, kw):
    sz = _size(args[0])
    if sz[0] == 'n':
        return SeqV('R', zeros(sz[1]))
    return MatV(mzeros(sz[1], sz[2]))


@reg('np.empty')
def _empty(lib, run, recv, args, kw):
    sz = _size(args[0])
    if sz[0] == 'n':
        v = fresh('empty', RSeq)
        run.st.assume(T.rlen(v) == sz[1])
        return SeqV('R', v)
    m = fresh('empty', Mat)
    run.st.assume(z3.And(mrows(m) == sz[1], mcols(m) == sz[2]))
    return MatV(m)


@reg('np.identity')
def _identity(lib, run, recv, args, kw):
    return MatV(ident(intterm(args[0] if args else kw['n'])))


@reg('mat.copy')
def _mcopy(lib, run, recv, args, kw):
    return recv


@reg('mat.astype', 'seq.astype')
def _astype(lib, run, recv, args, kw):
    if isinstance(recv, SeqV) and recv.kind == 'A':
        # casting labels depends on the labels' type (it can truncate or merge them): not arm-parametric (C20, MT3)
        raise Unsupported('arm-parametric: astype applied to arm labels')
    return recv         # A1: dtype changes of numbers are invisible


@reg('np.dot')
def _dot(lib, run, recv, args, kw):
    a, b = args
    if isinstance(a, MatV) and isinstance(b, MatV):
        _shape_guard(run, mcols(a.term) == mrows(b.term), 'np.dot: shapes not aligned')
        return MatV(mdot(a.term, b.term))
    if isinstance(a, MatV) and isinstance(b, SeqV) and b.kind == 'R':
        _shape_guard(run, mcols(a.term) == T.rlen(b.term), 'np.dot: shapes not aligned')
        return SeqV('R', matvec(a.term, b.term))
    if isinstance(a, SeqV) and a.kind == 'R' and isinstance(b, MatV):
        _shape_guard(run, T.rlen(a.term) == mrows(b.term), 'np.dot: shapes not aligned')
        return SeqV('R', vecmat(a.term, b.term))
    if isinstance(a, SeqV) and isinstance(b, SeqV) and a.kind == b.kind == 'R':
        _shape_guard(run, T.rlen(a.term) == T.rlen(b.term), 'np.dot: shapes not aligned')
        return Num(vdot(a.term, b.term))
    raise Unsupported('np.dot(%r, %r)' % (a, b))


@reg('np.linalg.inv')
def _inv(lib, run, recv, args, kw):
    a = args[0]
    run.note('lib:np.linalg.inv returns the inverse (A3); singular input not modelled (l2_lambda > 0)')
    return MatV(minv(a.term))


@reg('np.sum')
def _npsum(lib, run, recv, args, kw):
    a = args[0]
    ax = kw.get('axis', args[1] if len(args) > 1 else None)
    if isinstance(a, MatV) and isinstance(ax, Num) and ax.concrete() == 1:
        return SeqV('R', rowsum(a.term))
    if isinstance(a, SeqV) and a.kind == 'R' and (ax is None or isinstance(ax, NoneV)):
        return Num(T.rsum(a.term))
    raise Unsupported('np.sum arguments')


@reg('np.where')
def _where(lib, run, recv, args, kw):
    m = args[0]
    if len(args) == 1 and isinstance(m, SeqV) and m.kind == 'B':
        return TupleV([SeqV('I', where(m.term))])
    raise Unsupported('np.where arguments')


@reg('seq.nonzero')
def _nonzero(lib, run, recv, args, kw):
    if recv.kind == 'B':
        return TupleV([SeqV('I', where(recv.term))])
    raise Unsupported('nonzero of non-mask')


@reg('seq.reshape')
def _reshape(lib, run, recv, args, kw):
    if len(args) == 1 and isinstance(args[0], Num) and args[0].concrete() == -1:
        return recv
    if len(args) == 2 and all(isinstance(a, Num) and a.concrete() is not None for a in args) and recv.kind == 'R':
        a, b = args[0].concrete(), args[1].concrete()
        from .libcalls import row1
        if (a, b) == (-1, 1):
            return MatV(F('col1', RSeq, Mat)(recv.term))
        if (a, b) == (1, -1):
            return MatV(row1(recv.term))
    raise Unsupported('reshape of a vector')


where = F('where', BSeq, ISeq)
iota = F('iota', Int, ISeq)
m_ = z3.Const('m', BSeq)
u_ = z3.Const('u', ISeq)
k_ = z3.Int('k')
axiom('where.len', forall([m_], ilen(where(m_)) == T.bcnt(m_), [where(m_)]), ['where'], 'numpy')
axiom('where.all', forall([m_], z3.Implies(T.bcnt(m_) == T.blen(m_), where(m_) == iota(T.blen(m_))), [where(m_)]),
      ['where'], 'numpy')
axiom('where.at', forall([m_, k_], z3.Implies(z3.And(0 <= k_, k_ < T.bcnt(m_)),
                                              z3.And(0 <= iat(where(m_), k_), iat(where(m_), k_) < T.blen(m_),
                                                     T.bat(m_, iat(where(m_), k_)))), [iat(where(m_), k_)]),
      ['where'], 'numpy')
axiom('iota.len', forall([d_], z3.Implies(d_ >= 0, ilen(iota(d_)) == d_), [iota(d_)]), ['iota'], 'numpy')
axiom('iota.at', forall([d_, i_], z3.Implies(z3.And(0 <= i_, i_ < d_), iat(iota(d_), i_) == i_), [iat(iota(d_), i_)]), ['iota'], 'numpy')
mtake = F('mtake', Mat, ISeq, Mat)
rtake = F('rtake', RSeq, ISeq, RSeq)
atake = F('atake', ASeq, ISeq, ASeq)
s_ = z3.Const('s', ASeq)
axiom('mtake.shape', forall([A_, u_], z3.And(mrows(mtake(A_, u_)) == ilen(u_), mcols(mtake(A_, u_)) == mcols(A_)),
                            [mtake(A_, u_)]), ['mtake'], 'numpy')
axiom('mtake.row', forall([A_, u_, i_], z3.Implies(z3.And(0 <= i_, i_ < ilen(u_)), mrow(mtake(A_, u_), i_) == mrow(A_, iat(u_, i_))), [mrow(mtake(A_, u_), i_)]),
      ['mtake'], 'numpy')
axiom('mtake.iota', forall([A_], mtake(A_, iota(mrows(A_))) == A_, [mtake(A_, iota(mrows(A_)))]), ['mtake'], 'numpy')
axiom('rtake.len', forall([v_, u_], T.rlen(rtake(v_, u_)) == ilen(u_), [rtake(v_, u_)]), ['rtake'], 'numpy')
axiom('rtake.at', forall([v_, u_, i_], z3.Implies(z3.And(0 <= i_, i_ < ilen(u_)), T.rat(rtake(v_, u_), i_) == T.rat(v_, iat(u_, i_))), [T.rat(rtake(v_, u_), i_)]),
      ['rtake'], 'numpy')
axiom('rtake.where', forall([v_, m_], rtake(v_, where(m_)) == T.rsel(v_, m_), [rtake(v_, where(m_))]), ['rtake'],
      'numpy')
axiom('atake.len', forall([s_, u_], T.alen(atake(s_, u_)) == ilen(u_), [atake(s_, u_)]), ['atake'], 'numpy')
axiom('atake.at', forall([s_, u_, i_], z3.Implies(z3.And(0 <= i_, i_ < ilen(u_)), T.aat(atake(s_, u_), i_) == T.aat(s_, iat(u_, i_))), [T.aat(atake(s_, u_), i_)]),
      ['atake'], 'numpy')
msel = F('msel', Mat, BSeq, Mat)
axiom('msel.where', forall([A_, m_], mtake(A_, where(m_)) == msel(A_, m_), [mtake(A_, where(m_))]), ['mtake'], 'numpy')
axiom('msel.shape', forall([A_, m_], z3.And(mrows(msel(A_, m_)) == T.bcnt(m_), mcols(msel(A_, m_)) == mcols(A_)),
                           [msel(A_, m_)]), ['msel'], 'numpy')


mrowmul = F('mrowmul', Mat, RSeq, Mat)       # every row of M multiplied element-wise by v
mouter = F('mouter', RSeq, RSeq, Mat)        # outer product u v'
mcol = F('mcol', Mat, Int, RSeq)
axiom('mrowmul.shape', forall([A_, v_], z3.And(mrows(mrowmul(A_, v_)) == mrows(A_), mcols(mrowmul(A_, v_)) == mcols(A_)),
                              [mrowmul(A_, v_)]), ['mrowmul'], 'numpy')
axiom('rowsum.mrowmul', forall([A_, v_, i_], z3.Implies(z3.And(0 <= i_, i_ < mrows(A_)), T.rat(rowsum(mrowmul(A_, v_)), i_) == vdot(mrow(A_, i_), v_)),
                               [T.rat(rowsum(mrowmul(A_, v_)), i_)]), ['mrowmul'], 'algebra')
axiom('mouter.shape', forall([v_, w_], z3.And(mrows(mouter(v_, w_)) == T.rlen(v_), mcols(mouter(v_, w_)) == T.rlen(w_)),
                             [mouter(v_, w_)]), ['mouter'], 'numpy')
axiom('rowsum.mouter', forall([v_, w_, i_], z3.Implies(z3.And(0 <= i_, i_ < T.rlen(v_)), T.rat(rowsum(mouter(v_, w_)), i_) == T.rmul(T.rat(v_, i_), T.rsum(w_))),
                              [T.rat(rowsum(mouter(v_, w_)), i_)]), ['mouter'], 'algebra')
axiom('rowsum.mscale', forall([x_, A_, i_], z3.Implies(z3.And(0 <= i_, i_ < mrows(A_)), T.rat(rowsum(mscale(x_, A_)), i_) == T.rmul(x_, T.rsum(mrow(A_, i_)))),
                              [T.rat(rowsum(mscale(x_, A_)), i_)]), ['rowsum'], 'algebra')
axiom('vdot.len1', forall([v_, w_], z3.Implies(z3.And(T.rlen(v_) == 1, T.rlen(w_) == 1),
                                               vdot(v_, w_) == T.rmul(T.rat(v_, 0), T.rat(w_, 0))), [vdot(v_, w_)]),
      ['vdot'], 'algebra')
axiom('rsum.len1', forall([v_], z3.Implies(T.rlen(v_) == 1, T.rsum(v_) == T.rat(v_, 0)), [T.rsum(v_)]), ['rsum'],
      'definitional')

col1 = F('col1', RSeq, Mat)           # a vector as an (n, 1) matrix
mat11 = F('mat11', Real, Mat)
from .libcalls import row1, mcol as _mcol   # noqa
axiom('col1', forall([v_], z3.And(mrows(col1(v_)) == T.rlen(v_), mcols(col1(v_)) == 1, _mcol(col1(v_), 0) == v_),
                     [col1(v_)]), ['col1'], 'numpy')
axiom('col1.at', forall([v_, i_], z3.Implies(z3.And(0 <= i_, i_ < T.rlen(v_)), mat_at(col1(v_), i_, 0) == T.rat(v_, i_)), [mat_at(col1(v_), i_, 0)]), ['col1'], 'numpy')
axiom('mat11', forall([x_], z3.And(mrows(mat11(x_)) == 1, mcols(mat11(x_)) == 1, mat_at(mat11(x_), 0, 0) == x_),
                      [mat11(x_)]), ['mat11'], 'numpy')


@reg('np.reshape')
def _np_reshape(lib, run, recv, args, kw):
    a, shape = args[0], args[1]
    if not (isinstance(shape, TupleV) and len(shape.items) == 2):
        raise Unsupported('np.reshape to a non-2D shape')
    m, d = intterm(shape.items[0]), intterm(shape.items[1])
    if isinstance(a, MatV):
        _shape_guard(run, mrows(a.term) * mcols(a.term) == m * d, 'cannot reshape array')
        if run.branch(z3.And(mrows(a.term) == m, mcols(a.term) == d)):
            return a
        raise Unsupported('np.reshape of a matrix to a different shape')
    if isinstance(a, SeqV) and a.kind == 'R':
        _shape_guard(run, T.rlen(a.term) == m * d, 'cannot reshape array')
        if run.branch(m == 1):
            return MatV(row1(a.term))
        if run.branch(d == 1):
            return MatV(col1(a.term))
        raise Unsupported('np.reshape of a vector to a general matrix')
    if isinstance(a, Num):
        _shape_guard(run, m * d == 1, 'cannot reshape array')
        return MatV(mat11(real(a)))
    raise Unsupported('np.reshape(%r)' % (a,))

# ---- scatter of rows, list of vectors as a matrix, row-wise argmax
mscatter = F('mscatter', Mat, ISeq, Mat, Mat)        # E[idx] = V
axiom('mscatter.shape', forall([A_, u_, B_], z3.And(mrows(mscatter(A_, u_, B_)) == mrows(A_),
                                                    mcols(mscatter(A_, u_, B_)) == mcols(A_)), [mscatter(A_, u_, B_)]),
      ['mscatter'], 'numpy')
axiom('mscatter.none', forall([A_, u_, B_], z3.Implies(ilen(u_) == 0, mscatter(A_, u_, B_) == A_), [mscatter(A_, u_, B_)]),
      ['mscatter'], 'numpy')
axiom('mscatter.all', forall([A_, B_], z3.Implies(z3.And(mrows(B_) == mrows(A_), mcols(B_) == mcols(A_)),
                                                  mscatter(A_, iota(mrows(A_)), B_) == B_),
                             [mscatter(A_, iota(mrows(A_)), B_)]), ['mscatter'], 'numpy')
axiom('mT.at', forall([A_, i_, d_], mat_at(mT(A_), i_, d_) == mat_at(A_, d_, i_), [mat_at(mT(A_), i_, d_)]),
      ['mtranspose'], 'numpy')
rowargmax = F('rowargmax', Mat, ISeq)               # np.argmax(M, axis=1): first maximal column of every row (A4)
axiom('rowargmax.len', forall([A_], ilen(rowargmax(A_)) == mrows(A_), [rowargmax(A_)]), ['rowargmax'], 'numpy')
axiom('rowargmax.range', forall([A_, i_], z3.Implies(z3.And(0 <= i_, i_ < mrows(A_), mcols(A_) > 0),
                                                     z3.And(0 <= iat(rowargmax(A_), i_), iat(rowargmax(A_), i_) < mcols(A_))),
                                [iat(rowargmax(A_), i_)]), ['rowargmax'], 'numpy')
axiom('rowargmax.first', forall([A_, i_, d_], z3.Implies(z3.And(0 <= i_, i_ < mrows(A_), 0 <= d_, d_ < mcols(A_)),
                                                         z3.And(mat_at(A_, i_, d_) <= mat_at(A_, i_, iat(rowargmax(A_), i_)),
                                                                z3.Implies(mat_at(A_, i_, d_) ==
                                                                           mat_at(A_, i_, iat(rowargmax(A_), i_)),
                                                                           iat(rowargmax(A_), i_) <= d_))),
                                [(iat(rowargmax(A_), i_), mat_at(A_, i_, d_))]), ['rowargmax'], 'numpy')


@reg('np.argmax')
def _argmax(lib, run, recv, args, kw):
    a = args[0]
    ax = kw.get('axis', args[1] if len(args) > 1 else None)
    if isinstance(a, MatV) and isinstance(ax, Num) and ax.concrete() == 1:
        return SeqV('I', rowargmax(a.term))
    raise Unsupported('np.argmax arguments')


def mat_setitem(lib, run, base, key, v):
    if isinstance(key, SeqV) and key.kind == 'I' and isinstance(v, MatV):
        _shape_guard(run, z3.And(mrows(v.term) == ilen(key.term), mcols(v.term) == mcols(base.term)),
                     'shape mismatch: value array could not be broadcast to indexing result')
        return MatV(mscatter(base.term, key.term, v.term))
    raise Unsupported('matrix item assignment %r' % (key,))


def mat_of_rows(lib, run, o):
    """np.array([v0, v1, ...]) of equally long vectors: one row per vector"""
    from .lib import PV
    M = fresh('stacked', Mat)
    j = smt_bound('j', Int)
    run.st.assume(mrows(M) == o.length)
    run.st.assume(z3.ForAll([j], z3.Implies(z3.And(0 <= j, j < o.length),
                                            z3.And(mrow(M, j) == PV.get_rseq(o.elems[j]),
                                                   T.rlen(PV.get_rseq(o.elems[j])) == mcols(M))), patterns=[mrow(M, j)]))
    return MatV(M)


from .smt import bound as smt_bound     # noqa

# rowargmax.first read at the column of an arm (an instance of it, stated with a trigger E-matching can find)
axiom('rowargmax.arm', forall([A_, i_, s_, z3.Const('a', Arm)],
                              z3.Implies(z3.And(T.amem(s_, z3.Const('a', Arm)), T.alen(s_) == mcols(A_), 0 <= i_, i_ < mrows(A_)),
                                         z3.And(mat_at(A_, i_, T.apos(s_, z3.Const('a', Arm))) <=
                                                mat_at(A_, i_, iat(rowargmax(A_), i_)),
                                                z3.Implies(mat_at(A_, i_, T.apos(s_, z3.Const('a', Arm))) ==
                                                           mat_at(A_, i_, iat(rowargmax(A_), i_)),
                                                           iat(rowargmax(A_), i_) <= T.apos(s_, z3.Const('a', Arm))))),
                              [(iat(rowargmax(A_), i_), T.amem(s_, z3.Const('a', Arm)))]), ['rowargmax'], 'numpy')


# ---- concatenation, flattening, partial sorting, choice
mvstack = F('mvstack', Mat, Mat, Mat)
axiom('mvstack.shape', forall([A_, B_], z3.And(mrows(mvstack(A_, B_)) == mrows(A_) + mrows(B_),
                                               mcols(mvstack(A_, B_)) == mcols(A_)), [mvstack(A_, B_)]), ['mvstack'], 'numpy')
axiom('mvstack.row', forall([A_, B_, i_], mrow(mvstack(A_, B_), i_) == z3.If(i_ < mrows(A_), mrow(A_, i_), mrow(B_, i_ - mrows(A_))),
                            [mrow(mvstack(A_, B_), i_)]), ['mvstack'], 'numpy')


@reg('np.concatenate')
def _concatenate(lib, run, recv, args, kw):
    t = args[0]
    if not (isinstance(t, TupleV) and len(t.items) == 2):
        raise Unsupported('np.concatenate of other than two arrays')
    a, b = t.items
    if isinstance(a, NoneV) or isinstance(b, NoneV):
        raise PyRaise('ValueError', 'np.concatenate: zero-dimensional arrays cannot be concatenated')
    if isinstance(a, MatV) and isinstance(b, MatV):
        _shape_guard(run, mcols(a.term) == mcols(b.term),
                     'np.concatenate: all the input array dimensions except for the concatenation axis must match')
        return MatV(mvstack(a.term, b.term))
    sa, sb = lib.as_seq(run, a), lib.as_seq(run, b)
    if sa is not None and sb is not None and sa.kind == sb.kind and sa.kind in ('A', 'R'):
        fn = {'A': T.aconcat, 'R': T.rconcat}[sa.kind]
        return SeqV(sa.kind, fn(sa.term, sb.term))
    if isinstance(a, MatV) != isinstance(b, MatV):
        raise PyRaise('ValueError', 'np.concatenate: all the input arrays must have same number of dimensions')
    raise Unsupported('np.concatenate(%r, %r)' % (a, b))


@reg('mat.reshape')
def _mreshape(lib, run, recv, args, kw):
    if len(args) == 1 and isinstance(args[0], Num) and args[0].concrete() == -1:
        if run.entails(mcols(recv.term) == 1):
            return SeqV('R', _mcol(recv.term, 0))
        if run.entails(mrows(recv.term) == 1):
            return SeqV('R', mrow(recv.term, 0))
        raise Unsupported('flattening a general matrix')
    raise Unsupported('matrix reshape')


argpart = F('argpartition', RSeq, Int, ISeq)      # np.argpartition(v, kth)
axiom('argpartition.len', forall([v_, k_], ilen(argpart(v_, k_)) == T.rlen(v_), [argpart(v_, k_)]), ['argpartition'], 'numpy')
# A4: the first kth+1 positions hold indices whose values are <= the values at all later positions (any tie-break)
j_ = z3.Int('j')
axiom('argpartition.partition', forall([v_, k_, i_, j_], z3.Implies(z3.And(0 <= i_, i_ <= k_, k_ < j_, j_ < T.rlen(v_)),
                                                                   T.rat(v_, iat(argpart(v_, k_), i_)) <=
                                                                   T.rat(v_, iat(argpart(v_, k_), j_))),
                                       [(iat(argpart(v_, k_), i_), iat(argpart(v_, k_), j_))]), ['argpartition'], 'numpy')
axiom('argpartition.range', forall([v_, k_, i_], z3.Implies(z3.And(0 <= i_, i_ < T.rlen(v_)),
                                                            z3.And(0 <= iat(argpart(v_, k_), i_),
                                                                   iat(argpart(v_, k_), i_) < T.rlen(v_))),
                                   [iat(argpart(v_, k_), i_)]), ['argpartition'], 'numpy')
islice = F('islice', ISeq, Int, Int, ISeq)
lo_, hi_ = z3.Ints('lo hi')
axiom('islice.len', forall([u_, lo_, hi_], z3.Implies(z3.And(0 <= lo_, lo_ <= hi_, hi_ <= ilen(u_)),
                                                      ilen(islice(u_, lo_, hi_)) == hi_ - lo_), [islice(u_, lo_, hi_)]),
      ['islice'], 'numpy')
axiom('islice.at', forall([u_, lo_, hi_, i_], z3.Implies(z3.And(0 <= i_, i_ < hi_ - lo_, 0 <= lo_, hi_ <= ilen(u_)), iat(islice(u_, lo_, hi_), i_) == iat(u_, lo_ + i_)),
                          [iat(islice(u_, lo_, hi_), i_)]), ['islice'], 'numpy')


@reg('np.argpartition')
def _argpartition(lib, run, recv, args, kw):
    v, kth = args[0], args[1]
    if isinstance(v, SeqV) and v.kind == 'R':
        k = intterm(kth)
        if not run.spec_mode:
            if run.branch(z3.Not(z3.And(0 <= k, k < T.rlen(v.term)))):
                raise PyRaise('ValueError', 'np.argpartition: kth out of bounds')
        return SeqV('I', argpart(v.term, k))
    raise Unsupported('np.argpartition arguments')

# ---- general rows of a scatter, and the inverse of where()
rank = F('rank', BSeq, Int, Int)              # position of index i among the true entries of the mask
axiom('rank.def', forall([m_, i_], z3.Implies(z3.And(0 <= i_, i_ < T.blen(m_), T.bat(m_, i_)),
                                              z3.And(0 <= rank(m_, i_), rank(m_, i_) < T.bcnt(m_),
                                                     iat(where(m_), rank(m_, i_)) == i_)),
                         [rank(m_, i_)]), ['rank'], 'numpy')
axiom('where.rank', forall([m_, k_], z3.Implies(z3.And(0 <= k_, k_ < T.bcnt(m_)), rank(m_, iat(where(m_), k_)) == k_),
                           [iat(where(m_), k_)]), ['where'], 'numpy')
# E[idx] = V with idx = where(mask): rows selected by the mask come from V in order, the others keep their value
axiom('mscatter.where.in', forall([A_, m_, B_, i_],
                                  z3.Implies(z3.And(0 <= i_, i_ < mrows(A_), T.blen(m_) == mrows(A_), T.bat(m_, i_)),
                                             mrow(mscatter(A_, where(m_), B_), i_) == mrow(B_, rank(m_, i_))),
                                  [mrow(mscatter(A_, where(m_), B_), i_)]), ['mscatter'], 'numpy')
axiom('mscatter.where.out', forall([A_, m_, B_, i_],
                                   z3.Implies(z3.And(0 <= i_, i_ < mrows(A_), T.blen(m_) == mrows(A_), z3.Not(T.bat(m_, i_))),
                                              mrow(mscatter(A_, where(m_), B_), i_) == mrow(A_, i_)),
                                   [mrow(mscatter(A_, where(m_), B_), i_)]), ['mscatter'], 'numpy')


# ---- integer arrays used by the partition of query rows
ifull = F('ifull', Int, Int, ISeq)                 # np.full(n, q, dtype=int)
iaddprefix = F('iaddprefix', ISeq, Int, Int, ISeq)   # u[:k] += c
icumsum = F('icumsum', ISeq, ISeq)
icons = F('icons', Int, ISeq, ISeq)
isum = F('isum', ISeq, Int)
n_, q_, c_ = z3.Ints('n q c')
axiom('ifull.len', forall([n_, q_], z3.Implies(n_ >= 0, ilen(ifull(n_, q_)) == n_), [ifull(n_, q_)]), ['ifull'], 'numpy')
axiom('ifull.at', forall([n_, q_, i_], z3.Implies(z3.And(0 <= i_, i_ < n_), iat(ifull(n_, q_), i_) == q_), [iat(ifull(n_, q_), i_)]), ['ifull'], 'numpy')
axiom('iaddprefix.len', forall([u_, k_, c_], ilen(iaddprefix(u_, k_, c_)) == ilen(u_), [iaddprefix(u_, k_, c_)]),
      ['iaddprefix'], 'numpy')
axiom('iaddprefix.at', forall([u_, k_, c_, i_], z3.Implies(z3.And(0 <= i_, i_ < ilen(u_)), iat(iaddprefix(u_, k_, c_), i_) ==
                              iat(u_, i_) + z3.If(z3.And(0 <= i_, i_ < k_), c_, 0)), [iat(iaddprefix(u_, k_, c_), i_)]),
      ['iaddprefix'], 'numpy')
axiom('icumsum.len', forall([u_], ilen(icumsum(u_)) == ilen(u_), [icumsum(u_)]), ['icumsum'], 'numpy')
# running sums: first element, and the step  cumsum[i+1] = cumsum[i] + u[i+1]   (np.cumsum, A4)
axiom('icumsum.first', forall([u_], z3.Implies(ilen(u_) > 0, iat(icumsum(u_), 0) == iat(u_, 0)), [icumsum(u_)]),
      ['icumsum'], 'numpy')
axiom('icumsum.step', forall([u_, i_], z3.Implies(z3.And(0 <= i_, i_ + 1 < ilen(u_)),
                                                  iat(icumsum(u_), i_ + 1) == iat(icumsum(u_), i_) + iat(u_, i_ + 1)),
                             [iat(icumsum(u_), i_ + 1)]), ['icumsum'], 'numpy')
# closed form of the running sums of "q everywhere, one more on the first k entries" (lemma: induction on i)
axiom('icumsum.quota', forall([n_, q_, k_, i_], z3.Implies(z3.And(0 <= i_, i_ < n_, 0 <= k_, k_ <= n_),
                                                          iat(icumsum(iaddprefix(ifull(n_, q_), k_, 1)), i_) ==
                                                          (i_ + 1) * q_ + z3.If(i_ + 1 <= k_, i_ + 1, k_)),
                              [iat(icumsum(iaddprefix(ifull(n_, q_), k_, 1)), i_)]), ['icumsum'], 'lemma')
axiom('isum.last', forall([u_], z3.Implies(ilen(u_) > 0, isum(u_) == iat(icumsum(u_), ilen(u_) - 1)), [isum(u_)]),
      ['isum'], 'lemma')
axiom('icons.len', forall([c_, u_], ilen(icons(c_, u_)) == ilen(u_) + 1, [icons(c_, u_)]), ['icons'], 'numpy')
axiom('icons.at', forall([c_, u_, i_], iat(icons(c_, u_), i_) == z3.If(i_ == 0, c_, iat(u_, i_ - 1)),
                         [iat(icons(c_, u_), i_)]), ['icons'], 'numpy')


@reg('np.full')
def _full(lib, run, recv, args, kw):
    return SeqV('I', ifull(intterm(args[0]), intterm(args[1])))


@reg('np.cumsum')
def _cumsum(lib, run, recv, args, kw):
    a = args[0]
    if isinstance(a, SeqV) and a.kind == 'I':
        return SeqV('I', icumsum(a.term))
    raise Unsupported('np.cumsum argument')


def iseq_slice_iadd(lib, run, base, key, v):
    """u[:k] += c on an int array"""
    _, lo, hi, step = key
    if lo is None and step is None and hi is not None and isinstance(v, Num):
        return SeqV('I', iaddprefix(base.term, intterm(hi), intterm(v)))
    raise Unsupported('slice assignment on an int array')

mslice = F('mslice', Mat, Int, Int, Mat)        # M[lo:hi]
axiom('mslice.shape', forall([A_, lo_, hi_], z3.Implies(z3.And(0 <= lo_, lo_ <= hi_, hi_ <= mrows(A_)),
                                                        z3.And(mrows(mslice(A_, lo_, hi_)) == hi_ - lo_,
                                                               mcols(mslice(A_, lo_, hi_)) == mcols(A_))),
                            [mslice(A_, lo_, hi_)]), ['mslice'], 'numpy')
axiom('mslice.row', forall([A_, lo_, hi_, i_], z3.Implies(z3.And(0 <= i_, i_ < hi_ - lo_, 0 <= lo_, hi_ <= mrows(A_)), mrow(mslice(A_, lo_, hi_), i_) == mrow(A_, lo_ + i_)),
                          [mrow(mslice(A_, lo_, hi_), i_)]), ['mslice'], 'numpy')


# ---- element-level facts used by the LSH hash (C11): comparison matrix, scaled matrix, matrix product
mgt01 = F('mgt01', Mat, Real, Mat)         # 0/1 matrix of (M > x)
c_ = z3.Int('c')
for _nm, _rel in (('mgt01', lambda a, b: a > b), ('mge01', lambda a, b: a >= b), ('mlt01', lambda a, b: a < b),
                  ('mle01', lambda a, b: a <= b)):
    _f = F(_nm, Mat, Real, Mat)
    axiom(_nm + '.shape', forall([A_, x_], z3.And(mrows(_f(A_, x_)) == mrows(A_), mcols(_f(A_, x_)) == mcols(A_)),
                                 [_f(A_, x_)]), [_nm], 'numpy')
    axiom(_nm + '.at', forall([A_, x_, i_, c_], z3.Implies(
        z3.And(0 <= i_, i_ < mrows(A_), 0 <= c_, c_ < mcols(A_)),
        mat_at(_f(A_, x_), i_, c_) == z3.If(_rel(mat_at(A_, i_, c_), x_), z3.RealVal(1), z3.RealVal(0))),
        [mat_at(_f(A_, x_), i_, c_)]), [_nm], 'numpy')
axiom('mscale.at', forall([x_, A_, i_, c_], mat_at(mscale(x_, A_), i_, c_) == T.rmul(x_, mat_at(A_, i_, c_)),
                          [mat_at(mscale(x_, A_), i_, c_)]), ['mscale'], 'algebra')
axiom('mdot.at', forall([A_, B_, i_, c_], z3.Implies(z3.And(0 <= i_, i_ < mrows(A_), 0 <= c_, c_ < mcols(B_)), mat_at(mdot(A_, B_), i_, c_) == vdot(mrow(A_, i_), mcol(B_, c_))),
                        [mat_at(mdot(A_, B_), i_, c_)]), ['mdot'], 'algebra')


# np.round(x, k): rounding to k decimals is a function of the value; all the proofs may use is its shape
mround = F('mround', Mat, Int, Mat)
rround = F('rround', RSeq, Int, RSeq)
axiom('mround.shape', forall([A_, d_], z3.And(mrows(mround(A_, d_)) == mrows(A_), mcols(mround(A_, d_)) == mcols(A_)),
                             [mround(A_, d_)]), ['mround'], 'numpy')
axiom('rround.len', forall([v_, d_], T.rlen(rround(v_, d_)) == T.rlen(v_), [rround(v_, d_)]), ['rround'], 'numpy')


@reg('np.round', 'np.around')
def _np_round(lib, run, recv, args, kw):
    a = args[0]
    k = args[1] if len(args) > 1 else kw.get('decimals', Num(z3.IntVal(0)))
    if isinstance(a, MatV):
        return MatV(mround(a.term, intterm(k)))
    if isinstance(a, SeqV) and a.kind == 'R':
        return SeqV('R', rround(a.term, intterm(k)))
    if isinstance(a, (Num, BoolV)):
        return Num(F('round_to', Real, Int, Real)(real(a), intterm(k)))
    raise Unsupported('np.round(%r)' % (a,))


ishift = F('ishift', ISeq, Int, ISeq)          # u + c element-wise (index arrays)
iconcat = F('iconcat', ISeq, ISeq, ISeq)
iempty = F('iempty', ISeq)
v2_ = z3.Const('v2', ISeq)
axiom('ishift.len', forall([u_, k_], ilen(ishift(u_, k_)) == ilen(u_), [ishift(u_, k_)]), ['ishift'], 'numpy')
axiom('ishift.at', forall([u_, k_, i_], z3.Implies(z3.And(0 <= i_, i_ < ilen(u_)), iat(ishift(u_, k_), i_) == iat(u_, i_) + k_), [iat(ishift(u_, k_), i_)]), ['ishift'],
      'numpy')
axiom('ishift.zero', forall([u_], ishift(u_, 0) == u_, [ishift(u_, 0)]), ['ishift'], 'numpy')
axiom('iconcat.len', forall([u_, v2_], ilen(iconcat(u_, v2_)) == ilen(u_) + ilen(v2_), [iconcat(u_, v2_)]), ['iconcat'],
      'numpy')
axiom('iconcat.at', forall([u_, v2_, i_], iat(iconcat(u_, v2_), i_) == z3.If(i_ < ilen(u_), iat(u_, i_), iat(v2_, i_ - ilen(u_))),
                           [iat(iconcat(u_, v2_), i_)]), ['iconcat'], 'numpy')
axiom('iempty.len', ilen(iempty()) == 0, ['iempty'], 'numpy')
axiom('iconcat.empty', forall([u_, v2_], z3.And(z3.Implies(ilen(v2_) == 0, iconcat(u_, v2_) == u_),
                                                z3.Implies(ilen(u_) == 0, iconcat(u_, v2_) == v2_)), [iconcat(u_, v2_)]),
      ['iconcat'], 'numpy')
