"""Engine: ties source index, contracts, library contracts and the executor together; per-function VC generation."""
import ast
import importlib
import os
import re
import sys
import traceback
import z3
from . import smt, spec as specmod, source
from .smt import fresh, F, Arm, ASeq, RSeq, ISeq, BSeq, Mat, Rng, Opaque, Int, Real, Bool, OptArm, Obligation
from .values import *     # noqa
from . import theory as T
from .engine import Run, PathCtx, Frame, ReturnSignal, to_bool_term, const_val
from . import contracts as C
from .lib import Lib, RArr, mrows, mcols
from . import laws     # noqa: F401  (registers the lemma-kind axioms)

BUILTINS = {'len', 'max', 'min', 'sum', 'dict', 'list', 'set', 'zip', 'enumerate', 'range', 'isinstance', 'issubclass',
            'type', 'callable', 'int', 'float', 'str', 'hasattr', 'bool', 'tuple', 'abs', 'sorted', 'id', 'hash',
            'print', 'getattr', 'setattr', 'map', 'filter', 'any', 'all', 'round', 'iter', 'next', 'open', 'eval',
            'exec', 'globals', 'locals', 'vars', 'input', 'reversed', 'frozenset', 'bytes', 'object'}
EXC_NAMES = {'ValueError', 'TypeError', 'Exception', 'NotImplementedError', 'KeyError', 'IndexError', 'AssertionError',
             'AttributeError', 'RuntimeError'}
LIB_ALIASES = {'numpy': 'np', 'pandas': 'pd', 'multiprocessing': 'mp', 'matplotlib.pyplot': 'plt', 'seaborn': 'sns'}
LIB_CLASSES = {'np.Generator', 'StandardScaler'}

STATUS_COLS = {'is_trained': 'bool', 'is_warm': 'bool', 'warm_started_by': 'optarm'}


class Engine:
    def __init__(self, repo=None, prune=True):
        self.repo = repo or source.Repo()
        self.lib = Lib(self)
        self.prune = prune
        self.lib_classes = LIB_CLASSES
        self.specs = specmod.FUNCS
        self.unsupported = []

    # ------------------------------------------------------------------------------------- lookups
    def spec_for(self, qual, dyn_cls=None):
        return specmod.lookup(self.repo, qual, dyn_cls)

    def allow_inline(self, fi):
        # functions without a contract are executed in place (their callers carry the obligation)
        return True

    def locname(self, run, loc):
        names = getattr(run, 'names', {})
        return names.get(loc, 'loc%d' % loc)

    def resolve_global(self, run, module, name):
        if run.spec_mode:
            from . import specfns
            if name in specfns.SPECFNS:
                return Lazy('specfn', payload=specfns.SPECFNS[name])
        repo = self.repo
        if module is not None:
            if name in repo.classes and repo.classes[name].module == module:
                return ClassRef(name)
            q = '%s.%s' % (module, name)
            if q in repo.funcs:
                return FuncRef(q)
            if name in repo.globals.get(module, {}):
                return self.eval_module_constant(run, module, repo.globals[module][name])
            imp = repo.imports.get(module, {}).get(name)
            if imp is not None:
                m, n = imp
                if m and m.startswith('mabwiser'):
                    sub = m.split('.', 1)[1] if '.' in m else None
                    if n is None:
                        return LibRef('mabwiser')
                    if n in repo.classes:
                        return ClassRef(n)
                    if sub and '%s.%s' % (sub, n) in repo.funcs:
                        return FuncRef('%s.%s' % (sub, n))
                    if sub and n in repo.globals.get(sub, {}):
                        return self.eval_module_constant(run, sub, repo.globals[sub][n])
                    if sub and n in repo.imports.get(sub, {}):
                        return self.resolve_global(run, sub, n)
                    raise Unsupported('import %s from %s' % (n, m))
                base = LIB_ALIASES.get(m, m)
                return LibRef(base if n is None else '%s.%s' % (base, n))
        if name in repo.classes:
            return ClassRef(name)
        if name in BUILTINS:
            return LibRef('builtins.' + name)
        if name in EXC_NAMES:
            return LibRef('exc.' + name)
        raise Unsupported('unresolved name %s' % name)

    def eval_module_constant(self, run, module, node):
        if isinstance(node, ast.Constant):
            return const_val(node.value)
        if isinstance(node, ast.UnaryOp) and isinstance(node.op, ast.USub) and isinstance(node.operand, ast.Constant):
            return const_val(-node.operand.value)
        raise Unsupported('module-level value that is not a constant (no-ambient-state discipline)')

    def class_attr_value(self, run, cls, attr):
        node, owner = self.repo.lookup_class_attr(cls, attr)
        if isinstance(node, ast.Constant):
            return const_val(node.value)
        if isinstance(node, ast.Dict) and all(isinstance(k, ast.Constant) for k in node.keys):
            # class-level constant table (e.g. _Linear.factory): must be read-only (no-ambient-state, C04)
            fields = {}
            for k, v in zip(node.keys, node.values):
                run.frames.append(Frame(None, {}, None))
                try:
                    fields[k.value] = self.resolve_global(run, self.repo.classes[owner].module, v.id) \
                        if isinstance(v, ast.Name) else None
                finally:
                    run.frames.pop()
            return RecordV(fields)
        if isinstance(node, ast.List) and all(isinstance(e, ast.Constant) for e in node.elts):
            return run.st.alloc(ListO([const_val(e.value) for e in node.elts]))
        raise Unsupported('class attribute %s.%s' % (cls, attr))

    def eval_default(self, run, fi, node):
        if isinstance(node, ast.Constant):
            return const_val(node.value)
        run.frames.append(Frame(fi, {}, None))
        try:
            return run.ev(node)
        finally:
            run.frames.pop()

    def isinstance_one(self, run, v, k):
        """True / False / z3 Bool."""
        if isinstance(k, ClassRef):
            if isinstance(v, Ref):
                o = run.deref(v)
                if isinstance(o, Obj):
                    return self.repo.is_subclass(o.cls, k.name) if o.cls in self.repo.classes else False
            if isinstance(v, OpaqueV) and v.what.startswith('policy:'):
                return v.what == 'policy:' + k.name
            return False
        if isinstance(k, LibRef):
            nm = k.name
            from . import libarraylike as AL
            if AL.is_al(v):
                return AL.isinstance_al(v, nm)
            if nm == 'builtins.dict':
                return isinstance(v, RecordV) or (isinstance(v, Ref) and isinstance(run.deref(v), MapO))
            if nm in ('typing.List', 'typing.Dict'):
                nm = 'builtins.list' if nm == 'typing.List' else 'builtins.dict'
            if nm == 'builtins.list':
                return (isinstance(v, SeqV) and v.pylist) or \
                       (isinstance(v, Ref) and isinstance(run.deref(v), (ListO, SeqO, SymListO)))
            if nm in ('builtins.int', 'builtins.float'):
                if isinstance(v, Num):
                    return v.is_int == (nm == 'builtins.int')
                return False
            if nm == 'builtins.str':
                return isinstance(v, StrV) or (isinstance(v, OpaqueV) and v.what == 'str')
            if nm == 'builtins.bool':
                return isinstance(v, BoolV)
            if nm == 'np.ndarray':
                return (isinstance(v, SeqV) and not v.pylist) or isinstance(v, MatV)
            if nm in ('pd.Series', 'pd.DataFrame'):
                return False
            if nm.startswith('sklearn') or nm in ('MiniBatchKMeans', 'KMeans'):
                if isinstance(v, OpaqueV):
                    return F('isinst_' + nm.split('.')[-1], Opaque, Bool)(v.term)
        raise Unsupported('isinstance(%r, %r)' % (v, k))

    # --------------------------------------------------------------------------------- materialise
    def materialise(self, run, desc, name, allow_split=True, st=None):
        st = st or run.st
        desc = desc.strip()
        if desc.endswith(' const'):
            desc = desc[:-6].strip()
        if desc.startswith('opt:'):
            inner = desc[4:]
            if allow_split:
                if run.path.choice(2) == 0:
                    return NONE
                return self.materialise(run, inner, name, allow_split, st)
            return self.materialise(run, inner, name, allow_split, st)
        if desc == 'real':
            return Num(fresh(name, Real))
        if desc == 'int':
            return Num(fresh(name, Int))
        if desc == 'nat':
            v = fresh(name, Int)
            st.assume(v >= 0)
            return Num(v)
        if desc == 'bool':
            return BoolV(fresh(name, Bool))
        if desc == 'flag':
            # a boolean mode switch: verified separately for True and for False (case split at entry)
            k = run.path.choice(2)
            run.choices = getattr(run, 'choices', []) + ['%s=%s' % (name, bool(k))]
            return BoolV(bool(k))
        if desc == 'arm':
            return ArmV(fresh(name, Arm))
        if desc in ('aseq', 'rseq', 'iseq', 'bseq'):
            return SeqV(desc[0].upper(), fresh(name, SeqV.SORT[desc[0].upper()]))
        if desc in ('alist', 'rlist', 'ilist'):
            return SeqV(desc[0].upper(), fresh(name, SeqV.SORT[desc[0].upper()]), True)
        if desc == 'map:stats':
            # {arm: {'count':.., 'sum':.., 'min':.., 'max':.., 'mean':.., 'std':..}}
            cols = {f: fresh('%s_%s' % (name, f), z3.ArraySort(Arm, Real)) for f in ('count', 'sum', 'min', 'max', 'mean', 'std')}
            return st.alloc(MapO(fresh(name + '_keys', ASeq), cols, {f: 'real' for f in cols}), fresh=False)
        if desc == 'split6':
            # (train decisions, train rewards, train contexts, test decisions, test rewards, test contexts)
            def part(tag):
                return [SeqV('A', fresh('%s_%s_d' % (name, tag), ASeq)), SeqV('R', fresh('%s_%s_r' % (name, tag), RSeq)),
                        MatV(fresh('%s_%s_x' % (name, tag), Mat))]
            return TupleV(part('train') + part('test'))
        if desc.startswith('record:'):
            # a dictionary literal with the given string keys and numeric values
            return RecordV({f.strip(): Num(fresh('%s_%s' % (name, f.strip()), Real)) for f in desc[7:].split(',')})
        if desc.startswith('imap:'):
            # dict keyed by range(n): LSH hyperplanes ('imap:mat') and hash tables ('imap:hashtab')
            vk = desc.split(':')[1]
            n = fresh(name + '_n', Int)
            st.assume(n >= 0)
            sort = {'mat': z3.ArraySort(Int, Mat), 'hashtab': z3.ArraySort(Int, z3.ArraySort(Real, ISeq))}[vk]
            return st.alloc(IMapO(n, fresh(name + '_vals', sort), vk), fresh=False)
        if desc == 'mat':
            return MatV(fresh(name, Mat))
        if desc in ('opaque', 'str', 'callable', 'optstr', 'optopaque'):
            v = OpaqueV(fresh(name, Opaque), 'str' if 'str' in desc else desc)
            if desc in ('str', 'callable'):
                st.assume(z3.Not(run_isnone(v.term)))
            return v
        if desc == 'parallel_result':
            # a single per-row value (arm or dict) for one row, else the list of per-row values
            from .lib import PVArr
            ctx = run.mat_env.get('contexts')
            isp = run.mat_env.get('is_predict')
            single = run.branch(mrows(ctx.term) == 1)
            from .engine import to_bool_term
            if not single:
                ek = 'arm' if run.branch(to_bool_term(isp)) else 'dict'
                return st.alloc(SymListO(fresh(name + '_len', Int), fresh(name + '_elems', PVArr), ek))
            if run.branch(to_bool_term(isp)):
                return ArmV(fresh(name, Arm))
            return st.alloc(MapO(fresh(name + '_keys', ASeq), {'': fresh(name + '_vals', RArr)}, {'': 'real'}))
        if desc.startswith('arraylike:'):
            v = OpaqueV(fresh(name, Opaque), desc)
            st.assume(z3.Not(run_isnone(v.term)))
            return v
        if desc == 'partition':
            return TupleV([Num(fresh(name + '_jobs', Int)), SeqV('I', fresh(name + '_counts', ISeq), True),
                           SeqV('I', fresh(name + '_starts', ISeq), True)])
        if desc == 'optrlist':
            v = SeqV('R', fresh(name, RSeq), True)      # an optional list: None is a distinguished value of the sort
            v.maybe_none = True
            return v
        if desc == 'indices':
            # np.where(...) tuple, np.argpartition(...) slice, or a list of ints
            k = run.path.choice(2)
            seq = SeqV('I', fresh(name, ISeq), k == 1)
            return TupleV([seq]) if k == 0 else seq
        if desc == 'list:pv':
            from .lib import PVArr
            from .engine import to_bool_term
            ek = None
            isp = (getattr(run, 'mat_env', None) or {}).get('is_predict')
            if isp is not None:
                ek = 'arm' if run.branch(to_bool_term(isp)) else 'dict'
            return st.alloc(SymListO(fresh(name + '_len', Int), fresh(name + '_elems', PVArr), ek), fresh=False)
        if desc == 'scaler':
            return st.alloc(Obj('StandardScaler', {'state': OpaqueV(fresh(name, Opaque), 'scaler')}), fresh=False)
        if desc.startswith('str:{'):
            alts = [x.strip() for x in desc[4:].strip('{}').split('|')]
            forced = getattr(run, 'forced_cls', {}).get(name)
            k = forced if forced else alts[run.path.choice(len(alts))]
            run.choices = getattr(run, 'choices', []) + ['%s=%s' % (name.split('_')[-1], k)]
            return StrV(k)
        if desc == 'binarizer':
            v = OpaqueV(fresh(name, Opaque), 'binarizer')
            st.assume(z3.Not(run_isnone(v.term)))
            return v
        if desc == 'optbinarizer':
            return OpaqueV(fresh(name, Opaque), 'binarizer')
        if desc == 'rngstate':
            return OpaqueV(fresh(name, Rng), 'rngstate')
        if desc == 'none':
            return NONE
        if desc == 'optarm':
            return OptArmV(fresh(name, OptArm))
        if desc == 'list:arm':
            return st.alloc(SeqO('A', fresh(name, ASeq)), fresh=False)
        if desc == 'list:real':
            return st.alloc(SeqO('R', fresh(name, RSeq)), fresh=False)
        if desc == 'rng':
            gen = st.alloc(Obj('np.Generator', {'state': OpaqueV(fresh(name + '_state', Rng), 'rngstate')}), fresh=False)
            return st.alloc(Obj('_NumpyRNG', {'seed': Num(fresh(name + '_seed', Int)), 'rng': gen}), fresh=False)
        if desc.startswith('map:'):
            k = desc[4:]
            if k == 'status':
                cols, vk = {}, {}
                for c, kind in STATUS_COLS.items():
                    cols[c] = fresh(name + '_' + c, z3.ArraySort(Arm, VKIND_SORT[kind]))
                    vk[c] = kind
                return st.alloc(MapO(fresh(name + '_keys', ASeq), cols, vk), fresh=False)
            if k == 'dict':
                return st.alloc(MapO(fresh(name + '_keys', ASeq),
                                     {'#keys': fresh(name + '_ikeys', z3.ArraySort(Arm, ASeq)),
                                      '#vals': fresh(name + '_ivals', z3.ArraySort(Arm, RArr))},
                                     {'#keys': 'dict.keys', '#vals': 'dict.vals'}), fresh=False)
            if k in VKIND_SORT:
                return st.alloc(MapO(fresh(name + '_keys', ASeq),
                                     {'': fresh(name, z3.ArraySort(Arm, VKIND_SORT[k]))}, {'': k}), fresh=False)
            if k in self.repo.classes:
                cols, vk = {}, {}
                for f, d in specmod.class_fields(self.repo, k).items():
                    d = d.replace(' const', '').strip()
                    kind = RECORD_KINDS.get(d)
                    if kind is None:
                        raise Unsupported('record map column %s: %s' % (f, d))
                    cols[f] = fresh(name + '_' + f, z3.ArraySort(Arm, VKIND_SORT[kind]))
                    vk[f] = kind
                return st.alloc(MapO(fresh(name + '_keys', ASeq), cols, vk, record_cls=k), fresh=False)
            raise Unsupported('map kind ' + k)
        if desc.startswith('like:'):
            # an object of the same class (and variant) as the one at this path from self, e.g. like:self.lp
            v = run.mat_env
            for part in desc[5:].split('.'):
                v = v[part] if isinstance(v, dict) else st.heap[v.loc].fields[part]
            o = st.heap[v.loc]
            forced = dict(getattr(run, 'forced_cls', {}))
            if 'regression' in o.fields and isinstance(o.fields['regression'], StrV):
                forced[name + '_regression'] = o.fields['regression'].s
            saved = getattr(run, 'forced_cls', {})
            run.forced_cls = forced
            try:
                return self.new_symbolic_object(run, o.cls, name, st)
            finally:
                run.forced_cls = saved
        if desc.startswith('obj:'):
            k = desc[4:]
            if k.startswith('{'):
                alts = [x.strip() for x in k.strip('{}').split('|')]
                forced = getattr(run, 'forced_cls', {}).get(name)
                if forced:
                    k = forced
                else:
                    if not allow_split:
                        raise Unsupported('polymorphic havoc')
                    k = alts[run.path.choice(len(alts))]
                run.choices = getattr(run, 'choices', []) + ['%s=%s' % (name, k)]
            return self.new_symbolic_object(run, k, name, st)
        raise Unsupported('type descriptor %r' % desc)

    def new_symbolic_object(self, run, cls, name, st):
        fields = {}
        decls = specmod.class_fields(self.repo, cls)
        if not decls and cls not in specmod.CLASSES:
            raise Unsupported('no class spec for ' + cls)
        ref = st.alloc(Obj(cls, {}), fresh=False)
        for f, d in decls.items():
            if d.startswith('alias:'):
                continue
            fields[f] = self.materialise(run, d, '%s_%s' % (name, f), True, st)
        st.heap[ref.loc] = Obj(cls, fields)
        # aliases: field = same object as another access path (relative to this object)
        for f, d in decls.items():
            if d.startswith('alias:'):
                pass
        for c in reversed(self.repo.mro(cls)):
            cs = specmod.CLASSES.get(c)
            if cs is None:
                continue
            for dst, src in (cs.views or []):
                self._alias(run, st, ref, dst, src)
            if cs.setup is not None:
                cs.setup(run, st, ref)
        return ref

    def record_map(self, run, st, name, cls, shared_rng=None):
        """dict arm -> object of class `cls`, one column per declared field (the rng field becomes a slot that is
        either the bandit's shared generator or a private copy)."""
        cols, vk = {}, {}
        for f, d in specmod.class_fields(self.repo, cls).items():
            d = d.replace(' const', '').strip()
            if d == 'rng':
                cols['#rng_shared'] = fresh(name + '_rng_shared', z3.ArraySort(Arm, Bool))
                cols['#rng_state'] = fresh(name + '_rng_state', z3.ArraySort(Arm, Rng))
                vk['#rng_shared'] = 'bool'
                vk['#rng_state'] = 'rngstate'
                continue
            kind = RECORD_KINDS.get(d)
            if kind is None:
                raise Unsupported('record map column %s: %s' % (f, d))
            cols[f] = fresh(name + '_' + f, z3.ArraySort(Arm, VKIND_SORT[kind]))
            vk[f] = kind
        m = MapO(fresh(name + '_keys', ASeq), cols, vk, record_cls=cls)
        m.shared_rng = shared_rng
        return st.alloc(m, fresh=False)

    def _alias(self, run, st, ref, dst, src):
        def walk(path):
            v = ref
            for p in path.split('.'):
                v = st.heap[v.loc].fields[p]
            return v
        target = walk(src)
        parts = dst.split('.')
        holder = ref
        for p in parts[:-1]:
            holder = st.heap[holder.loc].fields[p]
        st.heap[holder.loc] = st.heap[holder.loc].set(parts[-1], target)

    def havoc_field_value(self, run, st, cls, f):
        decl = specmod.class_fields(self.repo, cls).get(f)
        if decl is None:
            raise Unsupported('loop-carried undeclared field %s.%s' % (cls, f))
        return self.materialise(run, decl, 'lc_' + f, allow_split=False, st=st)

    # ---------------------------------------------------------------------------------- construction
    def construct(self, run, cls, args, kwargs):
        if cls in self.repo.classes and 'NamedTuple' in self.repo.classes[cls].bases:
            ci = self.repo.classes[cls]
            fields = {}
            pos = list(args)
            for nm, dflt in ci.ann_fields:
                if pos:
                    fields[nm] = pos.pop(0)
                elif nm in kwargs:
                    fields[nm] = kwargs[nm]
                elif dflt is not None:
                    fields[nm] = self.eval_default(run, None, dflt)
                else:
                    raise PyRaise('TypeError', 'missing argument ' + nm)
            return run.st.alloc(Obj(cls, fields))
        if cls in self.repo.classes:
            ref = run.st.alloc(Obj(cls, {}))
            init = self.repo.lookup_method(cls, '__init__')
            if init is not None:
                run.call_user(init, ref, args, kwargs, dyn_cls=cls)
            return ref
        raise Unsupported('construction of ' + cls)

    def dict_from_genexp(self, run, lazy):
        from . import loops
        n = lazy.node
        if len(n.generators) != 1 or n.generators[0].ifs:
            raise Unsupported('dict(genexp) shape')
        g = n.generators[0]
        dom = loops.domain_of(run, run.ev(g.iter))
        if dom.items is not None or dom.arm_seq is None:
            raise Unsupported('dict(genexp) over non-arm sequence')

        def body(elem):
            run.assign(g.target, elem)
            v = run.ev(n.elt)
            if not (isinstance(v, TupleV) and len(v.items) == 2):
                raise Unsupported('dict(genexp) element')
            return v
        return loops.build_map_from_pairs(run, dom, body, 'line %d' % n.lineno)

    def telescope_hint(self, run):
        """Name of the local variable holding the chunk boundaries, from the spec of the function being executed."""
        fr = run.frames[-1]
        if fr.fi is None:
            return None
        sp = self.spec_for(fr.fi.qual, fr.self_cls)
        nm = getattr(sp, 'telescope', None) if sp is not None else None
        if nm is None:
            for f in reversed(run.frames):
                if f.fi is not None:
                    sp2 = self.spec_for(f.fi.qual, f.self_cls)
                    nm = getattr(sp2, 'telescope', None) if sp2 is not None else None
                    if nm:
                        fr = f
                        break
        if nm and nm in fr.env:
            return self.lib.as_seq(run, fr.env[nm])
        return None

    def class_decls(self, cls):
        return specmod.class_fields(self.repo, cls)

    def loop_invariant(self, run, where):
        """Explicit invariant of the loop at `where` (a line) from the sidecar spec, keyed by loop ordinal."""
        fr = run.frames[-1]
        if fr.fi is None:
            return None
        sp = self.spec_for(fr.fi.qual, fr.self_cls)
        if sp is None or not sp.loops:
            return None
        import ast as _ast
        line = int(where.split()[-1])
        fors = sorted(n.lineno for n in _ast.walk(fr.fi.node) if isinstance(n, (_ast.For, _ast.ListComp, _ast.DictComp,
                                                                                 _ast.GeneratorExp)))
        if line not in fors:
            return None
        clauses = sp.loops.get(fors.index(line))
        if not clauses:
            return None
        return LoopInv(self, run, fr, [specmod.Clause(c) if not isinstance(c, specmod.Clause) else c for c in clauses], where)

    def loop_raise(self, run, exc, st1, B, A, where):
        run.pending_raises = getattr(run, 'pending_raises', []) + [(exc, st1, where)]

    def lib_unique_num(self, run, s):
        raise Unsupported('np.unique of numbers')

    # ---------------------------------------------------------------------------------- verification
    def verify(self, qual, dyn_cls=None, forced=None):
        """Generate all obligations of function `qual` (receiver class dyn_cls).  Returns (obligations, problems)."""
        fi = self.repo.funcs[qual]
        cls = dyn_cls or fi.cls
        sp = self.spec_for(qual, cls)
        label = qual + ('[%s]' % cls if cls and cls != fi.cls else '')
        obligs = []
        problems = []
        scripts = [[]]
        npaths = 0
        covered = False
        nonparam = []
        while scripts:
            script = scripts.pop()
            run = Run(self, PathCtx(script))
            run.fname = qual
            run.label = label
            run.cur_props = sp.props
            run.top_spec = sp
            run.forced_cls = forced or {}
            try:
                self._verify_path(run, fi, sp, cls, first=not covered)
                covered = True
            except Infeasible:
                pass
            except Unsupported as e:
                if str(e).startswith('hash-order') and not fi.module.startswith('lemma_'):
                    nonparam.append(str(e))
                    ob = Obligation('%s:hash.order' % label, qual, 'hash.order', list(run.st.pc), z3.BoolVal(False),
                                    props=tuple(set(sp.props) | {'C04', 'C19', 'C20'}),
                                    meta={'clause': 'no result depends on the iteration order of a set of labels (%s)' % e})
                    ob.path = list(run.path.taken)
                    run.obligs.append(ob)
                elif str(e).startswith('arm-parametric') and not fi.module.startswith('lemma_'):
                    # MT3 side condition (C20): an arm label flows into an operation other than ==, hashing, storage
                    nonparam.append(str(e))
                    ob = Obligation('%s:arm.parametric' % label, qual, 'arm.parametric', list(run.st.pc),
                                    z3.BoolVal(False), props=tuple(set(sp.props) | {'C20'}),
                                    meta={'clause': 'arm labels are used only through equality, dict/list storage and '
                                                    'membership (%s)' % e})
                    ob.path = list(run.path.taken)
                    run.obligs.append(ob)
                elif str(e).startswith('copy-universe') and not fi.module.startswith('lemma_'):
                    nonparam.append(str(e))
                    ob = Obligation('%s:attr.universe' % label, qual, 'attr.universe', list(run.st.pc), z3.BoolVal(False),
                                    props=tuple(set(sp.props) | {'C19'}), meta={'clause': str(e)})
                    ob.path = list(run.path.taken)
                    run.obligs.append(ob)
                else:
                    problems.append((label, 'unsupported', str(e), list(run.path.taken)))
            except RecursionError:
                problems.append((label, 'unsupported', 'recursion limit', list(run.path.taken)))
            obligs.extend(run.obligs)
            scripts.extend(run.path.alternatives)
            npaths += 1
            if npaths > 3000:
                problems.append((label, 'unsupported', 'path explosion', []))
                break
        if not nonparam and not fi.module.startswith('lemma_'):
            ob = Obligation('%s:arm.parametric' % label, qual, 'arm.parametric', [], z3.BoolVal(True),
                            props=tuple(set(sp.props) | {'C20'}),
                            meta={'clause': 'arm labels are used only through equality, dict/list storage and membership '
                                            '(checked on every explored path by the translation itself)'})
            ob.path = []
            obligs.append(ob)
            ob = Obligation('%s:hash.order' % label, qual, 'hash.order', [], z3.BoolVal(True),
                            props=tuple(set(sp.props) | {'C04', 'C19', 'C20'}),
                            meta={'clause': 'no explored path iterates over a set of arm labels'})
            ob.path = []
            obligs.append(ob)
            ob = Obligation('%s:attr.universe' % label, qual, 'attr.universe', [], z3.BoolVal(True),
                            props=tuple(set(sp.props) | {'C19'}),
                            meta={'clause': 'no attribute is assigned a lambda, generator or local function on any explored path'})
            ob.path = []
            obligs.append(ob)
        return obligs, problems

    def _verify_path(self, run, fi, sp, cls, first):
        st = run.st
        env = {}
        params = fi.params()
        if fi.cls is not None and not fi.is_static:
            if fi.name == '__init__':
                env[params[0][0]] = st.alloc(Obj(cls, {}), fresh=False)
            else:
                env[params[0][0]] = self.materialise(run, 'obj:' + cls, 'self')
            params = params[1:]
        for nm, dflt in params:
            d = sp.params.get(nm)
            if d is None:
                raise Unsupported('no kind declared for parameter %s of %s' % (nm, fi.qual))
            run.mat_env = env
            env[nm] = self.materialise(run, d, nm)
        label = run.label
        ch = getattr(run, 'choices', [])
        if ch:
            run.label = label + '{' + ','.join(ch) + '}'
        run.frames.append(Frame(fi, env, cls))
        run.names = C.loc_names(st, env)
        # type invariants of symbolic inputs + requires
        for c in C.expand(run, sp.requires, env, cls):
            g = C.eval_clause(run, c, env, fi=fi, dyn_cls=cls)
            if z3.is_false(z3.simplify(g)):
                raise Infeasible()      # a case split that contradicts the contract's requires
            st.assume(g)
        if first:
            ob = run.emit('cover', z3.BoolVal(True), 'requires satisfiable')
            ob.expect_sat = True
        entry = st.clone()
        run.n_mat = len(run.path.taken)
        roots = dict(env)
        st.written = set()
        st.fresh = set()
        run.entry = entry
        descs = C.parse_modifies(run, sp.modifies, env, fi=fi, dyn_cls=cls)
        run.frames[-1].env = dict(env)
        result = NONE
        try:
            try:
                run.exec_block(fi.body())
            except ReturnSignal as r:
                result = r.value
        except PyRaise as e:
            self._exceptional_exit(run, fi, sp, cls, env, entry, roots, e)
            for (exc, st1, where) in getattr(run, 'pending_raises', []):
                self._loop_exceptional(run, fi, sp, cls, env, entry, roots, exc, st1, where)
            return
        for (exc, st1, where) in getattr(run, 'pending_raises', []):
            self._loop_exceptional(run, fi, sp, cls, env, entry, roots, exc, st1, where)
        # normal exit: postconditions, then frame
        if sp.raises_iff:
            saved = run.st
            run.st = entry
            try:
                cnd = C.eval_clause(run, specmod.Clause(sp.raises_iff), env, fi=fi, dyn_cls=cls)
            finally:
                run.st = saved
            run.emit('noraise.cond', z3.Not(cnd), 'a call that returns normally was not to be rejected',
                     meta={'clause': 'not (' + sp.raises_iff + ')'})
        if sp.functional and sp.varies and all(d == 0 for d in run.path.taken[run.n_mat:]):
            self._relational(run, fi, sp, cls, env, entry)
        env2 = dict(env)
        env2['result'] = result
        for k, c in enumerate(C.expand(run, sp.ensures, env, cls)):
            try:
                g = C.eval_clause(run, c, env2, old_state=entry, fi=fi, dyn_cls=cls)
            except PyRaise as e:
                g = z3.BoolVal(False)
            run.emit('post', g, c.name or ('#%d' % k), props=c.props or sp.props, meta={'clause': c.text})
            if sp.chain:
                run.st.assume(g)      # a sequential proof: later clauses are proved under the earlier ones
        C.frame_obligations(run, entry, descs, roots, sp.props)
        C.caller_owned_stores(run, entry, descs, roots, tuple(set(sp.props) | {'C18'}))

    # ------------------------------------------------------------------------------ non-interference
    def vary_learned(self, run, st, ref):
        """Replace the learned (non-const) state of an object by independent fresh values."""
        o = st.heap[ref.loc]
        decls = specmod.class_fields(self.repo, o.cls)
        no = o
        for f, v in o.fields.items():
            d = decls.get(f, '')
            if d.endswith(' const') or f in ('arms', 'rng'):
                continue
            if isinstance(v, Ref):
                t = st.heap[v.loc]
                if isinstance(t, MapO):
                    nm = MapO(fresh('var_keys', ASeq), {}, t.vkinds, t.record_cls)
                    nm.shared_rng = getattr(t, 'shared_rng', None)
                    for c, arr in t.cols.items():
                        nm.cols[c] = fresh('var_' + (c or 'v'), arr.sort())
                    no = no.set(f, st.alloc(nm, fresh=False))
                elif isinstance(t, Obj) and t.cls in specmod.CLASSES and t.cls not in ('_NumpyRNG', 'np.Generator'):
                    self.vary_learned(run, st, v)
                continue
            if hasattr(v, 'term'):
                no = no.set(f, C._fresh_like(v, 'var_' + f))
            elif isinstance(v, NoneV) and d:
                no = no.set(f, self.materialise(run, d, 'var_' + f, allow_split=False, st=st))
        st.heap[ref.loc] = no

    def _relational(self, run, fi, sp, cls, env, entry):
        """Self-composition: two executions that agree on everything except the learned state of the objects in
        `varies` must return the same value (the result is a function of the read set)."""
        stA, stB = entry.clone(), entry.clone()
        saved = run.st
        run.st = stB
        try:
            for expr in sp.varies:
                v = C.eval_expr_in(run, expr, env, fi=fi, dyn_cls=cls)
                self.vary_learned(run, stB, v)
            # fields named in the read set keep their values (they are inputs of the function, not learned residue)
            for r in (sp.reads or []):
                m = re.match(r'^([A-Za-z_]+)\.([A-Za-z_]+)\??$', r)
                if m and m.group(1) in sp.varies:
                    ov = C.eval_expr_in(run, m.group(1), env, fi=fi, dyn_cls=cls)
                    if m.group(2) not in stA.heap[ov.loc].fields:
                        continue
                    stB.heap[ov.loc] = stB.heap[ov.loc].set(m.group(2), stA.heap[ov.loc].fields[m.group(2)])
            for c in C.expand(run, sp.requires, env, cls):
                stB.assume(C.eval_clause(run, c, env, fi=fi, dyn_cls=cls))
        finally:
            run.st = saved
        base = len(entry.pc)

        def body():
            try:
                run.exec_block(fi.body())
                return NONE
            except ReturnSignal as r:
                return r.value
        n0 = len(run.obligs)
        saved_env = run.frames[-1].env
        run.frames[-1].env = dict(env)
        try:
            endsA = run.explore(stA, body)
            endsB = run.explore(stB, body)
        finally:
            run.frames[-1].env = saved_env
            del run.obligs[n0:]
        k = 0
        from .engine import feasible
        for (ka, ra, sta, pa, _) in endsA:
            for (kb, rb, stb, pb, _) in endsB:
                hyps = list(sta.pc) + list(stb.pc[base:])
                if pa.taken != pb.taken and not feasible(hyps, 600):
                    continue        # the two executions cannot take these different paths together
                if ka == 'ok' and kb == 'ok':
                    goal = self.same_value(ra, sta, rb, stb)
                else:
                    goal = z3.BoolVal(ka == kb)
                ob = Obligation('%s:functional:%d' % (run.label, k), run.fname, 'functional', hyps, goal,
                                props=tuple(getattr(sp, 'functional_props', None) or sp.props),
                                meta={'clause': 'the result does not depend on the learned state of ' + ', '.join(sp.varies)})
                ob.path = []
                run.obligs.append(ob)
                k += 1

    def same_value(self, a, sta, b, stb):
        if isinstance(a, NoneV) and isinstance(b, NoneV):
            return z3.BoolVal(True)
        if type(a) is type(b) and hasattr(a, 'term'):
            x, y = a.term, b.term
            if isinstance(a, Num) and x.sort() != y.sort():
                x, y = a.real(), b.real()
            return x == y
        if isinstance(a, Ref) and isinstance(b, Ref):
            oa, ob = sta.heap[a.loc], stb.heap[b.loc]
            if isinstance(oa, MapO) and isinstance(ob, MapO) and set(oa.cols) == set(ob.cols):
                w = smt.bound('asame', Arm)
                eqs = [oa.cols[c][w] == ob.cols[c][w] for c in oa.cols]
                return z3.And(oa.keys == ob.keys, z3.ForAll([w], z3.Implies(T.amem(oa.keys, w), z3.And(*eqs))))
        return z3.BoolVal(False)

    def _exceptional_exit(self, run, fi, sp, cls, env, entry, roots, e):
        if sp.raises is None:
            run.emit('noraise', z3.BoolVal(False), '%s %s' % (e.exc_type, e.where),
                     meta={'clause': 'function is not expected to raise'})
            return
        if sp.raises != '*' and e.exc_type not in sp.raises:
            run.emit('raises.type', z3.BoolVal(False), '%s %s' % (e.exc_type, e.where))
        if sp.raises_iff:
            saved = run.st
            run.st = entry
            try:
                cnd = C.eval_clause(run, specmod.Clause(sp.raises_iff), env, fi=fi, dyn_cls=cls)
            finally:
                run.st = saved
            run.emit('raises.cond', cnd, '%s %s' % (e.exc_type, e.where), meta={'clause': sp.raises_iff})
        if sp.raises_only_if:
            saved = run.st
            run.st = entry
            try:
                cnd = C.eval_clause(run, specmod.Clause(sp.raises_only_if), env, fi=fi, dyn_cls=cls)
            finally:
                run.st = saved
            run.emit('raises.cond', cnd, '%s %s' % (e.exc_type, e.where), meta={'clause': sp.raises_only_if})
        for k, c in enumerate(C.expand(run, sp.ensures_raises, env, cls)):
            g = C.eval_clause(run, c, env, old_state=entry, fi=fi, dyn_cls=cls)
            run.emit('raises.post', g, c.name or ('#%d' % k), props=c.props or sp.props, meta={'clause': c.text})
        # a rejected call changes nothing: empty frame on the exceptional exit
        n0 = len(run.obligs)
        saved = run.st
        run.st = entry
        try:
            rdescs = C.parse_modifies(run, sp.raises_modifies, env, fi=fi, dyn_cls=cls)
        finally:
            run.st = saved
        C.frame_obligations(run, entry, rdescs, roots, sp.props)
        for ob in run.obligs[n0:]:
            ob.kind = 'raises.unchanged'
            ob.name = ob.name.replace(':frame:', ':raises.unchanged[%s %s]:' % (e.exc_type, e.where))

    def _loop_exceptional(self, run, fi, sp, cls, env, entry, roots, exc, st1, where):
        saved = run.st
        run.st = st1
        try:
            self._exceptional_exit(run, fi, sp, cls, env, entry, roots, exc)
        finally:
            run.st = saved


class LoopInv:
    """Invariant of a summarised loop: assumed at the start of the symbolic iteration, proved initially and after
    the body (obligations loop.inv.init / loop.inv.preserve), assumed after the loop."""

    def __init__(self, eng, run, frame, clauses, where):
        self.eng, self.frame, self.clauses, self.where = eng, frame, clauses, where

    def _eval(self, run, st, env, clause):
        saved_st, saved_env = run.st, run.frames[-1].env
        run.st = st
        run.frames[-1].env = env
        try:
            cl = C.expand(run, [clause], env, self.frame.self_cls)
            return [(c, C.eval_clause(run, c, env, fi=self.frame.fi, dyn_cls=self.frame.self_cls)) for c in cl]
        finally:
            run.st, run.frames[-1].env = saved_st, saved_env

    def init(self, run, st0, env0):
        for clause in self.clauses:
            for c, g in self._eval(run, st0, env0, clause):
                ob = Obligation('%s:loop.inv.init:%s@%s' % (run.label, c.name or 'inv', self.where), run.fname,
                                'loop.inv.init', list(st0.pc), g, props=run.cur_props, meta={'clause': c.text})
                ob.path = list(run.path.taken)
                run.obligs.append(ob)

    def assume_at(self, run, sti, envi=None):
        for clause in self.clauses:
            for c, g in self._eval(run, sti, envi if envi is not None else run.frames[-1].env, clause):
                sti.assume(g)

    def preserve(self, run, st1, env1):
        for clause in self.clauses:
            for c, g in self._eval(run, st1, env1, clause):
                ob = Obligation('%s:loop.inv.preserve:%s@%s' % (run.label, c.name or 'inv', self.where), run.fname,
                                'loop.inv.preserve', list(st1.pc), g, props=run.cur_props, meta={'clause': c.text})
                ob.path = list(run.path.taken)
                run.obligs.append(ob)


run_isnone = smt.F('is_none', Opaque, Bool)
RECORD_KINDS = {'real': 'real', 'int': 'int', 'bool': 'bool', 'mat': 'mat', 'rseq': 'rseq', 'opaque': 'opaque',
                'optopaque': 'opaque', 'arm': 'arm', 'opt:scaler': 'opaque', 'scaler': 'opaque'}


COPY_HOOKS = ('__getstate__', '__setstate__', '__reduce__', '__reduce_ex__', '__deepcopy__', '__copy__', '__getnewargs__',
              '__getnewargs_ex__', '__slots__')


def _stored_exprs(val):
    """the expressions whose values end up stored when `val` is assigned: the value itself, the elements of container
    literals / comprehensions, and the arguments of defaultdict(...) and partial(...) (which keep them)"""
    out, todo = [], [val]
    while todo:
        e = todo.pop()
        out.append(e)
        if isinstance(e, (ast.List, ast.Tuple, ast.Set)):
            todo += list(e.elts)
        elif isinstance(e, ast.Dict):
            todo += [v for v in e.values if v is not None]
        elif isinstance(e, (ast.ListComp, ast.SetComp)):
            todo.append(e.elt)
        elif isinstance(e, ast.DictComp):
            todo.append(e.value)
        elif isinstance(e, ast.IfExp):
            todo += [e.body, e.orelse]
        elif isinstance(e, ast.Call):
            fn = e.func.id if isinstance(e.func, ast.Name) else (e.func.attr if isinstance(e.func, ast.Attribute) else '')
            if fn in ('defaultdict', 'partial'):
                todo += list(e.args) + [k.value for k in e.keywords]
    return out


def static_obligations(eng):
    """C19, repository side, decided on the AST of *every* class of the package (also those not under contract):
    no class customises copying / pickling, no attribute or dict entry of self is assigned a lambda, generator or a
    function defined inside a method, and no module keeps mutable state keyed by object identity."""
    out = []
    for cname, ci in sorted(eng.repo.classes.items()):
        if ci.module.startswith('lemma_'):
            continue
        hooks = [m for m in COPY_HOOKS if m in ci.methods or m in ci.class_attrs]
        for mfi in ci.methods.values():
            for dec in mfi.node.decorator_list:
                nm = dec.func if isinstance(dec, ast.Call) else dec
                nm = nm.attr if isinstance(nm, ast.Attribute) else (nm.id if isinstance(nm, ast.Name) else '')
                if nm in ('lru_cache', 'cache', 'cached_property', 'memoize'):
                    hooks.append('@%s on %s (a cache outside the object: not copied, not pickled)' % (nm, mfi.name))
        ob = Obligation('%s.%s:copy.hooks' % (ci.module, cname), '%s.%s' % (ci.module, cname), 'copy.hooks', [],
                        z3.BoolVal(not hooks), props=('C19',),
                        meta={'clause': 'the class defines none of %s (found: %s)' % (', '.join(COPY_HOOKS), hooks or 'none')})
        ob.path = []
        out.append(ob)
        bad = []
        for fi in ci.methods.values():
            local_defs = {n.name for n in ast.walk(fi.node) if isinstance(n, (ast.FunctionDef, ast.AsyncFunctionDef))
                          and n is not fi.node}
            for node in ast.walk(fi.node):
                tgts, val = [], None
                if isinstance(node, ast.Assign):
                    tgts, val = node.targets, node.value
                elif isinstance(node, (ast.AugAssign, ast.AnnAssign)):
                    tgts, val = [node.target], node.value
                if val is None:
                    continue
                stores_self = any(isinstance(e, ast.Attribute) and isinstance(e.value, ast.Name) and e.value.id == 'self'
                                  for t in tgts for e in ast.walk(t))
                if not stores_self:
                    continue
                for e in _stored_exprs(val):
                    if isinstance(e, (ast.Lambda, ast.GeneratorExp)):
                        bad.append('%s line %d: %s' % (fi.name, node.lineno, type(e).__name__))
                    if isinstance(e, ast.Name) and e.id in local_defs:
                        bad.append('%s line %d: local function %s' % (fi.name, node.lineno, e.id))
                    if isinstance(e, ast.Call) and isinstance(e.func, ast.Name) and e.func.id in ('open', 'iter', 'id'):
                        bad.append('%s line %d: %s(...)' % (fi.name, node.lineno, e.func.id))
        # A7 side condition (C05): joblib tasks that write the receiver's state must run in shared memory
        for fi in ci.methods.values():
            for node in ast.walk(fi.node):
                if not (isinstance(node, ast.Call) and isinstance(node.func, ast.Call) and
                        isinstance(node.func.func, ast.Name) and node.func.func.id == 'Parallel' and node.args):
                    continue
                gen = node.args[0]
                elt = gen.elt if isinstance(gen, (ast.GeneratorExp, ast.ListComp)) else None
                tgt = None
                if isinstance(elt, ast.Call) and isinstance(elt.func, ast.Call) and isinstance(elt.func.func, ast.Name) \
                        and elt.func.func.id == 'delayed' and elt.func.args:
                    a0 = elt.func.args[0]
                    if isinstance(a0, ast.Attribute) and isinstance(a0.value, ast.Name) and a0.value.id == 'self':
                        tgt = a0.attr
                if tgt is None:
                    continue
                writes = False
                seen_m = set()
                for sub in [cname] + eng.repo.subclasses(cname):       # the task may be any override of the method
                    mfi = eng.repo.lookup_method(sub, tgt)
                    if mfi is None or mfi.qual in seen_m:
                        continue
                    seen_m.add(mfi.qual)
                    msp = specmod.lookup(eng.repo, mfi.qual, sub)
                    if msp is not None and not msp.inline:
                        writes = writes or any(not m.startswith('self.rng') for m in msp.modifies)
                    else:
                        writes = writes or any(
                            isinstance(n2, (ast.Assign, ast.AugAssign)) and any(
                                isinstance(e, ast.Attribute) and isinstance(e.value, ast.Name) and e.value.id == 'self'
                                for t in (n2.targets if isinstance(n2, ast.Assign) else [n2.target]) for e in ast.walk(t))
                            for n2 in ast.walk(mfi.node))
                kws = {k.arg: (k.value.value if isinstance(k.value, ast.Constant) else None) for k in node.func.keywords}
                ok = (not writes) or kws.get('require') == 'sharedmem'
                ob = Obligation('%s.%s.%s:par.sharedmem[%s]' % (ci.module, cname, fi.name, tgt), fi.qual, 'par.sharedmem', [],
                                z3.BoolVal(bool(ok)), props=('C05',),
                                meta={'clause': 'Parallel(...) over delayed(self.%s): the task %s the receiver, so the call '
                                                'must say require="sharedmem" (found %s)'
                                                % (tgt, 'writes' if writes else 'does not write', kws)})
                ob.path = []
                out.append(ob)
        ob = Obligation('%s.%s:attr.universe.static' % (ci.module, cname), '%s.%s' % (ci.module, cname), 'attr.universe', [],
                        z3.BoolVal(not bad), props=('C19',),
                        meta={'clause': 'no store through self of a lambda, generator expression, local function, open(), '
                                        'iter() or id() value (found: %s)' % (bad or 'none')})
        ob.path = []
        out.append(ob)
    return out


def load_specs():
    d = os.path.join(os.path.dirname(os.path.dirname(os.path.abspath(__file__))), 'specs')
    if os.path.dirname(d) not in sys.path:
        sys.path.insert(0, os.path.dirname(d))
    for fn in sorted(os.listdir(d)):
        if fn.endswith('.py') and not fn.startswith('_'):
            importlib.import_module('specs.' + fn[:-3])
