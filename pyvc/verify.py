"""Engine: ties source index, contracts, library contracts and the executor together; per-function VC generation."""
import ast
import importlib
import os
import re
import sys
import traceback
import z3
from . import smt, spec as specmod, source
from .smt import fresh, F, Arm, ASeq, RSeq, ISeq, BSeq, Mat, Rng, Opaque, Int, Real, Bool, OptArm, Obligation
from .values import *     # noqa
from . import theory as T
from .engine import Run, PathCtx, Frame, ReturnSignal, to_bool_term, const_val
from . import contracts as C
from .lib import Lib, RArr, mrows, mcols

BUILTINS = {'len', 'max', 'min', 'sum', 'dict', 'list', 'set', 'zip', 'enumerate', 'range', 'isinstance', 'issubclass',
            'type', 'callable', 'int', 'float', 'str', 'hasattr', 'bool', 'tuple', 'abs', 'sorted', 'id', 'hash',
            'print', 'getattr', 'setattr', 'map', 'filter', 'any', 'all', 'round', 'iter', 'next', 'open', 'eval',
            'exec', 'globals', 'locals', 'vars', 'input', 'reversed', 'frozenset', 'bytes', 'object'}
EXC_NAMES = {'ValueError', 'TypeError', 'Exception', 'NotImplementedError', 'KeyError', 'IndexError', 'AssertionError',
             'AttributeError', 'RuntimeError'}
LIB_ALIASES = {'numpy': 'np', 'pandas': 'pd', 'multiprocessing': 'mp', 'matplotlib.pyplot': 'plt', 'seaborn': 'sns'}
LIB_CLASSES = {'np.Generator', 'StandardScaler'}

STATUS_COLS = {'is_trained': 'bool', 'is_warm': 'bool', 'warm_started_by': 'optarm'}


class Engine:
    def __init__(self, repo=None, prune=True):
        self.repo = repo or source.Repo()
        self.lib = Lib(self)
        self.prune = prune
        self.lib_classes = LIB_CLASSES
        self.specs = specmod.FUNCS
        self.unsupported = []

    # ------------------------------------------------------------------------------------- lookups
    def spec_for(self, qual, dyn_cls=None):
        return specmod.lookup(self.repo, qual, dyn_cls)

    def allow_inline(self, fi):
        # functions without a contract are executed in place (their callers carry the obligation)
        return True

    def locname(self, run, loc):
        names = getattr(run, 'names', {})
        return names.get(loc, 'loc%d' % loc)

    def resolve_global(self, run, module, name):
        if run.spec_mode:
            from . import specfns
            if name in specfns.SPECFNS:
                return Lazy('specfn', payload=specfns.SPECFNS[name])
        repo = self.repo
        if module is not None:
            if name in repo.classes and repo.classes[name].module == module:
                return ClassRef(name)
            q = '%s.%s' % (module, name)
            if q in repo.funcs:
                return FuncRef(q)
            if name in repo.globals.get(module, {}):
                return self.eval_module_constant(run, module, repo.globals[module][name])
            imp = repo.imports.get(module, {}).get(name)
            if imp is not None:
                m, n = imp
                if m and m.startswith('mabwiser'):
                    sub = m.split('.', 1)[1] if '.' in m else None
                    if n is None:
                        return LibRef('mabwiser')
                    if n in repo.classes:
                        return ClassRef(n)
                    if sub and '%s.%s' % (sub, n) in repo.funcs:
                        return FuncRef('%s.%s' % (sub, n))
                    if sub and n in repo.globals.get(sub, {}):
                        return self.eval_module_constant(run, sub, repo.globals[sub][n])
                    if sub and n in repo.imports.get(sub, {}):
                        return self.resolve_global(run, sub, n)
                    raise Unsupported('import %s from %s' % (n, m))
                base = LIB_ALIASES.get(m, m)
                return LibRef(base if n is None else '%s.%s' % (base, n))
        if name in repo.classes:
            return ClassRef(name)
        if name in BUILTINS:
            return LibRef('builtins.' + name)
        if name in EXC_NAMES:
            return LibRef('exc.' + name)
        raise Unsupported('unresolved name %s' % name)

    def eval_module_constant(self, run, module, node):
        if isinstance(node, ast.Constant):
            return const_val(node.value)
        if isinstance(node, ast.UnaryOp) and isinstance(node.op, ast.USub) and isinstance(node.operand, ast.Constant):
            return const_val(-node.operand.value)
        raise Unsupported('module-level value that is not a constant (no-ambient-state discipline)')

    def class_attr_value(self, run, cls, attr):
        node, owner = self.repo.lookup_class_attr(cls, attr)
        if isinstance(node, ast.Constant):
            return const_val(node.value)
        if isinstance(node, ast.Dict) and all(isinstance(k, ast.Constant) for k in node.keys):
            # class-level constant table (e.g. _Linear.factory): must be read-only (no-ambient-state, C04)
            fields = {}
            for k, v in zip(node.keys, node.values):
                run.frames.append(Frame(None, {}, None))
                try:
                    fields[k.value] = self.resolve_global(run, self.repo.classes[owner].module, v.id) \
                        if isinstance(v, ast.Name) else None
                finally:
                    run.frames.pop()
            return RecordV(fields)
        if isinstance(node, ast.List) and all(isinstance(e, ast.Constant) for e in node.elts):
            return run.st.alloc(ListO([const_val(e.value) for e in node.elts]))
        raise Unsupported('class attribute %s.%s' % (cls, attr))

    def eval_default(self, run, fi, node):
        if isinstance(node, ast.Constant):
            return const_val(node.value)
        run.frames.append(Frame(fi, {}, None))
        try:
            return run.ev(node)
        finally:
            run.frames.pop()

    def isinstance_one(self, run, v, k):
        """True / False / z3 Bool."""
        if isinstance(k, ClassRef):
            if isinstance(v, Ref):
                o = run.deref(v)
                if isinstance(o, Obj):
                    return self.repo.is_subclass(o.cls, k.name) if o.cls in self.repo.classes else False
            if isinstance(v, OpaqueV) and v.what.startswith('policy:'):
                return v.what == 'policy:' + k.name
            return False
        if isinstance(k, LibRef):
            nm = k.name
            if nm == 'builtins.dict':
                return isinstance(v, RecordV) or (isinstance(v, Ref) and isinstance(run.deref(v), MapO))
            if nm == 'builtins.list':
                return (isinstance(v, SeqV) and v.pylist) or \
                       (isinstance(v, Ref) and isinstance(run.deref(v), (ListO, SeqO, SymListO)))
            if nm in ('builtins.int', 'builtins.float'):
                if isinstance(v, Num):
                    return v.is_int == (nm == 'builtins.int')
                return False
            if nm == 'builtins.str':
                return isinstance(v, StrV) or (isinstance(v, OpaqueV) and v.what == 'str')
            if nm == 'builtins.bool':
                return isinstance(v, BoolV)
            if nm == 'np.ndarray':
                return (isinstance(v, SeqV) and not v.pylist) or isinstance(v, MatV)
            if nm in ('pd.Series', 'pd.DataFrame'):
                return False
            if nm.startswith('sklearn') or nm in ('MiniBatchKMeans', 'KMeans'):
                if isinstance(v, OpaqueV):
                    return F('isinst_' + nm.split('.')[-1], Opaque, Bool)(v.term)
        raise Unsupported('isinstance(%r, %r)' % (v, k))

    # --------------------------------------------------------------------------------- materialise
    def materialise(self, run, desc, name, allow_split=True, st=None):
        st = st or run.st
        desc = desc.strip()
        if desc.endswith(' const'):
            desc = desc[:-6].strip()
        if desc.startswith('opt:'):
            inner = desc[4:]
            if allow_split:
                if run.path.choice(2) == 0:
                    return NONE
                return self.materialise(run, inner, name, allow_split, st)
            return self.materialise(run, inner, name, allow_split, st)
        if desc == 'real':
            return Num(fresh(name, Real))
        if desc == 'int':
            return Num(fresh(name, Int))
        if desc == 'nat':
            v = fresh(name, Int)
            st.assume(v >= 0)
            return Num(v)
        if desc == 'bool':
            return BoolV(fresh(name, Bool))
        if desc == 'arm':
            return ArmV(fresh(name, Arm))
        if desc in ('aseq', 'rseq', 'iseq', 'bseq'):
            return SeqV(desc[0].upper(), fresh(name, SeqV.SORT[desc[0].upper()]))
        if desc in ('alist', 'rlist', 'ilist'):
            return SeqV(desc[0].upper(), fresh(name, SeqV.SORT[desc[0].upper()]), True)
        if desc == 'mat':
            return MatV(fresh(name, Mat))
        if desc in ('opaque', 'str', 'callable', 'optstr', 'optopaque'):
            v = OpaqueV(fresh(name, Opaque), 'str' if 'str' in desc else desc)
            if desc in ('str', 'callable'):
                st.assume(z3.Not(run_isnone(v.term)))
            return v
        if desc == 'scaler':
            return st.alloc(Obj('StandardScaler', {'state': OpaqueV(fresh(name, Opaque), 'scaler')}), fresh=False)
        if desc.startswith('str:{'):
            alts = [x.strip() for x in desc[4:].strip('{}').split('|')]
            forced = getattr(run, 'forced_cls', {}).get(name)
            k = forced if forced else alts[run.path.choice(len(alts))]
            run.choices = getattr(run, 'choices', []) + ['%s=%s' % (name.split('_')[-1], k)]
            return StrV(k)
        if desc == 'binarizer':
            v = OpaqueV(fresh(name, Opaque), 'binarizer')
            st.assume(z3.Not(run_isnone(v.term)))
            return v
        if desc == 'optbinarizer':
            return OpaqueV(fresh(name, Opaque), 'binarizer')
        if desc == 'rngstate':
            return OpaqueV(fresh(name, Rng), 'rngstate')
        if desc == 'none':
            return NONE
        if desc == 'optarm':
            return OptArmV(fresh(name, OptArm))
        if desc == 'list:arm':
            return st.alloc(SeqO('A', fresh(name, ASeq)), fresh=False)
        if desc == 'list:real':
            return st.alloc(SeqO('R', fresh(name, RSeq)), fresh=False)
        if desc == 'rng':
            gen = st.alloc(Obj('np.Generator', {'state': OpaqueV(fresh(name + '_state', Rng), 'rngstate')}), fresh=False)
            return st.alloc(Obj('_NumpyRNG', {'seed': Num(fresh(name + '_seed', Int)), 'rng': gen}), fresh=False)
        if desc.startswith('map:'):
            k = desc[4:]
            if k == 'status':
                cols, vk = {}, {}
                for c, kind in STATUS_COLS.items():
                    cols[c] = fresh(name + '_' + c, z3.ArraySort(Arm, VKIND_SORT[kind]))
                    vk[c] = kind
                return st.alloc(MapO(fresh(name + '_keys', ASeq), cols, vk), fresh=False)
            if k == 'dict':
                return st.alloc(MapO(fresh(name + '_keys', ASeq),
                                     {'#keys': fresh(name + '_ikeys', z3.ArraySort(Arm, ASeq)),
                                      '#vals': fresh(name + '_ivals', z3.ArraySort(Arm, RArr))},
                                     {'#keys': 'dict.keys', '#vals': 'dict.vals'}), fresh=False)
            if k in VKIND_SORT:
                return st.alloc(MapO(fresh(name + '_keys', ASeq),
                                     {'': fresh(name, z3.ArraySort(Arm, VKIND_SORT[k]))}, {'': k}), fresh=False)
            if k in self.repo.classes:
                cols, vk = {}, {}
                for f, d in specmod.class_fields(self.repo, k).items():
                    d = d.replace(' const', '').strip()
                    kind = RECORD_KINDS.get(d)
                    if kind is None:
                        raise Unsupported('record map column %s: %s' % (f, d))
                    cols[f] = fresh(name + '_' + f, z3.ArraySort(Arm, VKIND_SORT[kind]))
                    vk[f] = kind
                return st.alloc(MapO(fresh(name + '_keys', ASeq), cols, vk, record_cls=k), fresh=False)
            raise Unsupported('map kind ' + k)
        if desc.startswith('obj:'):
            k = desc[4:]
            if k.startswith('{'):
                alts = [x.strip() for x in k.strip('{}').split('|')]
                forced = getattr(run, 'forced_cls', {}).get(name)
                if forced:
                    k = forced
                else:
                    if not allow_split:
                        raise Unsupported('polymorphic havoc')
                    k = alts[run.path.choice(len(alts))]
                run.choices = getattr(run, 'choices', []) + ['%s=%s' % (name, k)]
            return self.new_symbolic_object(run, k, name, st)
        raise Unsupported('type descriptor %r' % desc)

    def new_symbolic_object(self, run, cls, name, st):
        fields = {}
        decls = specmod.class_fields(self.repo, cls)
        if not decls and cls not in specmod.CLASSES:
            raise Unsupported('no class spec for ' + cls)
        ref = st.alloc(Obj(cls, {}), fresh=False)
        for f, d in decls.items():
            if d.startswith('alias:'):
                continue
            fields[f] = self.materialise(run, d, '%s_%s' % (name, f), True, st)
        st.heap[ref.loc] = Obj(cls, fields)
        # aliases: field = same object as another access path (relative to this object)
        for f, d in decls.items():
            if d.startswith('alias:'):
                pass
        for c in reversed(self.repo.mro(cls)):
            cs = specmod.CLASSES.get(c)
            if cs is None:
                continue
            for dst, src in (cs.views or []):
                self._alias(run, st, ref, dst, src)
            if cs.setup is not None:
                cs.setup(run, st, ref)
        return ref

    def record_map(self, run, st, name, cls, shared_rng=None):
        """dict arm -> object of class `cls`, one column per declared field (the rng field becomes a slot that is
        either the bandit's shared generator or a private copy)."""
        cols, vk = {}, {}
        for f, d in specmod.class_fields(self.repo, cls).items():
            d = d.replace(' const', '').strip()
            if d == 'rng':
                cols['#rng_shared'] = fresh(name + '_rng_shared', z3.ArraySort(Arm, Bool))
                cols['#rng_state'] = fresh(name + '_rng_state', z3.ArraySort(Arm, Rng))
                vk['#rng_shared'] = 'bool'
                vk['#rng_state'] = 'rngstate'
                continue
            kind = RECORD_KINDS.get(d)
            if kind is None:
                raise Unsupported('record map column %s: %s' % (f, d))
            cols[f] = fresh(name + '_' + f, z3.ArraySort(Arm, VKIND_SORT[kind]))
            vk[f] = kind
        m = MapO(fresh(name + '_keys', ASeq), cols, vk, record_cls=cls)
        m.shared_rng = shared_rng
        return st.alloc(m, fresh=False)

    def _alias(self, run, st, ref, dst, src):
        def walk(path):
            v = ref
            for p in path.split('.'):
                v = st.heap[v.loc].fields[p]
            return v
        target = walk(src)
        parts = dst.split('.')
        holder = ref
        for p in parts[:-1]:
            holder = st.heap[holder.loc].fields[p]
        st.heap[holder.loc] = st.heap[holder.loc].set(parts[-1], target)

    def havoc_field_value(self, run, st, cls, f):
        decl = specmod.class_fields(self.repo, cls).get(f)
        if decl is None:
            raise Unsupported('loop-carried undeclared field %s.%s' % (cls, f))
        return self.materialise(run, decl, 'lc_' + f, allow_split=False, st=st)

    # ---------------------------------------------------------------------------------- construction
    def construct(self, run, cls, args, kwargs):
        if cls in self.repo.classes:
            ref = run.st.alloc(Obj(cls, {}))
            init = self.repo.lookup_method(cls, '__init__')
            if init is not None:
                run.call_user(init, ref, args, kwargs, dyn_cls=cls)
            return ref
        raise Unsupported('construction of ' + cls)

    def dict_from_genexp(self, run, lazy):
        from . import loops
        n = lazy.node
        if len(n.generators) != 1 or n.generators[0].ifs:
            raise Unsupported('dict(genexp) shape')
        g = n.generators[0]
        dom = loops.domain_of(run, run.ev(g.iter))
        if dom.items is not None or dom.arm_seq is None:
            raise Unsupported('dict(genexp) over non-arm sequence')

        def body(elem):
            run.assign(g.target, elem)
            v = run.ev(n.elt)
            if not (isinstance(v, TupleV) and len(v.items) == 2):
                raise Unsupported('dict(genexp) element')
            return v
        return loops.build_map_from_pairs(run, dom, body, 'line %d' % n.lineno)

    def class_decls(self, cls):
        return specmod.class_fields(self.repo, cls)

    def loop_invariant(self, run, where):
        return None

    def loop_raise(self, run, exc, st1, B, A, where):
        run.pending_raises = getattr(run, 'pending_raises', []) + [(exc, st1, where)]

    def lib_unique_num(self, run, s):
        raise Unsupported('np.unique of numbers')

    # ---------------------------------------------------------------------------------- verification
    def verify(self, qual, dyn_cls=None, forced=None):
        """Generate all obligations of function `qual` (receiver class dyn_cls).  Returns (obligations, problems)."""
        fi = self.repo.funcs[qual]
        cls = dyn_cls or fi.cls
        sp = self.spec_for(qual, cls)
        label = qual + ('[%s]' % cls if cls and cls != fi.cls else '')
        obligs = []
        problems = []
        scripts = [[]]
        npaths = 0
        covered = False
        while scripts:
            script = scripts.pop()
            run = Run(self, PathCtx(script))
            run.fname = qual
            run.label = label
            run.cur_props = sp.props
            run.forced_cls = forced or {}
            try:
                self._verify_path(run, fi, sp, cls, first=not covered)
                covered = True
            except Infeasible:
                pass
            except Unsupported as e:
                problems.append((label, 'unsupported', str(e), list(run.path.taken)))
            except RecursionError:
                problems.append((label, 'unsupported', 'recursion limit', list(run.path.taken)))
            obligs.extend(run.obligs)
            scripts.extend(run.path.alternatives)
            npaths += 1
            if npaths > 600:
                problems.append((label, 'unsupported', 'path explosion', []))
                break
        return obligs, problems

    def _verify_path(self, run, fi, sp, cls, first):
        st = run.st
        env = {}
        params = fi.params()
        if fi.cls is not None and not fi.is_static:
            if fi.name == '__init__':
                env[params[0][0]] = st.alloc(Obj(cls, {}), fresh=False)
            else:
                env[params[0][0]] = self.materialise(run, 'obj:' + cls, 'self')
            params = params[1:]
        for nm, dflt in params:
            d = sp.params.get(nm)
            if d is None:
                raise Unsupported('no kind declared for parameter %s of %s' % (nm, fi.qual))
            env[nm] = self.materialise(run, d, nm)
        label = run.label
        ch = getattr(run, 'choices', [])
        if ch:
            run.label = label + '{' + ','.join(ch) + '}'
        run.frames.append(Frame(fi, env, cls))
        run.names = C.loc_names(st, env)
        # type invariants of symbolic inputs + requires
        for c in C.expand(run, sp.requires, env, cls):
            g = C.eval_clause(run, c, env, fi=fi, dyn_cls=cls)
            if z3.is_false(z3.simplify(g)):
                raise Infeasible()      # a case split that contradicts the contract's requires
            st.assume(g)
        if first:
            ob = run.emit('cover', z3.BoolVal(True), 'requires satisfiable')
            ob.expect_sat = True
        entry = st.clone()
        roots = dict(env)
        st.written = set()
        st.fresh = set()
        run.entry = entry
        descs = C.parse_modifies(run, sp.modifies, env, fi=fi, dyn_cls=cls)
        run.frames[-1].env = dict(env)
        result = NONE
        try:
            try:
                run.exec_block(fi.body())
            except ReturnSignal as r:
                result = r.value
        except PyRaise as e:
            self._exceptional_exit(run, fi, sp, cls, env, entry, roots, e)
            for (exc, st1, where) in getattr(run, 'pending_raises', []):
                self._loop_exceptional(run, fi, sp, cls, env, entry, roots, exc, st1, where)
            return
        for (exc, st1, where) in getattr(run, 'pending_raises', []):
            self._loop_exceptional(run, fi, sp, cls, env, entry, roots, exc, st1, where)
        # normal exit: postconditions, then frame
        if sp.raises_iff:
            saved = run.st
            run.st = entry
            try:
                cnd = C.eval_clause(run, specmod.Clause(sp.raises_iff), env, fi=fi, dyn_cls=cls)
            finally:
                run.st = saved
            run.emit('noraise.cond', z3.Not(cnd), 'a call that returns normally was not to be rejected',
                     meta={'clause': 'not (' + sp.raises_iff + ')'})
        env2 = dict(env)
        env2['result'] = result
        for k, c in enumerate(C.expand(run, sp.ensures, env, cls)):
            try:
                g = C.eval_clause(run, c, env2, old_state=entry, fi=fi, dyn_cls=cls)
            except PyRaise as e:
                g = z3.BoolVal(False)
            run.emit('post', g, c.name or ('#%d' % k), props=c.props or sp.props, meta={'clause': c.text})
        C.frame_obligations(run, entry, descs, roots, sp.props)

    def _exceptional_exit(self, run, fi, sp, cls, env, entry, roots, e):
        if sp.raises is None:
            run.emit('noraise', z3.BoolVal(False), '%s %s' % (e.exc_type, e.where),
                     meta={'clause': 'function is not expected to raise'})
            return
        if sp.raises != '*' and e.exc_type not in sp.raises:
            run.emit('raises.type', z3.BoolVal(False), '%s %s' % (e.exc_type, e.where))
        if sp.raises_iff:
            saved = run.st
            run.st = entry
            try:
                cnd = C.eval_clause(run, specmod.Clause(sp.raises_iff), env, fi=fi, dyn_cls=cls)
            finally:
                run.st = saved
            run.emit('raises.cond', cnd, '%s %s' % (e.exc_type, e.where), meta={'clause': sp.raises_iff})
        for k, c in enumerate(C.expand(run, sp.ensures_raises, env, cls)):
            g = C.eval_clause(run, c, env, old_state=entry, fi=fi, dyn_cls=cls)
            run.emit('raises.post', g, c.name or ('#%d' % k), props=c.props or sp.props, meta={'clause': c.text})
        # a rejected call changes nothing: empty frame on the exceptional exit
        n0 = len(run.obligs)
        saved = run.st
        run.st = entry
        try:
            rdescs = C.parse_modifies(run, sp.raises_modifies, env, fi=fi, dyn_cls=cls)
        finally:
            run.st = saved
        C.frame_obligations(run, entry, rdescs, roots, sp.props)
        for ob in run.obligs[n0:]:
            ob.kind = 'raises.unchanged'
            ob.name = ob.name.replace(':frame:', ':raises.unchanged[%s %s]:' % (e.exc_type, e.where))

    def _loop_exceptional(self, run, fi, sp, cls, env, entry, roots, exc, st1, where):
        saved = run.st
        run.st = st1
        try:
            self._exceptional_exit(run, fi, sp, cls, env, entry, roots, exc)
        finally:
            run.st = saved


run_isnone = smt.F('is_none', Opaque, Bool)
RECORD_KINDS = {'real': 'real', 'int': 'int', 'bool': 'bool', 'mat': 'mat', 'rseq': 'rseq', 'opaque': 'opaque',
                'optopaque': 'opaque', 'arm': 'arm', 'opt:scaler': 'opaque', 'scaler': 'opaque'}


def load_specs():
    d = os.path.join(os.path.dirname(os.path.dirname(os.path.abspath(__file__))), 'specs')
    if os.path.dirname(d) not in sys.path:
        sys.path.insert(0, os.path.dirname(d))
    for fn in sorted(os.listdir(d)):
        if fn.endswith('.py') and not fn.startswith('_'):
            importlib.import_module('specs.' + fn[:-3])
