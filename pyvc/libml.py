"""scikit-learn estimators as opaque states with assumed functional contracts (assumption A5)."""
import z3
from .smt import F, fresh, Arm, ASeq, RSeq, ISeq, BSeq, Mat, Opaque, Int, Real, Bool, axiom, forall
from .values import *     # noqa
from . import theory as T
from .lib import real, intterm, mrows, mcols, ilen, iat
from .libcalls import reg

# ---- StandardScaler: state is an opaque value; fit / partial_fit / transform are functions of (state, X)
sc_new = z3.Const('scaler_unfitted', Opaque)
sc_fit = F('scaler_fit', Mat, Opaque)
sc_pfit = F('scaler_partial_fit', Opaque, Mat, Opaque)
sc_apply = F('scaler_transform', Opaque, Mat, Mat)
sc_fitted = F('has_scale_', Opaque, Bool)
sc_fix = F('scaler_fix_small_variance', Opaque, Opaque)
_o = z3.Const('o', Opaque)
_X = z3.Const('X', Mat)
axiom('scaler.unfitted', z3.Not(sc_fitted(sc_new)), ['scaler_unfitted'], 'numpy')
axiom('scaler.fit.fitted', forall([_X], sc_fitted(sc_fit(_X)), [sc_fit(_X)]), ['scaler_fit'], 'numpy')
axiom('scaler.pfit.fitted', forall([_o, _X], sc_fitted(sc_pfit(_o, _X)), [sc_pfit(_o, _X)]), ['scaler_partial_fit'], 'numpy')
axiom('scaler.fix.fitted', forall([_o], sc_fitted(sc_fix(_o)) == sc_fitted(_o), [sc_fix(_o)]),
      ['scaler_fix_small_variance'], 'numpy')
from .engine import T_isnone    # noqa
axiom('scaler.notnone.new', z3.Not(T_isnone(sc_new)), ['scaler_unfitted'], 'numpy')
axiom('scaler.notnone.fit', forall([_X], z3.Not(T_isnone(sc_fit(_X))), [sc_fit(_X)]), ['scaler_fit'], 'numpy')
axiom('scaler.notnone.pfit', forall([_o, _X], z3.Not(T_isnone(sc_pfit(_o, _X))), [sc_pfit(_o, _X)]), ['scaler_partial_fit'],
      'numpy')
axiom('scaler.notnone.fix', forall([_o], T_isnone(sc_fix(_o)) == T_isnone(_o), [sc_fix(_o)]), ['scaler_fix_small_variance'],
      'numpy')
axiom('scaler.apply.shape', forall([_o, _X], z3.And(mrows(sc_apply(_o, _X)) == mrows(_X), mcols(sc_apply(_o, _X)) == mcols(_X)),
                                   [sc_apply(_o, _X)]), ['scaler_transform'], 'numpy')


@reg('sklearn.preprocessing.StandardScaler')
def _scaler(lib, run, recv, args, kw):
    return run.st.alloc(Obj('StandardScaler', {'state': OpaqueV(sc_new, 'scaler')}))


@reg('StandardScaler.fit')
def _scfit(lib, run, recv, args, kw):
    run.write_field(recv, 'state', OpaqueV(sc_fit(args[0].term), 'scaler'))
    return recv


@reg('StandardScaler.partial_fit')
def _scpfit(lib, run, recv, args, kw):
    st = run.deref(recv).fields['state'].term
    run.write_field(recv, 'state', OpaqueV(sc_pfit(st, args[0].term), 'scaler'))
    return recv


@reg('StandardScaler.transform')
def _sctransform(lib, run, recv, args, kw):
    st = run.deref(recv).fields['state'].term
    return MatV(sc_apply(st, args[0].term))

# StandardScaler.transform standardises every row independently (A5)
sc_row = F('scaler_transform_row', Opaque, RSeq, RSeq)
_ii = z3.Int('i')
from .libcalls import mrow      # noqa
axiom('scaler.apply.row', forall([_o, _X, _ii], z3.Implies(z3.And(0 <= _ii, _ii < mrows(_X)), mrow(sc_apply(_o, _X), _ii) == sc_row(_o, mrow(_X, _ii))),
                                 [mrow(sc_apply(_o, _X), _ii)]), ['scaler_transform'], 'numpy')
