"""Assumed contracts of CPython built-ins, NumPy, SciPy, scikit-learn, joblib (DESIGN.md section 5, A4-A7).

Each entry gives the symbolic result of a library operation.  Every use is logged on the path (run.note) so the
evidence can list exactly which assumed contracts a proof relied on.
"""
import z3
from . import smt
from .smt import (F, fresh, Arm, ASeq, RSeq, ISeq, BSeq, Mat, Rng, Opaque, Int, Real, Bool, OptArm, NAN, axiom, forall)
from .values import *     # noqa
from . import theory as T
from .engine import to_bool_term, T_isnone, Frame

RArr = z3.ArraySort(Arm, Real)

# boxed Python values for lists of symbolic length
PV = z3.Datatype('PV')
PV.declare('pv_none')
PV.declare('pv_arm', ('get_arm', Arm))
PV.declare('pv_real', ('get_real', Real))
PV.declare('pv_int', ('get_int', Int))
PV.declare('pv_dict', ('get_keys', ASeq), ('get_vals', RArr))
PV.declare('pv_rseq', ('get_rseq', RSeq))
PV.declare('pv_opaque', ('get_opaque', Opaque))
PV = PV.create()
smt.SORTS['PV'] = PV
PVArr = z3.ArraySort(Int, PV)

ilen = F('ilen', ISeq, Int)
iat = F('iat', ISeq, Int, Int)
axiom('ilen.nonneg', forall([z3.Const('u', ISeq)], ilen(z3.Const('u', ISeq)) >= 0, [ilen(z3.Const('u', ISeq))]), ['ilen'])


def real(v):
    if isinstance(v, Num):
        return v.real()
    if isinstance(v, BoolV):
        return z3.If(v.term, z3.RealVal(1), z3.RealVal(0))
    raise Unsupported('expected a number, got %r' % (v,))


def intterm(v):
    if isinstance(v, Num):
        if v.is_int:
            return v.term
        c = v.concrete()
        if c is not None and float(c).is_integer():
            return z3.IntVal(int(c))
        raise Unsupported('expected an int')
    if isinstance(v, BoolV):
        return z3.If(v.term, 1, 0)
    raise Unsupported('expected an int, got %r' % (v,))


def seq_len(v):
    if isinstance(v, SeqV):
        return {'A': T.alen, 'R': T.rlen, 'B': T.blen, 'I': ilen}[v.kind](v.term)
    raise Unsupported('len of %r' % (v,))


mrows = F('mrows', Mat, Int)
mcols = F('mcols', Mat, Int)
_M = z3.Const('M', Mat)
axiom('mat.shape', forall([_M], z3.And(mrows(_M) >= 0, mcols(_M) >= 0), [mrows(_M)]), ['mrows'])
axiom('mat.shape2', forall([_M], z3.And(mrows(_M) >= 0, mcols(_M) >= 0), [mcols(_M)]), ['mcols'])


def box(run, v):
    if isinstance(v, NoneV):
        return PV.pv_none
    if isinstance(v, ArmV):
        return PV.pv_arm(v.term)
    if isinstance(v, Num):
        return PV.pv_real(v.real())
    if isinstance(v, Ref):
        o = run.deref(v)
        if isinstance(o, MapO) and o.is_scalar:
            if getattr(o, 'boxed', None) is not None:
                return o.boxed
            return PV.pv_dict(o.keys, o.cols[''])
    if isinstance(v, SeqV) and v.kind == 'R':
        return PV.pv_rseq(v.term)
    if isinstance(v, OpaqueV):
        return PV.pv_opaque(v.term)
    raise Unsupported('cannot box %r' % (v,))


def unbox(run, term, ekind):
    if ekind == 'arm':
        return ArmV(PV.get_arm(term))
    if ekind == 'real':
        return Num(PV.get_real(term))
    if ekind == 'dict':
        m = MapO(PV.get_keys(term), {'': PV.get_vals(term)}, {'': 'real'})
        m.boxed = term       # re-boxing the unmodified dict gives back the same term
        return run.st.alloc(m)
    if ekind == 'rseq':
        return SeqV('R', PV.get_rseq(term))
    if ekind == 'none':
        return NONE
    if ekind == 'opaque':
        return OpaqueV(PV.get_opaque(term))
    raise Unsupported('unbox ' + ekind)


def ekind_of(run, v):
    if isinstance(v, NoneV):
        return 'none'
    if isinstance(v, ArmV):
        return 'arm'
    if isinstance(v, Num):
        return 'real'
    if isinstance(v, Ref) and isinstance(run.deref(v), MapO):
        return 'dict'
    if isinstance(v, SeqV) and v.kind == 'R':
        return 'rseq'
    if isinstance(v, OpaqueV):
        return 'opaque'
    raise Unsupported('element kind of %r' % (v,))


class Lib:
    def __init__(self, engine):
        self.eng = engine

    # ---------------------------------------------------------------------------------------- misc
    def ite(self, run, c, a, b):
        if isinstance(a, Num) and isinstance(b, Num):
            if a.is_int and b.is_int:
                return Num(z3.If(c, a.term, b.term))
            return Num(z3.If(c, a.real(), b.real()))
        if isinstance(a, BoolV) and isinstance(b, BoolV):
            return BoolV(z3.If(c, a.term, b.term))
        if type(a) is type(b) and hasattr(a, 'term') and a.term.sort() == b.term.sort():
            r = type(a).__new__(type(a))
            r.__dict__.update(a.__dict__)
            r.term = z3.If(c, a.term, b.term)
            return r
        if isinstance(a, Ref) and isinstance(b, Ref):
            oa, ob = run.deref(a), run.deref(b)
            if isinstance(oa, MapO) and isinstance(ob, MapO) and set(oa.cols) == set(ob.cols):
                m = MapO(z3.If(c, oa.keys, ob.keys), {k: z3.If(c, oa.cols[k], ob.cols[k]) for k in oa.cols}, oa.vkinds,
                         oa.record_cls)
                return run.st.alloc(m)
        raise Unsupported('ite over %r / %r' % (a, b))

    def unpack(self, run, v, n):
        if isinstance(v, TupleV):
            if len(v.items) != n:
                raise PyRaise('ValueError', 'unpack')
            return v.items
        if isinstance(v, Ref):
            o = run.deref(v)
            if isinstance(o, ListO):
                if len(o.items) != n:
                    raise PyRaise('ValueError', 'unpack')
                return o.items
        raise Unsupported('unpack of %r' % (v,))

    def dict_literal(self, run, pairs):
        if not pairs:
            # an empty dict has no value kind yet: the first store decides it
            return run.st.alloc(MapO(T.aempty, {}, {}))
        if all(isinstance(k, StrV) for k, _ in pairs):
            return RecordV({k.s: v for k, v in pairs})
        raise Unsupported('dict literal with non-constant keys')

    # ------------------------------------------------------------------------------------- maps
    def map_get(self, run, ref, key, col=''):
        m = run.deref(ref)
        if not isinstance(key, ArmV):
            raise Unsupported('dict key %r' % (key,))
        if not run.spec_mode:
            run.emit('safe.key', T.amem(m.keys, key.term), 'dict lookup of a present key')
            run.st.assume(T.amem(m.keys, key.term))
        if m.is_scalar:
            return wrap(m.vkinds[''], m.cols[''][key.term])
        if set(m.cols) == {'#keys', '#vals'}:
            # dict of dicts: the inner dict is read by value (the code under verification never mutates it afterwards)
            return run.st.alloc(MapO(m.cols['#keys'][key.term], {'': m.cols['#vals'][key.term]}, {'': 'real'}))
        return EntryRef(ref.loc, key.term)

    def entry_get(self, run, e, field):
        m = run.st.heap[e.loc]
        if field == 'rng' and '#rng_shared' in m.cols:
            # the entry's generator: either the bandit's shared generator or a private copy (symbolic per arm)
            gen = run.st.alloc(Obj('np.Generator', {'slot': TupleV([Ref(e.loc), ArmV(e.key)])}))
            return run.st.alloc(Obj('_NumpyRNG', {'seed': Num(fresh('seed', Int)), 'rng': gen}))
        if field in m.cols:
            return wrap(m.vkinds[field], m.cols[field][e.key])
        if m.record_cls:
            fi = run.repo.lookup_method(m.record_cls, field)
            if fi is not None:
                return FuncRef(fi.qual, e)
        raise Unsupported('entry field %s' % field)

    def entry_set(self, run, e, field, v):
        m = run.st.heap[e.loc]
        if field == 'rng' and '#rng_shared' in m.cols:
            self.store_rng_slot(run, e.loc, e.key, v)
            return
        if field not in m.cols:
            raise Unsupported('entry store of undeclared column %s' % field)
        run.set_heap(e.loc, m.with_col(field, z3.Store(m.cols[field], e.key, self.col_term(run, m.vkinds[field], v))), 'vals')

    def entry_to_obj(self, run, e):
        """deepcopy(map[key]) of an object-valued entry: a fresh object with the entry's field values; its generator
        is a private copy holding the state the entry's generator has now (copy.deepcopy, A6)."""
        from .libcalls import _rs
        m = run.st.heap[e.loc]
        fields = {}
        decls = run.eng.class_decls(m.record_cls)
        for c, arr in m.cols.items():
            if c.startswith('#'):
                continue
            d = decls.get(c, '').replace(' const', '').strip()
            t = arr[e.key]
            if d in ('opt:scaler', 'scaler'):
                if run.branch(T_isnone(t)):
                    fields[c] = NONE
                else:
                    fields[c] = run.st.alloc(Obj('StandardScaler', {'state': OpaqueV(t, 'scaler')}))
            else:
                fields[c] = wrap(m.vkinds[c], t)
        if '#rng_shared' in m.cols:
            probe = run.st.alloc(Obj('np.Generator', {'slot': TupleV([Ref(e.loc), ArmV(e.key)])}))
            state = _rs(run, probe)
            gen = run.st.alloc(Obj('np.Generator', {'state': OpaqueV(state, 'rngstate')}))
            fields['rng'] = run.st.alloc(Obj('_NumpyRNG', {'seed': Num(fresh('seed', Int)), 'rng': gen}))
        return run.st.alloc(Obj(m.record_cls, fields))

    def store_rng_slot(self, run, loc, key, v):
        m = run.st.heap[loc]
        if not isinstance(v, Ref):
            raise Unsupported('rng slot value')
        shared = getattr(m, 'shared_rng', None)
        if shared is None:
            m.shared_rng = shared = v.loc
        if v.loc == shared:
            nm = m.with_col('#rng_shared', z3.Store(m.cols['#rng_shared'], key, z3.BoolVal(True)))
        else:
            from .libcalls import _rs
            gen = run.deref(v).fields['rng']
            nm = m.with_col('#rng_shared', z3.Store(m.cols['#rng_shared'], key, z3.BoolVal(False)))
            nm = nm.with_col('#rng_state', z3.Store(nm.cols['#rng_state'], key, _rs(run, gen)))
        nm.shared_rng = shared
        run.set_heap(loc, nm, 'vals')

    def col_term(self, run, vkind, v):
        if isinstance(v, NoneV) and vkind in ('rseq', 'mat', 'opaque', 'aseq', 'iseq'):
            return none_const(VKIND_SORT[vkind])
        if vkind == 'real':
            return real(v)
        if vkind == 'int':
            return intterm(v)
        if vkind == 'bool':
            return to_bool_term(v)
        if vkind == 'optarm':
            if isinstance(v, NoneV):
                return OptArm.none
            if isinstance(v, ArmV):
                return OptArm.some(v.term)
            if isinstance(v, OptArmV):
                return v.term
        if vkind == 'opaque' and isinstance(v, Ref) and isinstance(run.deref(v), Obj) and 'state' in run.deref(v).fields:
            return run.deref(v).fields['state'].term
        if vkind in ('mat', 'rseq', 'opaque', 'arm', 'aseq', 'iseq') and hasattr(v, 'term'):
            return v.term
        raise Unsupported('store %r into %s column' % (v, vkind))

    def map_set(self, run, ref, key, v):
        m = run.deref(ref)
        if not isinstance(key, ArmV):
            raise Unsupported('dict key %r' % (key,))
        k = key.term
        if isinstance(v, RecordV) or isinstance(v, Ref) and isinstance(run.deref(v), Obj):
            fields = v.fields if isinstance(v, RecordV) else run.deref(v).fields
            was_empty = not m.cols
            nm = MapO(m.keys, m.cols, m.vkinds, m.record_cls) if was_empty else m
            if was_empty and getattr(m, 'shared_rng', None) is not None:
                nm.shared_rng = m.shared_rng
            for f, x in fields.items():
                if f == 'rng' and isinstance(x, Ref) and (not m.cols or '#rng_shared' in nm.cols):
                    if '#rng_shared' not in nm.cols:
                        nm.cols['#rng_shared'] = fresh('col_rng_shared', z3.ArraySort(Arm, Bool))
                        nm.cols['#rng_state'] = fresh('col_rng_state', z3.ArraySort(Arm, Rng))
                        nm.vkinds['#rng_shared'] = 'bool'
                        nm.vkinds['#rng_state'] = 'rngstate'
                    continue
                if f not in nm.cols:
                    if was_empty:
                        vk = _vkind_of(x)
                        nm.cols[f] = fresh('col_' + f, z3.ArraySort(Arm, VKIND_SORT[vk]))
                        nm.vkinds[f] = vk
                    else:
                        raise Unsupported('record field %s not a column' % f)
                nm = nm.with_col(f, z3.Store(nm.cols[f], k, self.col_term(run, nm.vkinds[f], x)))
            if isinstance(v, Ref):
                nm.record_cls = run.deref(v).cls
                # Python stores a reference: a local name bound to the same object now denotes the dictionary entry, so
                # that a later `model.init(...)` through that name updates the stored model (aliasing)
                for _nm, _val in list(run.env.items()):
                    if isinstance(_val, Ref) and _val.loc == v.loc:
                        run.env[_nm] = EntryRef(ref.loc, k)
            if getattr(m, 'shared_rng', None) is not None:
                nm.shared_rng = m.shared_rng
            if '#rng_shared' in nm.cols and 'rng' in fields:
                newkeys = m.keys if run.entails(T.amem(m.keys, k)) else (
                    T.aappend(m.keys, k) if run.entails(z3.Not(T.amem(m.keys, k)))
                    else z3.If(T.amem(m.keys, k), m.keys, T.aappend(m.keys, k)))
                run.set_heap(ref.loc, nm.with_keys(newkeys), 'vals' if z3.eq(newkeys, m.keys) else '*')
                self.store_rng_slot(run, ref.loc, k, fields['rng'])
                return
        elif isinstance(v, Ref) and isinstance(run.deref(v), MapO) and run.deref(v).is_scalar and \
                (not m.cols or set(m.cols) == {'#keys', '#vals'}):
            inner = run.deref(v)
            if not m.cols:
                m = MapO(m.keys, {'#keys': fresh('col_keys', z3.ArraySort(Arm, ASeq)),
                                  '#vals': fresh('col_vals', z3.ArraySort(Arm, RArr))},
                         {'#keys': 'dict.keys', '#vals': 'dict.vals'})
            nm = m.with_col('#keys', z3.Store(m.cols['#keys'], k, inner.keys))
            nm = nm.with_col('#vals', z3.Store(nm.cols['#vals'], k, inner.cols['']))
        else:
            if not m.cols:
                vk = _vkind_of(v)
                m = MapO(m.keys, {'': fresh('col', z3.ArraySort(Arm, VKIND_SORT[vk]))}, {'': vk})
            if not m.is_scalar:
                raise Unsupported('scalar store into record map')
            nm = m.with_col('', z3.Store(m.cols[''], k, self.col_term(run, m.vkinds[''], v)))
        # a new key is appended at the end; an existing key keeps its position (A6: dict preserves insertion order)
        if run.entails(T.amem(m.keys, k)):
            newkeys = m.keys
        elif run.entails(z3.Not(T.amem(m.keys, k))):
            newkeys = T.aappend(m.keys, k)
        else:
            newkeys = z3.If(T.amem(m.keys, k), m.keys, T.aappend(m.keys, k))
        run.set_heap(ref.loc, nm.with_keys(newkeys), 'vals' if z3.eq(newkeys, m.keys) else '*')

    # ---------------------------------------------------------------------------------- getattr
    def getattr(self, run, base, obj, attr):
        if isinstance(base, LibRef) and base.recv is None:
            if base.name == 'np' and attr == 'nan':
                return Num(NAN)
            if base.name == 'np' and attr == 'inf':
                return Num(z3.Const('INF', Real))
            if base.name == 'np' and attr == 'newaxis':
                return NONE
            if base.name == 'math' and attr == 'nan':
                return Num(NAN)
            return LibRef(base.name + '.' + attr)
        if isinstance(base, EntryRef):
            return self.entry_get(run, base, attr)
        if obj is not None:
            if isinstance(obj, IMapO):
                return LibRef('idict.' + attr, base)
            if isinstance(obj, MapO):
                return LibRef('dict.' + attr, base)
            if isinstance(obj, SeqO):
                return LibRef('list.' + attr, base)
            if isinstance(obj, (ListO, SymListO)):
                return LibRef('list.' + attr, base)
        if isinstance(base, SeqV):
            if attr == 'size':
                return Num(seq_len(base))
            if attr == 'shape':
                return TupleV([Num(seq_len(base))])
            if attr == 'ndim':
                return Num(1)
            if attr == 'dtype':
                return OpaqueV(fresh('dtype', Opaque), 'dtype')
            return LibRef('seq.' + attr, base)
        if isinstance(base, MatV):
            if attr == 'shape':
                return TupleV([Num(mrows(base.term)), Num(mcols(base.term))])
            if attr == 'size':
                return Num(mrows(base.term) * mcols(base.term))
            if attr == 'T':
                return MatV(F('mtranspose', Mat, Mat)(base.term))
            if attr == 'ndim':
                return Num(2)
            if attr == 'flags':
                from .libarraylike import mat_c_contig
                return RecordV({'C_CONTIGUOUS': BoolV(mat_c_contig(base.term))})
            return LibRef('mat.' + attr, base)
        if isinstance(base, OpaqueV):
            from . import libarraylike as AL
            if AL.is_al(base):
                return AL.getattr_al(run, base, attr)
            return LibRef('opaque.' + attr, base)
        if isinstance(base, RecordV):
            if attr in base.fields:
                return base.fields[attr]
            return LibRef('record.' + attr, base)
        if isinstance(base, Lazy) and base.kind == 'setof':
            return LibRef('set.' + attr, base)
        raise Unsupported('attribute %s of %r' % (attr, base))

    # ---------------------------------------------------------------------------------- getitem
    def getitem(self, run, base, key):
        if isinstance(base, Ref):
            o = run.deref(base)
            if isinstance(o, IMapO) and isinstance(key, Num):
                k = intterm(key)
                if not run.spec_mode:
                    run.emit('safe.key', z3.And(0 <= k, k < o.n), 'key of an int-keyed dict is present')
                if o.vkind == 'hashtab':
                    return HashTabV(base.loc, k)
                if o.vkind == 'mat':
                    return MatV(o.vals[k])
                raise Unsupported('int-keyed dict of kind %s' % o.vkind)
            if isinstance(o, MapO):
                return self.map_get(run, base, key)
            if isinstance(o, ListO):
                if isinstance(key, Num) and key.concrete() is not None:
                    i = int(key.concrete())
                    if -len(o.items) <= i < len(o.items):
                        return o.items[i]
                    raise PyRaise('IndexError', 'list index')
                raise Unsupported('symbolic index into concrete list')
            if isinstance(o, SeqO):
                return self.getitem(run, SeqV(o.skind, o.term, True), key)
            if isinstance(o, SymListO):
                if isinstance(key, Num):
                    i = intterm(key)
                    if z3.is_int_value(z3.simplify(i)) and z3.simplify(i).as_long() < 0:
                        i = o.length + i
                    if not run.spec_mode:
                        run.emit('safe.index', z3.And(0 <= i, i < o.length), 'list index in range')
                    return unbox(run, o.elems[i], o.ekind)
                raise Unsupported('list subscript %r' % (key,))
        if isinstance(base, EntryRef):
            if isinstance(key, StrV):
                return self.entry_get(run, base, key.s)
        if isinstance(base, RecordV):
            if isinstance(key, StrV) and key.s in base.fields:
                return base.fields[key.s]
        if isinstance(base, TupleV):
            if isinstance(key, Num) and key.concrete() is not None:
                return base.items[int(key.concrete())]
        if isinstance(base, HashTabV) and isinstance(key, (Num, BoolV)):
            # defaultdict(list): a missing key yields (and stores) the empty list -- the total-function view
            m = run.st.heap[base.loc]
            return SeqV('I', m.vals[base.k][real(key)], True)
        if isinstance(base, SeqV):
            return self.seq_getitem(run, base, key)
        if isinstance(base, MatV):
            return self.mat_getitem(run, base, key)
        raise Unsupported('subscript %r[%r]' % (base, key))

    def seq_getitem(self, run, s, key):
        if isinstance(key, Num):
            i = intterm(key)
            n = seq_len(s)
            c = key.concrete()
            if c is not None and c < 0:
                i = n + i
            if not run.spec_mode:
                run.emit('safe.index', z3.And(0 <= i, i < n), 'sequence index in range')
            if s.kind == 'A':
                return ArmV(T.aat(s.term, i))
            if s.kind == 'R':
                return Num(T.rat(s.term, i))
            if s.kind == 'I':
                from .libcalls import mk_iat
                return Num(mk_iat(s.term, i))
            if s.kind == 'B':
                return BoolV(T.bat(s.term, i))
        if isinstance(key, SeqV) and key.kind == 'B':
            if not run.spec_mode:
                run.emit('safe.mask', seq_len(s) == seq_len(key), 'mask length equals array length')
                run.st.assume(seq_len(s) == seq_len(key))
            if s.kind == 'R':
                return SeqV('R', T.rsel(s.term, key.term))
            if s.kind == 'A':
                return SeqV('A', T.asel(s.term, key.term))
        if isinstance(key, tuple) and key[0] == 'slice':
            return self.seq_slice(run, s, key)
        if isinstance(key, tuple) and key[0] == 'tuple' and len(key[1]) == 2 and isinstance(key[1][0], NoneV) \
                and key[1][1] == ('slice', None, None, None) and s.kind == 'R':
            from .libcalls import row1
            return MatV(row1(s.term))          # row[np.newaxis, :]
        if isinstance(key, SeqV) and key.kind == 'I' or isinstance(key, TupleV) and len(key.items) == 1:
            idx = key if isinstance(key, SeqV) else key.items[0]
            return self.seq_take(run, s, idx)
        raise Unsupported('sequence subscript %r' % (key,))

    def seq_slice(self, run, s, key):
        _, lo, hi, step = key
        if step is not None:
            raise Unsupported('slice step')
        n = seq_len(s)
        lo_t = intterm(lo) if lo is not None else z3.IntVal(0)
        hi_t = intterm(hi) if hi is not None else n
        fn = {'A': F('aslice', ASeq, Int, Int, ASeq), 'R': F('rslice', RSeq, Int, Int, RSeq),
              'I': F('islice', ISeq, Int, Int, ISeq), 'B': F('bslice', BSeq, Int, Int, BSeq)}[s.kind]
        return SeqV(s.kind, fn(s.term, lo_t, hi_t), s.pylist)

    def seq_take(self, run, s, idx):
        fn = {'A': F('atake', ASeq, ISeq, ASeq), 'R': F('rtake', RSeq, ISeq, RSeq)}[s.kind]
        return SeqV(s.kind, fn(s.term, idx.term))

    def mat_getitem(self, run, mval, key):
        if isinstance(key, SeqV) and key.kind == 'B':
            return MatV(F('msel', Mat, BSeq, Mat)(mval.term, key.term))
        if isinstance(key, SeqV) and key.kind == 'I':
            return MatV(F('mtake', Mat, ISeq, Mat)(mval.term, key.term))
        if isinstance(key, TupleV) and len(key.items) == 1 and isinstance(key.items[0], SeqV):
            return MatV(F('mtake', Mat, ISeq, Mat)(mval.term, key.items[0].term))
        if isinstance(key, Num):
            i = intterm(key)
            if not run.spec_mode:
                run.emit('safe.index', z3.And(0 <= i, i < mrows(mval.term)), 'row index in range')
            return SeqV('R', F('mrow', Mat, Int, RSeq)(mval.term, i))
        if isinstance(key, tuple) and key[0] == 'slice':
            _, lo, hi, step = key
            lo_t = intterm(lo) if lo is not None else z3.IntVal(0)
            hi_t = intterm(hi) if hi is not None else mrows(mval.term)
            return MatV(F('mslice', Mat, Int, Int, Mat)(mval.term, lo_t, hi_t))
        if isinstance(key, tuple) and key[0] == 'tuple' and len(key[1]) == 2 and key[1][0] == ('slice', None, None, None) \
                and isinstance(key[1][1], Num):
            j = intterm(key[1][1])          # M[:, j]: one column
            if not run.spec_mode:
                run.emit('safe.index', z3.And(0 <= j, j < mcols(mval.term)), 'column index in range')
            return SeqV('R', F('mcol', Mat, Int, RSeq)(mval.term, j))
        raise Unsupported('matrix subscript %r' % (key,))

    # ---------------------------------------------------------------------------------- setitem
    def setitem(self, run, base, key, v):
        if isinstance(base, HashTabV) and isinstance(key, (Num, BoolV)):
            m = run.st.heap[base.loc]
            sv = self.as_seq(run, v)
            if sv is None or sv.kind != 'I':
                if isinstance(v, Ref) and isinstance(run.deref(v), ListO) and not run.deref(v).items:
                    sv = SeqV('I', F('iempty', ISeq), True)
                else:
                    raise Unsupported('hash-table bucket assigned a non-index list')
            inner = z3.Store(m.vals[base.k], real(key), sv.term)
            run.set_heap(base.loc, IMapO(m.n, z3.Store(m.vals, base.k, inner), m.vkind))
            return None
        if isinstance(base, Ref):
            o = run.deref(base)
            if isinstance(o, IMapO) and isinstance(key, Num):
                k = intterm(key)
                if o.vkind == 'mat' and isinstance(v, MatV):
                    run.set_heap(base.loc, IMapO(o.n, z3.Store(o.vals, k, v.term), o.vkind))
                    return None
                raise Unsupported('assignment into an int-keyed dict of kind %s' % o.vkind)
            if isinstance(o, MapO):
                self.map_set(run, base, key, v)
                return None
            if isinstance(o, ListO) and isinstance(key, Num) and key.concrete() is not None:
                items = list(o.items)
                items[int(key.concrete())] = v
                run.set_heap(base.loc, ListO(items))
                return None
            if isinstance(o, SymListO) and isinstance(key, Num):
                i = intterm(key)
                if not run.spec_mode:
                    run.emit('safe.index', z3.And(0 <= i, i < o.length), 'list index in range')
                ek = ekind_of(run, v) if o.ekind in (None, 'none') else o.ekind
                run.set_heap(base.loc, SymListO(o.length, z3.Store(o.elems, i, box(run, v)), ek))
                return None
        if isinstance(base, EntryRef) and isinstance(key, StrV):
            self.entry_set(run, base, key.s, v)
            return None
        if isinstance(base, MatV):
            from .liblinalg import mat_setitem
            return mat_setitem(self, run, base, key, v)
        raise Unsupported('item store %r[%r]' % (base, key))

    # --------------------------------------------------------------------------------- operators
    def binop(self, run, op, a, b, inplace=False):
        if op == 'Add' and (isinstance(a, StrV) or isinstance(b, StrV) or
                            (isinstance(a, OpaqueV) and a.what == 'str') or (isinstance(b, OpaqueV) and b.what == 'str')):
            return OpaqueV(fresh('str', Opaque), 'str')        # message strings: content irrelevant
        if isinstance(a, (Num, BoolV)) and isinstance(b, (Num, BoolV)):
            return self.num_binop(run, op, a, b)
        if isinstance(a, (ArmV, OptArmV)) or isinstance(b, (ArmV, OptArmV)):
            raise Unsupported('arm-parametric: arithmetic (%s) on an arm label' % op)
        if isinstance(a, Ref) and isinstance(b, (Ref, SeqV)) and op == 'Add' and \
                isinstance(run.deref(a), (ListO, SeqO, SymListO)):
            return self.list_concat(run, a, b)
        if isinstance(a, SeqV) and a.pylist and isinstance(b, (SeqV, Ref)) and op == 'Add':
            return self.list_concat(run, a, b)
        if isinstance(a, Ref) and op == 'Mult' and isinstance(run.deref(a), ListO):
            o = run.deref(a)
            if len(o.items) == 1 and isinstance(b, Num):
                n = intterm(b)
                x = o.items[0]
                if isinstance(x, ArmV):
                    return SeqV('A', T.arepeat(x.term, n), True)
                return run.st.alloc(SymListO(n, z3.K(Int, box(run, x)), ekind_of(run, x)))
        if isinstance(a, Lazy) and isinstance(b, Lazy) and a.kind == b.kind == 'setof' and op in ('BitAnd', 'BitOr', 'Sub'):
            return self.set_op(run, op, a, b)
        from .libnp import np_binop
        return np_binop(self, run, op, a, b, inplace)

    def set_op(self, run, op, a, b):
        """intersection / union / difference of two sets of labels: a set again (its members are characterised, its
        iteration order is not)"""
        sa = self.as_seq(run, a.payload)
        sb = self.as_seq(run, b.payload) if isinstance(b, Lazy) else self.as_seq(run, b)
        if sa is None or sb is None or sa.kind != 'A' or sb.kind != 'A':
            raise Unsupported('set operation on other than label sets')
        nm = {'BitAnd': 'aset_and', 'BitOr': 'aset_or', 'Sub': 'aset_sub'}[op]
        f = F(nm, ASeq, ASeq, ASeq)
        s_, t_, x_ = z3.Const('s', ASeq), z3.Const('t', ASeq), z3.Const('x', Arm)
        rel = {'BitAnd': z3.And(T.amem(s_, x_), T.amem(t_, x_)), 'BitOr': z3.Or(T.amem(s_, x_), T.amem(t_, x_)),
               'Sub': z3.And(T.amem(s_, x_), z3.Not(T.amem(t_, x_)))}[op]
        axiom(nm + '.mem', forall([s_, t_, x_], T.amem(f(s_, t_), x_) == rel, [T.amem(f(s_, t_), x_)]), [nm], 'definitional')
        axiom(nm + '.distinct', forall([s_, t_], T.adistinct(f(s_, t_)), [f(s_, t_)]), [nm], 'definitional')
        return Lazy('setof', payload=SeqV('A', f(sa.term, sb.term), True))

    def list_concat(self, run, a, b):
        def as_seq(v):
            if isinstance(v, SeqV):
                return v
            o = run.deref(v)
            if isinstance(o, SeqO):
                return SeqV(o.skind, o.term, True)
            return None
        sa, sb = as_seq(a), as_seq(b)
        if sa is not None and sb is not None and sa.kind == sb.kind:
            fn = {'A': T.aconcat, 'R': T.rconcat, 'I': F('iconcat', ISeq, ISeq, ISeq)}[sa.kind]
            return SeqV(sa.kind, fn(sa.term, sb.term), True)
        oa = run.deref(a) if isinstance(a, Ref) else None
        ob = run.deref(b) if isinstance(b, Ref) else None
        if isinstance(oa, ListO) and isinstance(ob, ListO):
            return run.st.alloc(ListO(oa.items + ob.items))
        if isinstance(oa, ListO) and sb is not None and sb.kind == 'I' and all(isinstance(x, Num) for x in oa.items):
            t = sb.term
            for x in reversed(oa.items):
                t = F('icons', Int, ISeq, ISeq)(intterm(x), t)
            return SeqV('I', t, True)
        if isinstance(oa, SymListO) and isinstance(ob, SymListO):
            i = smt.bound('icat', Int)
            ek = oa.ekind if oa.ekind not in (None, 'none') else ob.ekind
            return run.st.alloc(SymListO(oa.length + ob.length,
                                         z3.Lambda([i], z3.If(i < oa.length, oa.elems[i], ob.elems[i - oa.length])), ek))
        if isinstance(oa, SymListO) and isinstance(ob, ListO):
            el = oa.elems
            for k, x in enumerate(ob.items):
                el = z3.Store(el, oa.length + k, box(run, x))
            ek = oa.ekind if oa.ekind not in (None, 'none') or not ob.items else ekind_of(run, ob.items[0])
            return run.st.alloc(SymListO(oa.length + len(ob.items), el, ek))
        if isinstance(oa, ListO) and isinstance(ob, SymListO) and not oa.items:
            return run.st.alloc(SymListO(ob.length, ob.elems, ob.ekind))
        raise Unsupported('list concatenation')

    def num_binop(self, run, op, a, b):
        both_int = all((isinstance(x, BoolV) or x.is_int) for x in (a, b))
        if both_int and op in ('Add', 'Sub', 'Mult', 'FloorDiv', 'Mod', 'Pow'):
            x, y = intterm(a), intterm(b)
            if op == 'Add':
                return Num(x + y)
            if op == 'Sub':
                return Num(x - y)
            if op == 'Mult':
                return Num(x * y)
            if op == 'FloorDiv':
                if not run.spec_mode:
                    run.emit('safe.div', y != 0, 'integer division by non-zero')
                # Python floor division == SMT-LIB div for positive divisors; general case via ite
                # Python floor division; SMT-LIB div is Euclidean, equal to floor for positive divisors
                return Num(z3.If(y > 0, x / y, (-x) / (-y)))
            if op == 'Mod':
                if not run.spec_mode:
                    run.emit('safe.div', y != 0, 'modulo by non-zero')
                return Num(x - y * z3.If(y > 0, x / y, (-x) / (-y)))
            if op == 'Pow':
                cy = z3.simplify(y)
                if z3.is_int_value(cy) and cy.as_long() >= 0:
                    r = z3.IntVal(1)
                    for _ in range(cy.as_long()):
                        r = r * x
                    return Num(r)
                cx = z3.simplify(x)
                if z3.is_int_value(cx) and cx.as_long() == 2:
                    return Num(F('pow2', Int, Int)(y))
                raise Unsupported('integer power')
        x, y = real(a), real(b)
        if op == 'Add':
            return Num(x + y)
        if op == 'Sub':
            return Num(x - y)
        if op == 'Mult':
            return Num(T.rmul(x, y))
        if op == 'Div':
            if not run.spec_mode:
                run.emit('safe.div', y != 0, 'division by non-zero')
            return Num(x / y)
        if op == 'Pow':
            cy = z3.simplify(y)
            if z3.is_rational_value(cy) and cy.denominator_as_long() == 1 and 0 <= cy.numerator_as_long() <= 8:
                r = z3.RealVal(1)
                for _ in range(cy.numerator_as_long()):
                    r = r * x
                return Num(r)
        raise Unsupported('numeric operator %s' % op)

    def unop(self, run, op, v):
        if isinstance(v, Num):
            if op == 'USub':
                return Num(-v.term)
            if op == 'UAdd':
                return v
        if isinstance(v, SeqV) and v.kind == 'B' and op == 'Invert':
            return SeqV('B', T.bnot(v.term))
        raise Unsupported('unary %s on %r' % (op, v))

    def compare(self, run, op, a, b):
        if op in ('Is', 'IsNot'):
            r = self.is_same(run, a, b)
            return BoolV(r if op == 'Is' else z3.Not(r))
        if op in ('In', 'NotIn'):
            r = self.contains(run, b, a)
            return BoolV(r if op == 'In' else z3.Not(r))
        if isinstance(a, (Num, BoolV)) and isinstance(b, (Num, BoolV)):
            if isinstance(a, BoolV) and isinstance(b, BoolV) and op in ('Eq', 'NotEq'):
                return BoolV(a.term == b.term if op == 'Eq' else a.term != b.term)
            if all(isinstance(x, BoolV) or x.is_int for x in (a, b)):
                x, y = intterm(a), intterm(b)
            else:
                x, y = real(a), real(b)
            return BoolV({'Eq': x == y, 'NotEq': x != y, 'Lt': x < y, 'LtE': x <= y, 'Gt': x > y, 'GtE': x >= y}[op])
        if isinstance(a, ArmV) and isinstance(b, ArmV):
            if op == 'Eq':
                return BoolV(a.term == b.term)
            if op == 'NotEq':
                return BoolV(a.term != b.term)
            raise Unsupported('arm-parametric: order comparison of arm labels')
        if (isinstance(a, (ArmV, OptArmV)) or isinstance(b, (ArmV, OptArmV))) and \
                (op in ('Lt', 'LtE', 'Gt', 'GtE') or isinstance(a, (Num, StrV)) or isinstance(b, (Num, StrV))):
            raise Unsupported('arm-parametric: comparison (%s) of an arm label with a constant or by order' % op)
        if isinstance(a, Lazy) and isinstance(b, Lazy) and a.kind == b.kind == 'setof' and op in ('Eq', 'NotEq'):
            sa, sb = self.as_seq(run, a.payload), self.as_seq(run, b.payload)
            if sb is None and isinstance(b.payload, Lazy) and b.payload.kind == 'dictview':
                sb = SeqV('A', run.deref(b.payload.payload[1]).keys, True)
            if sa is None and isinstance(a.payload, Lazy) and a.payload.kind == 'dictview':
                sa = SeqV('A', run.deref(a.payload.payload[1]).keys, True)
            if sa is not None and sb is not None and sa.kind == sb.kind == 'A':
                w = smt.bound('aset', Arm)
                eq = z3.ForAll([w], T.amem(sa.term, w) == T.amem(sb.term, w))
                return BoolV(eq if op == 'Eq' else z3.Not(eq))
        if isinstance(a, StrV) and isinstance(b, StrV) and op in ('Eq', 'NotEq'):
            return BoolV((a.s == b.s) == (op == 'Eq'))
        if isinstance(a, OptArmV) or isinstance(b, OptArmV):
            ta = self.col_term(run, 'optarm', a)
            tb = self.col_term(run, 'optarm', b)
            return BoolV(ta == tb if op == 'Eq' else ta != tb)
        if isinstance(a, NoneV) or isinstance(b, NoneV):
            r = self.is_same(run, a, b)
            if op == 'Eq':
                return BoolV(r)
            if op == 'NotEq':
                return BoolV(z3.Not(r))
        if hasattr(a, 'term') and hasattr(b, 'term') and run.spec_mode and a.term.sort() == b.term.sort() \
                and op in ('Eq', 'NotEq') and not isinstance(a, (SeqV, MatV)):
            return BoolV(a.term == b.term if op == 'Eq' else a.term != b.term)
        if run.spec_mode and isinstance(a, (SeqV, MatV)) and type(a) is type(b) and op in ('Eq', 'NotEq'):
            return BoolV(a.term == b.term if op == 'Eq' else a.term != b.term)
        if run.spec_mode and isinstance(a, Ref) and isinstance(b, Ref) and op in ('Eq', 'NotEq'):
            oa, ob = run.deref(a), run.deref(b)
            if isinstance(oa, SeqO) and isinstance(ob, SeqO):
                return BoolV(oa.term == ob.term if op == 'Eq' else oa.term != ob.term)
        if run.spec_mode and op in ('Eq', 'NotEq'):
            sa, sb = self.as_seq(run, a), self.as_seq(run, b)
            if sa is not None and sb is not None and sa.kind == sb.kind:
                return BoolV(sa.term == sb.term if op == 'Eq' else sa.term != sb.term)
        from .libnp import np_compare
        return np_compare(self, run, op, a, b)

    def as_seq(self, run, v):
        if isinstance(v, SeqV):
            return v
        if isinstance(v, Ref):
            o = run.deref(v)
            if isinstance(o, SeqO):
                return SeqV(o.skind, o.term, True)
        return None

    def is_same(self, run, a, b):
        if isinstance(a, NoneV) and isinstance(b, NoneV):
            return z3.BoolVal(True)
        if isinstance(a, NoneV) or isinstance(b, NoneV):
            other = b if isinstance(a, NoneV) else a
            if isinstance(other, OpaqueV):
                return T_isnone(other.term)
            if isinstance(other, OptArmV):
                return other.term == OptArm.none
            if isinstance(other, ArmV):
                return F('arm_is_none', Arm, Bool)(other.term)     # arm labels are opaque: None-ness is a predicate
            if isinstance(other, (SeqV, MatV)):
                if other.maybe_none:
                    return other.term == none_const(other.term.sort())
                return z3.BoolVal(False)
            return z3.BoolVal(False)
        if isinstance(a, Ref) and isinstance(b, Ref):
            return z3.BoolVal(a.loc == b.loc)
        if isinstance(a, BoolV) and isinstance(b, BoolV):
            return a.term == b.term
        raise Unsupported('identity comparison of %r and %r' % (a, b))

    def contains(self, run, container, x):
        if isinstance(container, Ref):
            o = run.deref(container)
            if isinstance(o, MapO):
                if isinstance(x, ArmV):
                    return T.amem(o.keys, x.term)
            if isinstance(o, SeqO) and o.skind == 'A' and isinstance(x, ArmV):
                return T.amem(o.term, x.term)
            if isinstance(o, ListO):
                if all(isinstance(i, StrV) for i in o.items) and isinstance(x, StrV):
                    return z3.BoolVal(x.s in [i.s for i in o.items])
                if all(isinstance(i, StrV) for i in o.items) and isinstance(x, OpaqueV):
                    # membership of a symbolic string in a constant table (supported metric names)
                    return F('in_table_' + str(len(o.items)), Opaque, Bool)(x.term)
                if isinstance(x, ArmV) and all(isinstance(i, ArmV) for i in o.items):
                    return z3.Or(*[x.term == i.term for i in o.items]) if o.items else z3.BoolVal(False)
                if isinstance(x, Num) and all(isinstance(i, ArmV) for i in o.items) and o.items:
                    # `np.nan in [arm]`, `np.inf in [arm]`: predicates of the opaque label
                    which = 'arm_is_nan' if z3.eq(x.term, NAN) else 'arm_is_inf'
                    return z3.Or(*[F(which, Arm, Bool)(i.term) for i in o.items])
            if isinstance(o, SeqO) and o.skind == 'A' and isinstance(x, (NoneV, Num)):
                # `None in arms`, `np.nan in arms`, `np.inf in arms`
                which = 'has_none' if isinstance(x, NoneV) else ('has_nan' if z3.eq(x.term, NAN) else 'has_inf')
                return F(which, ASeq, Bool)(o.term)
        if isinstance(container, SeqV) and container.kind == 'A' and isinstance(x, ArmV):
            return T.amem(container.term, x.term)
        if isinstance(container, LibRef) and container.name == 'dictview.keys' and isinstance(x, ArmV):
            return T.amem(run.deref(container.recv).keys, x.term)
        raise Unsupported('membership test %r in %r' % (x, container))

    # ------------------------------------------------------------------------------------- calls
    def call(self, run, name, recv, args, kwargs, node=None):
        from . import libcalls, liblinalg, libml, libarraylike      # noqa: registration of the call table
        if name.startswith('exc.'):
            return OpaqueV(fresh('exc', Opaque), 'exc:' + name[4:])     # an exception object (only its class matters)
        if name in NONPARAMETRIC and any(_is_label(run, a) for a in list(args) + ([recv] if recv is not None else [])):
            # C20 (MT3): labels may only be compared for equality, hashed by dicts and stored
            raise Unsupported('arm-parametric: %s applied to arm labels' % name)
        h = libcalls.TABLE.get(name)
        if h is None:
            # method tables by receiver kind
            raise Unsupported('library call %s' % name)
        run.note('lib:' + name)
        return h(self, run, recv, args, kwargs)

    def call_opaque(self, run, f, args, kwargs):
        from . import libcalls
        return libcalls.call_opaque(self, run, f, args, kwargs)


NONPARAMETRIC = {'builtins.sorted', 'builtins.hash', 'builtins.int', 'builtins.float', 'builtins.ord', 'builtins.abs',
                 'builtins.round', 'builtins.repr', 'builtins.id', 'np.sort', 'np.argsort', 'list.sort', 'np.lexsort',
                 'seq.sort', 'seq.argsort'}


def _is_label(run, v):
    if isinstance(v, (ArmV, OptArmV)):
        return True
    if isinstance(v, SeqV) and v.kind == 'A':
        return True
    if isinstance(v, Ref):
        try:
            o = run.deref(v)
        except Exception:      # noqa
            return False
        if isinstance(o, SeqO) and o.skind == 'A':
            return True
        if isinstance(o, ListO) and o.items and all(isinstance(i, ArmV) for i in o.items):
            return True
    return False


_none_consts = {}


def none_const(sort):
    """the value None stored in a column of term-valued entries"""
    k = str(sort)
    if k not in _none_consts:
        _none_consts[k] = z3.Const('none:' + k, sort)
        if sort == Opaque:
            xo = z3.Const('xo', Opaque)
            axiom('none.opaque', T_isnone(_none_consts[k]), ['none:' + k], 'definitional')
            axiom('none.unique', forall([xo], z3.Implies(T_isnone(xo), xo == _none_consts[k]), [T_isnone(xo)]),
                  ['none:' + k], 'definitional')
    return _none_consts[k]


def _vkind_of(x):
    if isinstance(x, Num):
        return 'real'
    if isinstance(x, BoolV):
        return 'bool'
    if isinstance(x, (NoneV, OptArmV)):
        return 'optarm'
    if isinstance(x, ArmV):
        return 'arm'
    if isinstance(x, MatV):
        return 'mat'
    if isinstance(x, SeqV):
        return {'R': 'rseq', 'A': 'aseq', 'I': 'iseq'}[x.kind]
    if isinstance(x, OpaqueV):
        return 'opaque'
    raise Unsupported('column kind of %r' % (x,))
