"""Contracts: clause evaluation, modifies/havoc, call-site rule, frame obligations (DESIGN.md 2.3, 2.4)."""
import ast
import re
import z3
from . import smt, spec as specmod
from .smt import fresh, Arm, ASeq, RSeq, Real, Bool, Int
from .values import *      # noqa
from .engine import Frame, to_bool_term, ReturnSignal


# ------------------------------------------------------------------------------------------- clauses
def eval_expr_in(run, text, env, old_state=None, fi=None, dyn_cls=None):
    node = ast.parse(text.strip(), mode='eval').body
    run.frames.append(Frame(fi, dict(env), dyn_cls))
    saved_old = run.old_state
    run.spec_mode += 1
    if old_state is not None:
        run.old_state = old_state
    try:
        return run.ev(node)
    finally:
        run.spec_mode -= 1
        run.old_state = saved_old
        run.frames.pop()


def eval_clause(run, clause, env, old_state=None, fi=None, dyn_cls=None):
    v = eval_expr_in(run, clause.text, env, old_state, fi, dyn_cls)
    return to_bool_term(v)


def expand(run, clauses, env, dyn_cls, inherited=()):
    """Expand INV tokens into invariant clauses.  INV[.prefix][~excl]*  is the invariant of the dynamic class of self;
    INV(expr)[.prefix][~excl]* that of another object.  Exclusions are inherited by nested tokens."""
    out = []
    for c in clauses:
        m = re.match(r'^INV(\((.*)\))?(\.[A-Za-z_.]+)?((~[A-Za-z_.]+)*)$', c.text, re.S)
        if not m:
            out.append(c)
            continue
        inner = m.group(2)
        pre = m.group(3)[1:] if m.group(3) else None
        excl = [e for e in (m.group(4) or '').split('~') if e] + list(inherited)
        if inner is None:
            cls = dyn_cls
            label = 'inv.'
        else:
            v = eval_expr_in(run, inner, env)
            cls = run.deref(v).cls
            label = 'inv(%s).' % inner
        sub = []
        for ic in specmod.class_inv(run.repo, cls, pre, excl or None):
            txt = ic.text if inner is None else re.sub(r'\bself\b', '(' + inner + ')', ic.text)
            sub.append(specmod.Clause(txt, ic.props or c.props, label + (ic.name or '')))
        out.extend(expand(run, sub, env, dyn_cls, inherited=excl))
    return out


# ------------------------------------------------------------------------------------------ modifies
def parse_modifies(run, texts, env, fi=None, dyn_cls=None):
    """-> list of location descriptors (see module doc)."""
    out = []
    for t in texts:
        t = t.strip()
        if t.endswith('?'):
            # optional location: skipped when the field does not exist for the receiver's class
            t = t[:-1]
            m0 = re.match(r'^(.*)\.([A-Za-z_][A-Za-z_0-9]*)$', t)
            try:
                base = eval_expr_in(run, m0.group(1), env, fi=fi, dyn_cls=dyn_cls)
                if not (isinstance(base, Ref) and m0.group(2) in run.deref(base).fields):
                    continue
            except (Unsupported, PyRaise):
                continue
        if t.endswith('.**'):
            v = eval_expr_in(run, t[:-3], env, fi=fi, dyn_cls=dyn_cls)
            if isinstance(v, Ref):
                out.append(('deep', v.loc))
            continue
        if t.endswith('[*]'):
            v = eval_expr_in(run, t[:-3], env, fi=fi, dyn_cls=dyn_cls)
            out.append(('vals', v.loc))
            continue
        if t.endswith('{}'):
            v = eval_expr_in(run, t[:-2], env, fi=fi, dyn_cls=dyn_cls)
            out.append(('map', v.loc))
            continue
        m = re.match(r'^(.*)\[([^\[\]]+)\]$', t)
        if m:
            v = eval_expr_in(run, m.group(1), env, fi=fi, dyn_cls=dyn_cls)
            k = eval_expr_in(run, m.group(2), env, fi=fi, dyn_cls=dyn_cls)
            out.append(('entry', v.loc, k.term))
            continue
        m = re.match(r'^(.*)\.([A-Za-z_][A-Za-z_0-9]*)$', t)
        if m:
            m2 = re.match(r'^(.*)\.rng\.rng$', m.group(1))
            if m2 and m.group(2) == 'state':
                base = eval_expr_in(run, m2.group(1), env, fi=fi, dyn_cls=dyn_cls)
                if isinstance(base, EntryRef):
                    out.append(('entrycol', base.loc, base.key, 'rng'))
                    continue
            m3 = re.match(r'^(.*)\.scaler$', m.group(1))
            if m3 and m.group(2) == 'state':
                base = eval_expr_in(run, m3.group(1), env, fi=fi, dyn_cls=dyn_cls)
                if isinstance(base, EntryRef):
                    out.append(('entrycol', base.loc, base.key, 'scaler'))
                    continue
            v = eval_expr_in(run, m.group(1), env, fi=fi, dyn_cls=dyn_cls)
            if isinstance(v, Ref):
                out.append(('field', v.loc, m.group(2)))
                continue
            if isinstance(v, NoneV):
                continue        # a field of an absent (None) sub-object: nothing to modify
            if isinstance(v, EntryRef):
                out.append(('entrycol', v.loc, v.key, m.group(2)))
                continue
        raise Unsupported('modifies clause %r' % t)
    return out


SHARED_FIELDS = ('arms', 'rng')      # the arm list and the generator are shared with the owner, not part of `x.**`


def reachable(st, loc, acc=None):
    acc = set() if acc is None else acc
    if loc in acc:
        return acc
    acc.add(loc)
    o = st.heap.get(loc)
    if isinstance(o, Obj):
        for f, v in o.fields.items():
            if f in SHARED_FIELDS and o.cls not in ('_NumpyRNG', 'np.Generator'):
                continue
            _reach_val(st, v, acc)
    elif isinstance(o, ListO):
        for v in o.items:
            _reach_val(st, v, acc)
    return acc


def _reach_val(st, v, acc):
    if isinstance(v, Ref):
        reachable(st, v.loc, acc)
    elif isinstance(v, TupleV):
        for x in v.items:
            _reach_val(st, x, acc)
    elif isinstance(v, RecordV):
        for x in v.fields.values():
            _reach_val(st, x, acc)


def havoc(run, descs, dyn_cls_of=None):
    st = run.st
    for d in descs:
        if d[0] == 'deep':
            for loc in sorted(reachable(st, d[1])):
                _havoc_obj(run, loc)
        elif d[0] == 'vals':
            m = st.heap[d[1]]
            if isinstance(m, SeqO):
                st.heap[d[1]] = SeqO(m.skind, fresh('hv_seq', m.term.sort()))
            elif isinstance(m, IMapO):
                st.heap[d[1]] = IMapO(m.n, fresh('hv_imap', m.vals.sort()), m.vkind)
            elif isinstance(m, MapO):
                nm = m
                for c, arr in m.cols.items():
                    nm = nm.with_col(c, fresh('hv_' + (c or 'v'), arr.sort()))
                st.heap[d[1]] = nm
            else:
                _havoc_obj(run, d[1])
        elif d[0] == 'map':
            _havoc_obj(run, d[1])
        elif d[0] == 'entry':
            m = st.heap[d[1]]
            nm = m
            for c, arr in m.cols.items():
                nm = nm.with_col(c, z3.Store(arr, d[2], fresh('hv_' + (c or 'v'), arr.sort().range())))
            st.heap[d[1]] = nm
        elif d[0] == 'entrycol':
            m = st.heap[d[1]]
            if d[3] == 'rng':
                # the entry's generator advances: shared generator or private state, whichever the entry uses
                sh = m.cols['#rng_shared'][d[2]]
                if getattr(m, 'shared_rng', None) is not None:
                    gen = st.heap[m.shared_rng].fields['rng']
                    g = st.heap[gen.loc]
                    oldt = g.fields['state'].term
                    st.heap[gen.loc] = g.set('state', OpaqueV(z3.If(sh, fresh('hv_rng', oldt.sort()), oldt), 'rngstate'))
                    st.written.add((gen.loc, 'state'))
                arr = m.cols['#rng_state']
                nm = m.with_col('#rng_state', z3.Store(arr, d[2], z3.If(sh, arr[d[2]], fresh('hv_rng', arr.sort().range()))))
                st.heap[d[1]] = nm
            else:
                arr = m.cols[d[3]]
                st.heap[d[1]] = m.with_col(d[3], z3.Store(arr, d[2], fresh('hv_' + d[3], arr.sort().range())))
        elif d[0] == 'field':
            o = st.heap[d[1]]
            cls = o.cls
            decl = specmod.class_fields(run.repo, cls).get(d[2])
            if decl is None:
                raise Unsupported('havoc of undeclared field %s.%s' % (cls, d[2]))
            newv = run.eng.materialise(run, decl.replace(' const', ''), 'hv_' + d[2], allow_split=False)
            st.heap[d[1]] = o.set(d[2], newv)


def _havoc_obj(run, loc):
    st = run.st
    o = st.heap[loc]
    if isinstance(o, MapO):
        nm = MapO(fresh('hv_keys', ASeq), {}, o.vkinds, o.record_cls)
        for c, arr in o.cols.items():
            nm.cols[c] = fresh('hv_' + (c or 'v'), arr.sort())
        st.heap[loc] = nm
    elif isinstance(o, SeqO):
        st.heap[loc] = SeqO(o.skind, fresh('hv_seq', SeqV.SORT[o.skind]))
    elif isinstance(o, IMapO):
        st.heap[loc] = IMapO(o.n, fresh('hv_imap', o.vals.sort()), o.vkind)      # same keys 0..n-1, any values
    elif isinstance(o, Obj):
        decls = specmod.class_fields(run.repo, o.cls)
        no = Obj(o.cls, o.fields)
        for f, v in o.fields.items():
            decl = decls.get(f, '')
            if decl.endswith(' const'):
                continue
            if isinstance(v, Ref):
                continue        # the pointee is havocked on its own (reachable set); the pointer is kept
            if isinstance(v, (Num, BoolV, ArmV, SeqV, MatV, OpaqueV, OptArmV)):
                no.fields[f] = _fresh_like(v, 'hv_' + f)
            elif isinstance(v, NoneV) or decl.startswith('opt'):
                if decl:
                    no.fields[f] = run.eng.materialise(run, decl, 'hv_' + f, allow_split=True)
        st.heap[loc] = no
    elif isinstance(o, (ListO, SymListO)):
        raise Unsupported('havoc of list object')


def _fresh_like(v, name):
    if isinstance(v, Num):
        return Num(fresh(name, v.term.sort()))
    if isinstance(v, BoolV):
        return BoolV(fresh(name, Bool))
    if isinstance(v, ArmV):
        return ArmV(fresh(name, Arm))
    if isinstance(v, SeqV):
        return SeqV(v.kind, fresh(name, v.term.sort()), v.pylist)
    if isinstance(v, MatV):
        return MatV(fresh(name, v.term.sort()))
    if isinstance(v, OpaqueV):
        return OpaqueV(fresh(name, v.term.sort()), v.what)
    if isinstance(v, OptArmV):
        return OptArmV(fresh(name, v.term.sort()))
    raise Unsupported('fresh_like')


# -------------------------------------------------------------------------------------- call-site rule
def apply_contract(run, fi, sp, env, dyn_cls, silent=False):
    """Modular call: assert requires, havoc modifies, assume ensures.  The callee body is not looked at."""
    run.note('contract:' + fi.qual)
    if dyn_cls is None and fi.cls:
        dyn_cls = fi.cls
    pre = run.st.clone()
    props = sp.props
    for k, c in enumerate(expand(run, sp.requires, env, dyn_cls)):
        if silent:
            break
        g = eval_clause(run, c, env, fi=fi, dyn_cls=dyn_cls)
        run.emit('call.pre', g, '%s#%d' % (fi.qual, k), props=tuple(set(c.props or ()) | set(run.cur_props)),
                 meta={'callee': fi.qual, 'clause': c.text})
        run.st.assume(g)
    caller_sp = getattr(run, 'top_spec', None)
    if not silent and not sp.raises and caller_sp is not None and fi.name in caller_sp.callee_rejects and fi.cls \
            and run.eng.repo.is_subclass(dyn_cls or fi.cls, 'BaseMAB') and len(run.frames) == 1:
        # an implementor outside the contracts (Clusters, TreeBandit, LSHNearest, a user subclass) may reject the batch
        # from inside training (k-means with fewer rows than clusters, a shape error): the caller must cope with it
        if run.path.choice(2) == 1:
            raise PyRaise('ValueError', 'rejected by the implementor in ' + fi.qual)
    if sp.raises and not silent:
        # the callee may reject the call; its own obligations show that it then leaves everything unchanged
        et = sp.raises[0] if isinstance(sp.raises, (list, tuple)) else 'Exception'
        if sp.raises_iff:
            cond = eval_clause(run, specmod.Clause(sp.raises_iff), env, fi=fi, dyn_cls=dyn_cls)
            if run.branch(cond):
                raise PyRaise(et, 'in ' + fi.qual)
        elif sp.raises_only_if:
            cond = eval_clause(run, specmod.Clause(sp.raises_only_if), env, fi=fi, dyn_cls=dyn_cls)
            if run.branch(cond) and run.path.choice(2) == 1:
                raise PyRaise(et, 'in ' + fi.qual)
        elif run.path.choice(2) == 1:
            raise PyRaise(et, 'in ' + fi.qual)
    if silent:
        descs = []      # a function named inside a clause denotes its value only
    else:
        descs = parse_modifies(run, sp.modifies, env, fi=fi, dyn_cls=dyn_cls)
    result = NONE
    rk = sp.result
    if callable(rk):
        rk = rk(run, env)
    canon = None
    if not isinstance(rk, Val) and rk and sp.functional:
        canon = canonical_result(run, fi, sp, env, kind=rk)       # a function of the *pre*-state read set
    havoc(run, descs)
    for d in descs:
        _mark_written(run, d)
    if isinstance(rk, Val):
        result = rk
    elif canon is not None:
        result = canon
    elif rk and sp.pure and (fi.is_static or sp.reads is not None):
        # a pure static function is a function of its arguments: the result is a canonical term over them
        # (rule: congruence of pure functions; purity is this callee's own frame / no-draw obligation)
        result = canonical_result(run, fi, sp, env)
    elif rk:
        run.mat_env = env
        result = run.eng.materialise(run, rk, 'res_' + fi.name, allow_split=False)
    env2 = dict(env)
    env2['result'] = result
    for c in expand(run, sp.ensures, env, dyn_cls):
        if silent and not sp.pure:
            break       # the post-state facts of a state-changing callee make no sense without its effect
        g = eval_clause(run, c, env2, old_state=pre, fi=fi, dyn_cls=dyn_cls)
        run.st.assume(g)
    return result


def _mark_written(run, d):
    st = run.st
    if d[0] == 'deep':
        for loc in reachable(st, d[1]):
            st.written.add((loc, '*'))
    elif d[0] in ('vals', 'map'):
        st.written.add((d[1], '*' if d[0] == 'map' else 'vals'))
    elif d[0] in ('entry', 'entrycol'):
        st.written.add((d[1], 'vals'))
    elif d[0] == 'field':
        st.written.add((d[1], d[2]))


# ------------------------------------------------------------------------------------ frame checking
def loc_names(st, roots):
    """loc -> access path, from the named roots (param name -> Val)."""
    names = {}

    def walk(v, path):
        if isinstance(v, Ref):
            if v.loc in names:
                return
            names[v.loc] = path
            o = st.heap.get(v.loc)
            if isinstance(o, Obj):
                for f, x in o.fields.items():
                    walk(x, path + '.' + f)
            elif isinstance(o, ListO):
                for i, x in enumerate(o.items):
                    walk(x, '%s[%d]' % (path, i))
        elif isinstance(v, TupleV):
            for i, x in enumerate(v.items):
                walk(x, '%s[%d]' % (path, i))
    for n, v in roots.items():
        walk(v, n)
    return names


def frame_obligations(run, entry, descs, roots, props):
    """Every heap location that existed at entry and differs at exit must be covered by `modifies`."""
    st = run.st
    names = loc_names(entry, roots)
    deep = set()
    for d in descs:
        if d[0] == 'deep':
            deep |= reachable(entry, d[1])
    fields_ok = {(d[1], d[2]) for d in descs if d[0] == 'field'}
    vals_ok = {d[1] for d in descs if d[0] in ('vals', 'map')}
    maps_ok = {d[1] for d in descs if d[0] == 'map'}
    entries = {}
    for d in descs:
        if d[0] in ('entry', 'entrycol'):
            entries.setdefault(d[1], []).append(d[2])
    for loc, o0 in entry.heap.items():
        if loc in deep:
            continue
        o1 = st.heap.get(loc)
        if o1 is o0 or o1 is None:
            continue
        nm = names.get(loc, 'loc%d' % loc)
        if isinstance(o0, Obj):
            for f, v0 in o0.fields.items():
                v1 = o1.fields.get(f)
                if v1 is v0 or (loc, f) in fields_ok:
                    continue
                g = _same_val(v0, v1)
                run.emit('frame', g, '%s.%s' % (nm, f), props=props)
            for f in o1.fields:
                if f not in o0.fields and (loc, f) not in fields_ok:
                    run.emit('frame', z3.BoolVal(False), '%s.%s(new attribute)' % (nm, f), props=props)
        elif isinstance(o0, IMapO):
            if loc in maps_ok or loc in vals_ok:
                continue
            if not z3.eq(o0.n, o1.n):
                run.emit('frame', o0.n == o1.n, '%s{keys}' % nm, props=props)
            if not z3.eq(o0.vals, o1.vals):
                kk = fresh('kk', Int)
                run.emit('frame', z3.Implies(z3.And(0 <= kk, kk < o0.n), o0.vals[kk] == o1.vals[kk]), '%s[*]' % nm,
                         props=props)
        elif isinstance(o0, MapO):
            if loc in maps_ok:
                continue
            if not z3.eq(o0.keys, o1.keys):
                run.emit('frame', o0.keys == o1.keys, '%s{keys}' % nm, props=props)
            if loc in vals_ok:
                continue
            b = fresh('b', Arm)
            allowed = entries.get(loc, [])
            for c, a0 in o0.cols.items():
                a1 = o1.cols[c]
                if z3.eq(a0, a1):
                    continue
                hyp = [b != k for k in allowed]
                g = z3.Implies(z3.And(*hyp) if hyp else z3.BoolVal(True), a1[b] == a0[b])
                run.emit('frame', g, '%s[other keys]%s' % (nm, ('.' + c) if c else ''), props=props)
        elif isinstance(o0, SeqO):
            if loc in vals_ok:
                continue
            if not z3.eq(o0.term, o1.term):
                run.emit('frame', o0.term == o1.term, nm, props=props)
        elif isinstance(o0, ListO):
            if len(o0.items) != len(o1.items) or any(_same_val(x, y) is not True and not z3.is_true(_same_val(x, y))
                                                       for x, y in zip(o0.items, o1.items)):
                run.emit('frame', z3.BoolVal(False), nm + '(list mutated)', props=props)


def caller_owned_stores(run, entry, descs, roots, props):
    """C18: a container the caller passed in (any parameter but self) must not even be *stored into* - a store that keeps
    the abstract value (the same numbers as a new array in place of the caller's list) still changes the caller's object.
    The heap is functional: an object that was replaced was written."""
    st = run.st
    names = loc_names(entry, roots)
    covered = set()
    for d in descs:
        if d[0] == 'deep':
            covered |= reachable(entry, d[1])
        elif len(d) > 1 and isinstance(d[1], int):
            covered.add(d[1])
    for loc, o0 in entry.heap.items():
        nm = names.get(loc)
        if nm is None or loc in covered:
            continue
        root = nm.split('.')[0].split('[')[0]
        if root == 'self' or root not in roots:
            continue
        o1 = st.heap.get(loc)
        if o1 is None or o1 is o0 or not isinstance(o0, (MapO, SeqO, IMapO, ListO, SymListO)):
            continue
        run.emit('frame', z3.BoolVal(False), '%s(stored into a container of the caller)' % nm, props=props)


def _same_val(v0, v1):
    if v0 is v1:
        return z3.BoolVal(True)
    if isinstance(v0, Ref) and isinstance(v1, Ref):
        return z3.BoolVal(v0.loc == v1.loc)
    if isinstance(v0, NoneV) and isinstance(v1, NoneV):
        return z3.BoolVal(True)
    if hasattr(v0, 'term') and hasattr(v1, 'term') and type(v0) is type(v1):
        try:
            a, b = v0.term, v1.term
            if isinstance(v0, Num) and a.sort() != b.sort():
                a, b = v0.real(), v1.real()
            return a == b
        except z3.Z3Exception:
            return z3.BoolVal(False)
    if isinstance(v0, StrV) and isinstance(v1, StrV):
        return z3.BoolVal(v0.s == v1.s)
    return z3.BoolVal(False)


def _flatten(run, v, out):
    if isinstance(v, (Num, BoolV, ArmV, SeqV, MatV, OpaqueV, OptArmV)):
        out.append(v.term)
    elif isinstance(v, StrV):
        out.append(z3.Const('str:' + v.s, smt.Opaque))
    elif isinstance(v, NoneV):
        out.append(z3.BoolVal(False))
    elif isinstance(v, Ref):
        o = run.deref(v)
        if isinstance(o, MapO):
            out.append(o.keys)
            for c in sorted(o.cols):
                out.append(o.cols[c])
        elif isinstance(o, SeqO):
            out.append(o.term)
        elif isinstance(o, IMapO):
            out.append(o.n)
            out.append(o.vals)
        else:
            raise Unsupported('canonical result over an argument of kind %s' % type(o).__name__)
    elif isinstance(v, TupleV):
        for x in v.items:
            _flatten(run, x, out)
    else:
        raise Unsupported('canonical result over %r' % (v,))


def canonical_result(run, fi, sp, env, kind=None):
    from .smt import F, Int, Real, ASeq, RSeq, Arm
    args = []
    tag = ''
    for nm, _ in fi.params():
        if nm == 'self' and not fi.is_static:
            continue
        v = env[nm]
        if isinstance(v, Ref) and isinstance(run.deref(v), Obj):
            continue        # objects enter through the declared read set only
        _flatten(run, v, args)
    for r in (sp.reads or []):
        # declared read set: the part of the state the result is a function of
        if r.endswith(':config'):
            ov = eval_expr_in(run, r[:-7], env, fi=fi)
            o = run.deref(ov)
            tag += '[' + o.cls + ']'
            decls = specmod.class_fields(run.repo, o.cls)
            for f in sorted(o.fields):
                if decls.get(f, '').endswith(' const'):
                    x = o.fields[f]
                    if isinstance(x, StrV):
                        tag += '[' + x.s + ']'
                    else:
                        _flatten(run, x, args)
            continue
        if r.endswith('?'):
            try:
                v = eval_expr_in(run, r[:-1], env, fi=fi)
            except Unsupported:
                continue        # optional read: the field does not exist for this class
            _flatten(run, v, args)
            continue
        _flatten(run, eval_expr_in(run, r, env, fi=fi), args)
    sig = [a.sort() for a in args]
    base = 'fn:' + fi.qual + tag
    kind = kind or sp.result

    def mk(suffix, sort):
        return F('%s%s:%s' % (base, suffix, kind), *sig, sort)(*args)
    RArr = z3.ArraySort(Arm, Real)
    if kind == 'arm':
        return ArmV(mk('', Arm))
    if kind == 'real':
        return Num(mk('', Real))
    if kind == 'int':
        return Num(mk('', Int))
    if kind in ('rseq', 'rlist'):
        return SeqV('R', mk('', RSeq), kind == 'rlist')
    if kind in ('aseq', 'alist'):
        return SeqV('A', mk('', ASeq), kind == 'alist')
    if kind in ('iseq', 'ilist'):
        return SeqV('I', mk('', smt.ISeq), kind == 'ilist')
    if kind == 'map:real':
        return run.st.alloc(MapO(mk('#k', ASeq), {'': mk('#v', RArr)}, {'': 'real'}))
    if kind == 'map:arm':
        return run.st.alloc(MapO(mk('#k', ASeq), {'': mk('#v', z3.ArraySort(Arm, Arm))}, {'': 'arm'}))
    if kind == 'map:dict':
        return run.st.alloc(MapO(mk('#k', ASeq), {'#keys': mk('#ik', z3.ArraySort(Arm, ASeq)),
                                                  '#vals': mk('#iv', z3.ArraySort(Arm, RArr))},
                                 {'#keys': 'dict.keys', '#vals': 'dict.vals'}))
    raise Unsupported('canonical result of kind ' + kind)
