"""Call table of assumed library contracts (CPython built-ins, math, copy, NumPy, SciPy, scikit-learn, joblib)."""
import z3
from . import smt
from .smt import (F, fresh, fresh_fn, Arm, ASeq, RSeq, ISeq, BSeq, Mat, Rng, Opaque, Int, Real, Bool, OptArm, NAN, axiom,
                  forall)
from .values import *     # noqa
from . import theory as T
from .engine import to_bool_term, T_isnone
from .lib import (real, intterm, seq_len, box, unbox, ekind_of, PV, mrows, mcols, ilen, iat, RArr)

TABLE = {}


def reg(*names):
    def deco(f):
        for n in names:
            TABLE[n] = f
        return f
    return deco


def _map(run, v):
    if isinstance(v, Ref):
        o = run.deref(v)
        if isinstance(o, MapO):
            return o
    return None


# ------------------------------------------------------------------------------------------ builtins
@reg('builtins.len')
def _len(lib, run, recv, args, kw):
    v = args[0]
    if isinstance(v, SeqV):
        return Num(seq_len(v))
    if isinstance(v, MatV):
        return Num(mrows(v.term))
    if isinstance(v, TupleV):
        return Num(len(v.items))
    if isinstance(v, RecordV):
        return Num(len(v.fields))
    if isinstance(v, Ref):
        o = run.deref(v)
        if isinstance(o, MapO):
            return Num(T.alen(o.keys))
        if isinstance(o, SeqO):
            return Num(seq_len(SeqV(o.skind, o.term)))
        if isinstance(o, ListO):
            return Num(len(o.items))
        if isinstance(o, SymListO):
            return Num(o.length)
    if isinstance(v, Lazy) and v.kind == 'dictview':
        return Num(T.alen(run.deref(v.payload[1]).keys))
    from . import libarraylike as AL
    if AL.is_al(v):
        return Num(AL.olen(v.term))
    if isinstance(v, Lazy) and v.kind == 'setof':
        s = lib.as_seq(run, v.payload)
        if s is not None and s.kind == 'A':
            return Num(card(s.term))
    raise Unsupported('len(%r)' % (v,))


@reg('builtins.range')
def _range(lib, run, recv, args, kw):
    if len(args) == 1:
        return Lazy('range', payload=(z3.IntVal(0), intterm(args[0])))
    if len(args) == 2:
        return Lazy('range', payload=(intterm(args[0]), intterm(args[1])))
    raise Unsupported('range with step')


@reg('builtins.enumerate')
def _enumerate(lib, run, recv, args, kw):
    return Lazy('enumerate', payload=args[0])


@reg('builtins.zip')
def _zip(lib, run, recv, args, kw):
    return Lazy('zip', payload=list(args))


@reg('builtins.isinstance')
def _isinstance(lib, run, recv, args, kw):
    v, c = args
    classes = c.items if isinstance(c, TupleV) else [c]
    res = [run.eng.isinstance_one(run, v, k) for k in classes]
    if any(r is True for r in res):
        return BoolV(True)
    if all(r is False for r in res):
        return BoolV(False)
    terms = [r for r in res if r is not False]
    return BoolV(z3.Or(*[t if not isinstance(t, bool) else z3.BoolVal(t) for t in terms]))


@reg('builtins.issubclass')
def _issubclass(lib, run, recv, args, kw):
    a, b = args
    if isinstance(a, ClassRef) and isinstance(b, ClassRef):
        return BoolV(run.repo.is_subclass(a.name, b.name))
    raise Unsupported('issubclass')


@reg('builtins.type')
def _type(lib, run, recv, args, kw):
    v = args[0]
    if isinstance(v, Ref) and isinstance(run.deref(v), Obj):
        return ClassRef(run.deref(v).cls)
    raise Unsupported('type()')


@reg('builtins.callable')
def _callable(lib, run, recv, args, kw):
    v = args[0]
    if isinstance(v, (FuncRef, LibRef, ClassRef, Lazy)):
        return BoolV(True)
    if isinstance(v, OpaqueV):
        return BoolV(F('is_callable', Opaque, Bool)(v.term))
    return BoolV(False)


@reg('builtins.hasattr')
def _hasattr(lib, run, recv, args, kw):
    v, a = args
    if isinstance(v, OpaqueV) and isinstance(a, StrV):
        return BoolV(F('has_' + a.s, Opaque, Bool)(v.term))
    if isinstance(v, Ref) and isinstance(run.deref(v), Obj) and isinstance(a, StrV):
        o = run.deref(v)
        if o.cls == 'StandardScaler':
            return BoolV(F('has_' + a.s, Opaque, Bool)(o.fields['state'].term))
        return BoolV(a.s in o.fields)
    raise Unsupported('hasattr')


@reg('builtins.str')
def _str(lib, run, recv, args, kw):
    return OpaqueV(fresh('str', Opaque), 'str')


@reg('builtins.int')
def _int(lib, run, recv, args, kw):
    v = args[0]
    if isinstance(v, Num):
        if v.is_int:
            return v
        # int() truncates toward zero
        t = v.term
        return Num(z3.If(t >= 0, z3.ToInt(t), -z3.ToInt(-t)))
    raise Unsupported('int()')


@reg('builtins.float')
def _float(lib, run, recv, args, kw):
    return Num(real(args[0]))


@reg('builtins.bool')
def _bool(lib, run, recv, args, kw):
    return BoolV(to_bool_term(args[0]))


@reg('builtins.max', 'builtins.min')
def _max(lib, run, recv, args, kw, which=None):
    raise Unsupported('max/min dispatch')


def _minmax(is_max):
    def h(lib, run, recv, args, kw):
        if 'key' in kw and len(args) == 1:
            # max(d, key=d.get): first key with the extremal value (A6)
            m = _map(run, args[0])
            k = kw['key']
            if m is not None and isinstance(k, LibRef) and k.name == 'dict.get' and run.deref(k.recv) is m and m.is_scalar:
                if not run.spec_mode:
                    run.emit('safe.nonempty', T.alen(m.keys) > 0, 'max()/min() of a non-empty dict')
                    run.st.assume(T.alen(m.keys) > 0)
                return ArmV((T.margmax if is_max else T.margmin)(m.keys, m.cols['']))
            raise Unsupported('max/min with key')
        if len(args) == 1:
            v = args[0]
            if isinstance(v, Lazy) and v.kind == 'dictview' and v.payload[0] == 'values':
                m = run.deref(v.payload[1])
                if not run.spec_mode:
                    run.emit('safe.nonempty', T.alen(m.keys) > 0, 'max()/min() of a non-empty dict')
                    run.st.assume(T.alen(m.keys) > 0)
                return Num((T.mmax if is_max else T.mmin)(m.keys, m.cols['']))
            s = lib.as_seq(run, v)
            if s is not None and s.kind == 'R':
                if not run.spec_mode:
                    run.emit('safe.nonempty', T.rlen(s.term) > 0, 'max()/min() of a non-empty sequence')
                    run.st.assume(T.rlen(s.term) > 0)
                return Num(F('rmax' if is_max else 'rmin', RSeq, Real)(s.term))
            if isinstance(v, Ref) and isinstance(run.deref(v), ListO):
                items = run.deref(v).items
                return _fold_minmax(lib, run, items, is_max)
        if len(args) >= 2:
            return _fold_minmax(lib, run, args, is_max)
        raise Unsupported('max/min of %r' % (args,))
    return h


def _fold_minmax(lib, run, items, is_max):
    if not items:
        raise PyRaise('ValueError', 'max() of empty')
    r = items[0]
    for x in items[1:]:
        if all(isinstance(v, Num) and v.is_int for v in (r, x)):
            c = (x.term > r.term) if is_max else (x.term < r.term)
            r = Num(z3.If(c, x.term, r.term))
        else:
            c = (real(x) > real(r)) if is_max else (real(x) < real(r))
            r = Num(z3.If(c, real(x), real(r)))
    return r


TABLE['builtins.max'] = _minmax(True)
TABLE['builtins.min'] = _minmax(False)

_r = z3.Const('r', RSeq)
_i = z3.Int('i')
rmax = F('rmax', RSeq, Real)
rmin = F('rmin', RSeq, Real)
axiom('rmax.ub', forall([_r, _i], z3.Implies(z3.And(0 <= _i, _i < T.rlen(_r)), T.rat(_r, _i) <= rmax(_r)),
                        [(rmax(_r), T.rat(_r, _i))]), ['rmax'], 'numpy')
axiom('rmin.lb', forall([_r, _i], z3.Implies(z3.And(0 <= _i, _i < T.rlen(_r)), T.rat(_r, _i) >= rmin(_r)),
                        [(rmin(_r), T.rat(_r, _i))]), ['rmin'], 'numpy')
rargmax = F('rargmax', RSeq, Int)
rargmin = F('rargmin', RSeq, Int)
axiom('rmax.wit', forall([_r], z3.Implies(T.rlen(_r) > 0, z3.And(0 <= rargmax(_r), rargmax(_r) < T.rlen(_r),
                                                                 T.rat(_r, rargmax(_r)) == rmax(_r))), [rmax(_r)]),
      ['rmax'], 'numpy')
axiom('rmin.wit', forall([_r], z3.Implies(T.rlen(_r) > 0, z3.And(0 <= rargmin(_r), rargmin(_r) < T.rlen(_r),
                                                                 T.rat(_r, rargmin(_r)) == rmin(_r))), [rmin(_r)]),
      ['rmin'], 'numpy')
axiom('rminmax', forall([_r], z3.Implies(T.rlen(_r) > 0, rmin(_r) <= rmax(_r)), [(rmin(_r), rmax(_r))]), ['rmin'], 'numpy')


@reg('builtins.sum')
def _sum(lib, run, recv, args, kw):
    v = args[0]
    if isinstance(v, Lazy) and v.kind == 'dictview' and v.payload[0] == 'values':
        m = run.deref(v.payload[1])
        return Num(T.msum(m.keys, m.cols['']))
    s = lib.as_seq(run, v)
    if s is not None and s.kind == 'R':
        return Num(T.rsum(s.term))
    if s is not None and s.kind == 'I':
        return Num(F('isum', ISeq, Int)(s.term))
    raise Unsupported('sum(%r)' % (v,))


@reg('builtins.dict')
def _dict(lib, run, recv, args, kw):
    if not args:
        return lib.dict_literal(run, [])
    v = args[0]
    if isinstance(v, Lazy) and v.kind == 'zip' and len(v.payload) == 2:
        ks, vs = v.payload
        s = lib.as_seq(run, ks)
        if s is None and isinstance(ks, Lazy) and ks.kind == 'dictview' and ks.payload[0] == 'keys':
            s = SeqV('A', run.deref(ks.payload[1]).keys, True)
        if s is not None and s.kind == 'A':
            a_ = smt.bound('adz', Arm)
            if isinstance(vs, SeqV) and vs.kind == 'R':
                if not run.spec_mode:
                    run.emit('safe.zip', T.rlen(vs.term) == T.alen(s.term), 'zip of sequences of equal length')
                    run.st.assume(T.rlen(vs.term) == T.alen(s.term))
                col = z3.Lambda([a_], T.rat(vs.term, T.apos(s.term, a_)))
                # duplicate keys would collapse; the callers zip the (distinct) arm list
                return run.st.alloc(MapO(s.term, {'': col}, {'': 'real'}))
        raise Unsupported('dict(zip(...)) of %r' % (v.payload,))
    if isinstance(v, Lazy) and v.kind == 'genexp':
        return run.eng.dict_from_genexp(run, v)
    m = _map(run, v)
    if m is not None:
        return run.st.alloc(MapO(m.keys, m.cols, m.vkinds, m.record_cls))
    raise Unsupported('dict(%r)' % (v,))


@reg('builtins.list')
def _list(lib, run, recv, args, kw):
    if not args:
        return run.st.alloc(ListO([]))
    v = args[0]
    if isinstance(v, SeqV):
        return SeqV(v.kind, v.term, True)
    if isinstance(v, Ref):
        o = run.deref(v)
        if isinstance(o, SeqO):
            return run.st.alloc(SeqO(o.skind, o.term))
        if isinstance(o, ListO):
            return run.st.alloc(ListO(o.items))
        if isinstance(o, SymListO):
            return run.st.alloc(SymListO(o.length, o.elems, o.ekind))
        if isinstance(o, MapO):
            return SeqV('A', o.keys, True)         # list(d): the keys in insertion order
    if isinstance(v, Lazy) and v.kind == 'chain':
        return v.payload
    if isinstance(v, Lazy) and v.kind == 'set':
        return v.payload
    if isinstance(v, Lazy) and v.kind == 'setof':
        sv = lib.as_seq(run, v.payload)
        if sv is not None and sv.kind == 'I':
            # list(set(indices)): the same members, each once, in an order that is a function of the set (A6)
            from .specfns import idedup
            return SeqV('I', idedup(sv.term), True)
    if isinstance(v, Lazy) and v.kind == 'dictview':
        from .loops import domain_of
        dom = domain_of(run, v)
        if dom.canon is not None:
            c = dom.canon
            return SeqV(c.kind, c.term, True) if isinstance(c, SeqV) else c      # list(d.values()) of a real-valued dict
        if v.payload[0] == 'keys' and dom.arm_seq is not None:
            return SeqV('A', dom.arm_seq, True)
    if isinstance(v, Lazy) and v.kind == 'range':
        # list(range(lo, hi)): the same value as the comprehension [x for x in range(lo, hi)]
        from .loops import domain_of, summarise
        return summarise(run, domain_of(run, v), lambda elem: elem, where='list(range)', collect=True)
    raise Unsupported('list(%r)' % (v,))


@reg('builtins.getattr')
def _getattr(lib, run, recv, args, kw):
    obj, name = args[0], args[1]
    if not isinstance(name, StrV):
        raise Unsupported('getattr with a computed name')
    if isinstance(obj, Ref) and isinstance(run.deref(obj), Obj):
        o = run.deref(obj)
        from . import spec as specmod
        if name.s in o.fields or name.s in specmod.class_fields(run.repo, o.cls) or \
                run.repo.lookup_method(o.cls, name.s) is not None:
            return run.getattr(obj, name.s)
        if len(args) > 2:
            return args[2]          # the attribute does not exist for this class: the default
        raise PyRaise('AttributeError', "'%s' object has no attribute '%s'" % (o.cls, name.s))
    raise Unsupported('getattr on %r' % (obj,))


@reg('builtins.set')
def _set(lib, run, recv, args, kw):
    v = args[0] if args else None
    return Lazy('setof', payload=v)


@reg('itertools.chain.from_iterable')
def _chain_from_iterable(lib, run, recv, args, kw):
    v = args[0]
    if isinstance(v, Lazy) and v.kind == 'genexp':
        from .loops import eval_comprehension
        saved = run.frames[-1].env
        run.frames[-1].env = dict(v.env)
        try:
            v = eval_comprehension(run, v.node, 'list')
        finally:
            run.frames[-1].env = saved
    if isinstance(v, Ref) and isinstance(run.deref(v), NestedListO):
        from .loops import flatten
        return Lazy('chain', payload=flatten(run, run.deref(v)))
    raise Unsupported('chain.from_iterable of %r' % (v,))


@reg('copy.deepcopy')
def _deepcopy(lib, run, recv, args, kw):
    run.note('lib:copy.deepcopy (A6: value-equal, disjoint, aliasing-preserving copy)')
    return run.deepcopy(args[0])


# ---------------------------------------------------------------------------------------- dict methods
@reg('dict.fromkeys', 'builtins.dict.fromkeys')
def _fromkeys(lib, run, recv, args, kw):
    keys = args[0]
    val = args[1] if len(args) > 1 else NONE
    if isinstance(keys, TupleV) and keys.items and all(isinstance(k, StrV) for k in keys.items):
        return RecordV({k.s: val for k in keys.items})      # constant string keys: the record literal
    s = lib.as_seq(run, keys)
    if s is None:
        m = _map(run, keys)
        if m is not None:
            s = SeqV('A', m.keys)
    if s is None or s.kind != 'A':
        raise Unsupported('dict.fromkeys over %r' % (keys,))
    if isinstance(val, (Num, BoolV)):
        return run.st.alloc(MapO(s.term, {'': z3.K(Arm, real(val))}, {'': 'real'}))
    if isinstance(val, NoneV):
        return run.st.alloc(MapO(s.term, {}, {}))
    raise Unsupported('dict.fromkeys value %r' % (val,))


@reg('dict.update')
def _update(lib, run, recv, args, kw):
    m = run.deref(recv)
    o = _map(run, args[0])
    if o is None or set(o.cols) != set(m.cols):
        raise Unsupported('dict.update argument')
    if not o.cols and z3.eq(o.keys, T.aempty):
        return NONE
    a_ = smt.bound('aupd', Arm)
    nm = m
    for c in m.cols:
        nm = nm.with_col(c, z3.Lambda([a_], z3.If(T.amem(o.keys, a_), o.cols[c][a_], m.cols[c][a_])))
    if z3.eq(o.keys, m.keys):
        keys = m.keys
    else:
        keys = F('aunion', ASeq, ASeq, ASeq)(m.keys, o.keys)
    run.set_heap(recv.loc, nm.with_keys(keys), 'vals' if z3.eq(keys, m.keys) else '*')
    return NONE


@reg('dict.copy')
def _dcopy(lib, run, recv, args, kw):
    m = run.deref(recv)
    return run.st.alloc(MapO(m.keys, m.cols, m.vkinds, m.record_cls))


@reg('dict.pop')
def _pop(lib, run, recv, args, kw):
    m = run.deref(recv)
    k = args[0]
    if not isinstance(k, ArmV):
        raise Unsupported('dict.pop key')
    if len(args) == 1 and not run.spec_mode:
        if run.branch(z3.Not(T.amem(m.keys, k.term))):
            raise PyRaise('KeyError', 'dict.pop of a missing key')
    val = wrap(m.vkinds[''], m.cols[''][k.term]) if m.is_scalar else NONE
    run.set_heap(recv.loc, m.with_keys(T.aremove(m.keys, k.term)), '*')
    return val


@reg('idict.keys')
def _ikeys(lib, run, recv, args, kw):
    return Lazy('range', payload=(z3.IntVal(0), run.deref(recv).n))      # the keys of range(n), in order


@reg('dict.keys')
def _keys(lib, run, recv, args, kw):
    return Lazy('dictview', payload=('keys', recv))


@reg('dict.values')
def _values(lib, run, recv, args, kw):
    return Lazy('dictview', payload=('values', recv))


@reg('dict.items')
def _items(lib, run, recv, args, kw):
    return Lazy('dictview', payload=('items', recv))


@reg('dict.get')
def _get(lib, run, recv, args, kw):
    m = run.deref(recv)
    k = args[0]
    if isinstance(k, ArmV) and m.is_scalar and len(args) == 1:
        return wrap(m.vkinds[''], m.cols[''][k.term])
    raise Unsupported('dict.get')


# ---------------------------------------------------------------------------------------- list methods
@reg('list.append')
def _append(lib, run, recv, args, kw):
    o = run.deref(recv)
    x = args[0]
    if isinstance(o, SeqO) and o.skind == 'A' and isinstance(x, ArmV):
        run.set_heap(recv.loc, SeqO('A', T.aappend(o.term, x.term)))
        return NONE
    if isinstance(o, SeqO) and o.skind == 'R' and isinstance(x, Num):
        run.set_heap(recv.loc, SeqO('R', F('rappend', RSeq, Real, RSeq)(o.term, real(x))))
        return NONE
    if isinstance(o, ListO) and not o.items and isinstance(x, Num):
        run.set_heap(recv.loc, SeqO('R', F('rappend', RSeq, Real, RSeq)(T.rempty, real(x))))
        return NONE
    if isinstance(o, ListO) and not o.items and isinstance(x, ArmV):
        run.set_heap(recv.loc, SeqO('A', T.aappend(T.aempty, x.term)))
        return NONE
    if isinstance(o, ListO):
        run.set_heap(recv.loc, ListO(o.items + [x]))
        return NONE
    if isinstance(o, SymListO):
        ek = o.ekind if o.ekind not in (None, 'none') else ekind_of(run, x)
        run.set_heap(recv.loc, SymListO(o.length + 1, z3.Store(o.elems, o.length, box(run, x)), ek))
        return NONE
    raise Unsupported('list.append')


@reg('list.remove')
def _remove(lib, run, recv, args, kw):
    o = run.deref(recv)
    x = args[0]
    if isinstance(o, SeqO) and o.skind == 'A' and isinstance(x, ArmV):
        if not run.spec_mode and run.branch(z3.Not(T.amem(o.term, x.term))):
            raise PyRaise('ValueError', 'list.remove of a missing element')
        run.set_heap(recv.loc, SeqO('A', T.aremove(o.term, x.term)))
        return NONE
    raise Unsupported('list.remove')


@reg('list.copy')
def _lcopy(lib, run, recv, args, kw):
    o = run.deref(recv)
    if isinstance(o, SeqO):
        return run.st.alloc(SeqO(o.skind, o.term))
    if isinstance(o, ListO):
        return run.st.alloc(ListO(o.items))
    if isinstance(o, SymListO):
        return run.st.alloc(SymListO(o.length, o.elems, o.ekind))
    raise Unsupported('list.copy')


# ------------------------------------------------------------------------------------------- math / np
_x = z3.Real('x')


@reg('math.sqrt', 'np.sqrt')
def _sqrt(lib, run, recv, args, kw):
    v = args[0]
    if isinstance(v, Num):
        if not run.spec_mode:
            run.emit('safe.sqrt', real(v) >= 0, 'sqrt of a non-negative number')
        return Num(T.sqrt(real(v)))
    if isinstance(v, SeqV) and v.kind == 'R':
        return SeqV('R', F('rsqrt', RSeq, RSeq)(v.term))
    raise Unsupported('sqrt')


@reg('math.log', 'np.log')
def _log(lib, run, recv, args, kw):
    v = args[0]
    if not run.spec_mode:
        run.emit('safe.log', real(v) > 0, 'log of a positive number')
    return Num(T.ln(real(v)))


@reg('math.exp', 'np.exp')
def _exp(lib, run, recv, args, kw):
    return Num(T.exp(real(args[0])))


@reg('math.ceil')
def _ceil(lib, run, recv, args, kw):
    t = real(args[0])
    return Num(-z3.ToInt(-t))


@reg('np.finfo')
def _finfo(lib, run, recv, args, kw):
    return RecordV({'eps': Num(T.EPS)})


@reg('record.get')
def _record_get(lib, run, recv, args, kw):
    k = args[0]
    if isinstance(k, StrV) and k.s in recv.fields and recv.fields[k.s] is not None:
        return recv.fields[k.s]
    raise Unsupported('lookup in a constant table with a non-constant key')


@reg('record.eps')
def _eps(lib, run, recv, args, kw):
    raise Unsupported('eps call')


@reg('np.iinfo')
def _iinfo(lib, run, recv, args, kw):
    return RecordV({'max': Num(2147483647)})


@reg('np.isnan')
def _isnan(lib, run, recv, args, kw):
    return BoolV(T.isnan(real(args[0])))


@reg('np.square')
def _square(lib, run, recv, args, kw):
    v = args[0]
    if isinstance(v, Num):
        return Num(T.rmul(real(v), real(v)))
    raise Unsupported('np.square')


@reg('np.unique')
def _unique(lib, run, recv, args, kw):
    v = args[0]
    s = lib.as_seq(run, v)
    if s is not None and s.kind == 'A':
        # A4: same element *set*, order unspecified to the proof
        u = fresh('unique', ASeq)
        a_ = smt.bound('au', Arm)
        run.st.assume(z3.ForAll([a_], T.amem(u, a_) == T.amem(s.term, a_), patterns=[T.amem(u, a_)]))
        run.st.assume(T.adistinct(u))
        return SeqV('A', u)
    if s is not None and s.kind in ('R', 'I'):
        return run.eng.lib_unique_num(run, s)
    raise Unsupported('np.unique')


@reg('seq.tolist')
def _tolist(lib, run, recv, args, kw):
    return SeqV(recv.kind, recv.term, True)


@reg('seq.sum')
def _ssum(lib, run, recv, args, kw):
    if recv.kind == 'R':
        return Num(T.rsum(recv.term))
    if recv.kind == 'I':
        return Num(F('isum', ISeq, Int)(recv.term))
    if recv.kind == 'B':
        return Num(T.bcnt(recv.term))
    raise Unsupported('sum of arm array')


@reg('seq.copy')
def _scopy(lib, run, recv, args, kw):
    return recv


@reg('seq.min', 'seq.max', 'seq.mean', 'seq.std')
def _sagg(lib, run, recv, args, kw):
    raise Unsupported('aggregate')


def _mk_agg(name):
    def h(lib, run, recv, args, kw):
        if recv.kind != 'R':
            raise Unsupported(name + ' of non-real array')
        if not run.spec_mode:
            run.emit('safe.nonempty', T.rlen(recv.term) > 0, name + ' of a non-empty array')
            run.st.assume(T.rlen(recv.term) > 0)
        return Num(F('r' + name, RSeq, Real)(recv.term))
    return h


for _n in ('min', 'max', 'mean', 'std'):
    TABLE['seq.' + _n] = _mk_agg(_n)


binmask = F('binmask', RSeq, BSeq)       # np.isin(r, (0, 1)) element-wise
axiom('binmask.len', forall([_r], T.blen(binmask(_r)) == T.rlen(_r), [binmask(_r)]), ['binmask'], 'numpy')
axiom('binmask.at', forall([_r, _i], z3.Implies(z3.And(0 <= _i, _i < T.rlen(_r)), T.bat(binmask(_r), _i) == z3.Or(T.rat(_r, _i) == 0, T.rat(_r, _i) == 1)),
                           [T.bat(binmask(_r), _i)]), ['binmask'], 'numpy')


@reg('np.isin')
def _isin(lib, run, recv, args, kw):
    a, b = args[0], args[1]
    vals = None
    if isinstance(b, TupleV):
        vals = b.items
    elif isinstance(b, Ref) and isinstance(run.deref(b), ListO):
        vals = run.deref(b).items
    if isinstance(a, SeqV) and a.kind == 'R' and vals is not None and all(isinstance(x, Num) for x in vals) and \
            sorted(x.concrete() for x in vals) == [0, 1]:
        return SeqV('B', binmask(a.term))
    raise Unsupported('np.isin arguments')


@reg('seq.all')
def _seq_all(lib, run, recv, args, kw):
    if isinstance(recv, SeqV) and recv.kind == 'B':
        t = recv.term
        if z3.is_app(t) and t.decl().name() == 'binmask':
            return BoolV(T.rbinary(t.arg(0)))       # every element is 0 or 1
        return BoolV(T.bcnt(t) == T.blen(t))
    raise Unsupported('all() of %r' % (recv,))
rmean = F('rmean', RSeq, Real)
axiom('rmean.def', forall([_r], z3.Implies(T.rlen(_r) > 0, rmean(_r) * T.rlen(_r) == T.rsum(_r)), [rmean(_r)]),
      ['rmean'], 'numpy')
axiom('rmean.range', forall([_r], z3.Implies(T.rlen(_r) > 0, z3.And(rmin(_r) <= rmean(_r), rmean(_r) <= rmax(_r))),
                            [rmean(_r)]), ['rmean'], 'numpy')


@reg('mp.cpu_count')
def _cpu(lib, run, recv, args, kw):
    c = fresh('cpu_count', Int)
    run.st.assume(c >= 1)
    return Num(c)


apply_bin = F('apply_binarizer', Opaque, Arm, Real, Real)
_f = z3.Const('f', Opaque)
_arm = z3.Const('arm', Arm)
axiom('binarizer.range', forall([_f, _arm, _x], z3.Or(apply_bin(_f, _arm, _x) == 0, apply_bin(_f, _arm, _x) == 1),
                                [apply_bin(_f, _arm, _x)]), ['apply_binarizer'], 'numpy')


def call_opaque(lib, run, f, args, kwargs):
    if f.what in ('callable', 'binarizer') and len(args) == 2 and isinstance(args[0], ArmV) and isinstance(args[1], Num):
        # the user's binarizer: an uninterpreted function of (decision, reward) with values in {0, 1} (documented)
        run.note('lib:binarizer is a pure function of (decision, reward) returning 0/1')
        return Num(apply_bin(f.term, args[0].term, real(args[1])))
    raise Unsupported('call of opaque value %s' % f.what)


@reg('np.fromiter')
def _fromiter(lib, run, recv, args, kw):
    g = args[0]
    if isinstance(g, Lazy) and g.kind == 'genexp':
        from .loops import eval_comprehension
        saved = run.frames[-1].env
        run.frames[-1].env = dict(g.env)
        try:
            v = eval_comprehension(run, g.node, 'list')
        finally:
            run.frames[-1].env = saved
        s = lib.as_seq(run, v)
        if s is not None:
            return SeqV(s.kind, s.term)
    raise Unsupported('np.fromiter argument')


# ------------------------------------------------------------------------------------- random streams
# np.random.Generator is modelled by an abstract stream state: every draw is value = draw_k(state, params) and
# state' = next_k(state, params) with uninterpreted draw/next (DESIGN 2.2).  Only range facts NumPy documents
# are assumed.  The ghost draw log (run.st.draws) records (generator, kind, params) per path.
def _slot(run, gen):
    o = run.deref(gen)
    if 'slot' in o.fields:
        mref, key = o.fields['slot'].items
        m = run.st.heap[mref.loc]
        shared_gen = run.deref(Ref(m.shared_rng)).fields['rng'] if getattr(m, 'shared_rng', None) else None
        return mref.loc, key.term, shared_gen
    return None


def _rs(run, gen):
    sl = _slot(run, gen)
    if sl is None:
        return run.deref(gen).fields['state'].term
    loc, key, shared_gen = sl
    m = run.st.heap[loc]
    priv = m.cols['#rng_state'][key]
    if shared_gen is None:
        return priv
    return z3.If(m.cols['#rng_shared'][key], _rs(run, shared_gen), priv)


def _set_rs(run, gen, term):
    sl = _slot(run, gen)
    if sl is None:
        run.write_field(gen, 'state', OpaqueV(term, 'rngstate'))
        return
    loc, key, shared_gen = sl
    m = run.st.heap[loc]
    sh = m.cols['#rng_shared'][key]
    if shared_gen is not None:
        old = _rs(run, shared_gen)
        _set_rs(run, shared_gen, z3.If(sh, term, old))
        m = run.st.heap[loc]
    run.set_heap(loc, m.with_col('#rng_state', z3.Store(m.cols['#rng_state'], key,
                                                        z3.If(sh, m.cols['#rng_state'][key], term))), 'vals')


draw_u = F('draw_u', Rng, Real)
next_u = F('next_u', Rng, Rng)
draw_uv = F('draw_uv', Rng, Int, RSeq)
next_uv = F('next_uv', Rng, Int, Rng)
draw_um = F('draw_um', Rng, Int, Int, Mat)
next_um = F('next_um', Rng, Int, Int, Rng)
_s = z3.Const('s', Rng)
_n, _m2 = z3.Ints('n m')
mat_at = F('mat_at', Mat, Int, Int, Real)
axiom('draw_u.range', forall([_s], z3.And(draw_u(_s) >= 0, draw_u(_s) < 1), [draw_u(_s)]), ['draw_u'], 'numpy')
axiom('draw_uv.len', forall([_s, _n], z3.Implies(_n >= 0, T.rlen(draw_uv(_s, _n)) == _n), [draw_uv(_s, _n)]),
      ['draw_uv'], 'numpy')
axiom('draw_uv.range', forall([_s, _n, _i], z3.And(T.rat(draw_uv(_s, _n), _i) >= 0, T.rat(draw_uv(_s, _n), _i) < 1),
                              [T.rat(draw_uv(_s, _n), _i)]), ['draw_uv'], 'numpy')
axiom('draw_um.shape', forall([_s, _n, _m2], z3.Implies(z3.And(_n >= 0, _m2 >= 0),
                                                        z3.And(mrows(draw_um(_s, _n, _m2)) == _n,
                                                               mcols(draw_um(_s, _n, _m2)) == _m2)),
                              [draw_um(_s, _n, _m2)]), ['draw_um'], 'numpy')
_M = z3.Const('M', Mat)
_j = z3.Int('j')
mrow = F('mrow', Mat, Int, RSeq)
axiom('mrow.len', forall([_M, _i], T.rlen(mrow(_M, _i)) == mcols(_M), [mrow(_M, _i)]), ['mrow'], 'numpy')
axiom('mrow.at', forall([_M, _i, _j], z3.Implies(z3.And(0 <= _i, _i < mrows(_M), 0 <= _j, _j < mcols(_M)), T.rat(mrow(_M, _i), _j) == mat_at(_M, _i, _j)),
                        [T.rat(mrow(_M, _i), _j), mat_at(_M, _i, _j)]), ['mrow', 'mat_at'], 'numpy')


def _size(v):
    """size argument -> None | ('n', term) | ('mn', t1, t2)"""
    if v is None or isinstance(v, NoneV):
        return None
    if isinstance(v, Num):
        return ('n', intterm(v))
    if isinstance(v, TupleV) and len(v.items) == 2:
        return ('mn', intterm(v.items[0]), intterm(v.items[1]))
    if isinstance(v, TupleV) and len(v.items) == 1:
        return ('n', intterm(v.items[0]))
    raise Unsupported('size argument %r' % (v,))


def _arg(args, kw, i, name, default=None):
    if len(args) > i:
        return args[i]
    return kw.get(name, default)


@reg('np.random.default_rng')
def _default_rng(lib, run, recv, args, kw):
    seed = args[0]
    return run.st.alloc(Obj('np.Generator', {'state': OpaqueV(T.rng_init(intterm(seed)), 'rngstate')}))


@reg('np.Generator.random')
def _gen_random(lib, run, recv, args, kw):
    s = _rs(run, recv)
    size = _size(_arg(args, kw, 0, 'size'))
    run.st.draws.append(('uniform', size))
    if size is None:
        _set_rs(run, recv, next_u(s))
        return Num(draw_u(s))
    if size[0] == 'n':
        _set_rs(run, recv, next_uv(s, size[1]))
        return SeqV('R', draw_uv(s, size[1]))
    _set_rs(run, recv, next_um(s, size[1], size[2]))
    return MatV(draw_um(s, size[1], size[2]))


draw_dir = F('draw_dirichlet', Rng, RSeq, Int, Mat)
next_dir = F('next_dirichlet', Rng, RSeq, Int, Rng)
_al = z3.Const('al', RSeq)
axiom('draw_dirichlet.shape', forall([_s, _al, _n], z3.Implies(_n >= 0, z3.And(mrows(draw_dir(_s, _al, _n)) == _n,
                                                                                mcols(draw_dir(_s, _al, _n)) == T.rlen(_al))),
                                     [draw_dir(_s, _al, _n)]), ['draw_dirichlet'], 'numpy')


@reg('np.Generator.dirichlet')
def _gen_dirichlet(lib, run, recv, args, kw):
    s = _rs(run, recv)
    alpha = lib.as_seq(run, _arg(args, kw, 0, 'alpha'))
    size = _size(_arg(args, kw, 1, 'size'))
    if alpha is None or alpha.kind != 'R' or size is None or size[0] != 'n':
        raise Unsupported('dirichlet arguments')
    run.st.draws.append(('dirichlet', alpha.term, size[1]))
    _set_rs(run, recv, next_dir(s, alpha.term, size[1]))
    return MatV(draw_dir(s, alpha.term, size[1]))


draw_beta = F('draw_beta', Rng, Real, Real, Int, RSeq)
next_beta = F('next_beta', Rng, Real, Real, Int, Rng)
_a, _b = z3.Reals('a b')
axiom('draw_beta.len', forall([_s, _a, _b, _n], z3.Implies(_n >= 0, T.rlen(draw_beta(_s, _a, _b, _n)) == _n),
                              [draw_beta(_s, _a, _b, _n)]), ['draw_beta'], 'numpy')


@reg('np.Generator.beta')
def _gen_beta(lib, run, recv, args, kw):
    s = _rs(run, recv)
    a, b = real(args[0]), real(args[1])
    size = _size(_arg(args, kw, 2, 'size'))
    if size is None or size[0] != 'n':
        raise Unsupported('beta size')
    if not run.spec_mode:
        run.emit('safe.beta', z3.And(a > 0, b > 0), 'beta parameters are positive')
    run.st.draws.append(('beta', a, b, size[1]))
    _set_rs(run, recv, next_beta(s, a, b, size[1]))
    return SeqV('R', draw_beta(s, a, b, size[1]))


draw_int = F('draw_integers', Rng, Int, Int, ISeq)
next_int = F('next_integers', Rng, Int, Int, Rng)
draw_int0 = F('draw_integer', Rng, Int, Int, Int)
next_int0 = F('next_integer', Rng, Int, Int, Rng)
_lo, _hi = z3.Ints('lo hi')
axiom('draw_integers.len', forall([_s, _hi, _n], z3.Implies(_n >= 0, ilen(draw_int(_s, _hi, _n)) == _n),
                                  [draw_int(_s, _hi, _n)]), ['draw_integers'], 'numpy')
axiom('draw_integer.range', forall([_s, _lo, _hi], z3.Implies(_lo < _hi, z3.And(_lo <= draw_int0(_s, _lo, _hi),
                                                                                 draw_int0(_s, _lo, _hi) < _hi)),
                                   [draw_int0(_s, _lo, _hi)]), ['draw_integer'], 'numpy')


@reg('np.Generator.integers')
def _gen_integers(lib, run, recv, args, kw):
    s = _rs(run, recv)
    low = _arg(args, kw, 0, 'low')
    high = _arg(args, kw, 1, 'high')
    size = _size(_arg(args, kw, 2, 'size'))
    if high is None or isinstance(high, NoneV):
        lo_t, hi_t = z3.IntVal(0), intterm(low)
    else:
        lo_t, hi_t = intterm(low), intterm(high)
    if size is None:
        run.st.draws.append(('integer', lo_t, hi_t))
        _set_rs(run, recv, next_int0(s, lo_t, hi_t))
        return Num(draw_int0(s, lo_t, hi_t))
    if size[0] == 'n' and z3.is_int_value(z3.simplify(lo_t)) and z3.simplify(lo_t).as_long() == 0:
        run.st.draws.append(('integers', hi_t, size[1]))
        _set_rs(run, recv, next_int(s, hi_t, size[1]))
        return SeqV('I', draw_int(s, hi_t, size[1]))
    raise Unsupported('integers arguments')

# extensionality of real sequences, specialised to the places where a sequence is a distribution parameter
rdiff = F('rdiff', RSeq, RSeq, Int)
_q = z3.Const('q', RSeq)


def _ext(name, mk):
    axiom(name + '.ext', forall([_s, _r, _q, _n],
                                z3.Or(mk(_s, _r, _n) == mk(_s, _q, _n), T.rlen(_r) != T.rlen(_q),
                                      z3.And(0 <= rdiff(_r, _q), rdiff(_r, _q) < T.rlen(_r),
                                             T.rat(_r, rdiff(_r, _q)) != T.rat(_q, rdiff(_r, _q)))),
                                [(mk(_s, _r, _n), mk(_s, _q, _n))]), [name], 'definitional')


_ext('draw_dirichlet', draw_dir)
_ext('next_dirichlet', next_dir)


# ------------------------------------------------------------------------------------------ distances
def opaque_of(v):
    """z3 term for a string-like value (metric names)"""
    if isinstance(v, StrV):
        return z3.Const('str:' + v.s, Opaque)
    if isinstance(v, OpaqueV):
        return v.term
    raise Unsupported('expected a string, got %r' % (v,))


row1 = F('row1', RSeq, Mat)
_v = z3.Const('v', RSeq)
axiom('row1', forall([_v], z3.And(mrows(row1(_v)) == 1, mcols(row1(_v)) == T.rlen(_v), mrow(row1(_v), 0) == _v),
                     [row1(_v)]), ['row1'], 'numpy')
fdist = F('fdist', Opaque, RSeq, RSeq, Real)            # scipy distance between two vectors under a metric
cdistm = F('cdist', Opaque, Mat, Mat, Mat)
_mt = z3.Const('mt', Opaque)
_A, _B = z3.Consts('A B', Mat)
axiom('cdist.shape', forall([_mt, _A, _B], z3.And(mrows(cdistm(_mt, _A, _B)) == mrows(_A),
                                                  mcols(cdistm(_mt, _A, _B)) == mrows(_B)), [cdistm(_mt, _A, _B)]),
      ['cdist'], 'numpy')
axiom('cdist.at', forall([_mt, _A, _B, _i, _j], z3.Implies(z3.And(0 <= _i, _i < mrows(_A), 0 <= _j, _j < mrows(_B)), mat_at(cdistm(_mt, _A, _B), _i, _j) ==
                         fdist(_mt, mrow(_A, _i), mrow(_B, _j))), [mat_at(cdistm(_mt, _A, _B), _i, _j)]),
      ['cdist'], 'numpy')


@reg('np.array')
def _nparray(lib, run, recv, args, kw):
    from . import libarraylike as AL
    if AL.is_al(args[0]):
        return args[0]        # only its ndim is asked for (validation); the content is taken by np.asarray
    return _asarray(lib, run, recv, args, kw)


@reg('np.asarray')
def _asarray(lib, run, recv, args, kw):
    v = args[0]
    from . import libarraylike as AL
    if AL.is_al(v):
        return AL.content(v)
    if isinstance(v, (MatV,)):
        return v
    if isinstance(v, SeqV):
        return SeqV(v.kind, v.term)
    if isinstance(v, Ref):
        o = run.deref(v)
        if isinstance(o, SeqO):
            return SeqV(o.skind, o.term)
        if isinstance(o, ListO) and len(o.items) == 1 and isinstance(o.items[0], SeqV) and o.items[0].kind == 'R':
            return MatV(row1(o.items[0].term))
        if isinstance(o, SymListO) and o.ekind == 'rseq':
            from .liblinalg import mat_of_rows
            return mat_of_rows(lib, run, o)
        if isinstance(o, ListO) and o.items and all(isinstance(x, ArmV) for x in o.items):
            t = T.aempty
            for x in o.items:
                t = T.aappend(t, x.term)
            return SeqV('A', t)
    raise Unsupported('np.asarray(%r)' % (v,))


@reg('scipy.spatial.distance.cdist')
def _cdist(lib, run, recv, args, kw):
    A, B = args[0], args[1]
    metric = kw.get('metric', args[2] if len(args) > 2 else StrV('euclidean'))
    if not (isinstance(A, MatV) and isinstance(B, MatV)):
        raise Unsupported('cdist arguments')
    if not run.spec_mode:
        if run.branch(mcols(A.term) != mcols(B.term)):
            raise PyRaise('ValueError', 'cdist: XA and XB must have the same number of columns')
    return MatV(cdistm(opaque_of(metric), A.term, B.term))


quantile = F('quantile', RSeq, Real, Real)
_q1, _q2 = z3.Reals('q1 q2')
axiom('quantile.mono', forall([_r, _q1, _q2], z3.Implies(_q1 <= _q2, quantile(_r, _q1) <= quantile(_r, _q2)),
                              [(quantile(_r, _q1), quantile(_r, _q2))]), ['quantile'], 'numpy')
axiom('quantile.range', forall([_r, _q1], z3.Implies(z3.And(T.rlen(_r) > 0, 0 <= _q1, _q1 <= 1),
                                                     z3.And(rmin(_r) <= quantile(_r, _q1), quantile(_r, _q1) <= rmax(_r))),
                               [quantile(_r, _q1)]), ['quantile'], 'numpy')


@reg('np.quantile')
def _quantile(lib, run, recv, args, kw):
    s = lib.as_seq(run, args[0])
    q = kw.get('q', args[1] if len(args) > 1 else None)
    if s is None or s.kind != 'R' or q is None:
        raise Unsupported('np.quantile arguments')
    return Num(quantile(s.term, real(q)))


# ---- multivariate normal, squeeze
draw_mvn = F('draw_mvn', Rng, RSeq, Mat, Int, Mat)
next_mvn = F('next_mvn', Rng, RSeq, Mat, Int, Rng)
_mean = z3.Const('mean', RSeq)
_cov = z3.Const('cov', Mat)
axiom('draw_mvn.shape', forall([_s, _mean, _cov, _n], z3.Implies(_n >= 0, z3.And(mrows(draw_mvn(_s, _mean, _cov, _n)) == _n,
                                                                                 mcols(draw_mvn(_s, _mean, _cov, _n)) ==
                                                                                 T.rlen(_mean))),
                               [draw_mvn(_s, _mean, _cov, _n)]), ['draw_mvn'], 'numpy')


@reg('np.Generator.multivariate_normal')
def _gen_mvn(lib, run, recv, args, kw):
    s = _rs(run, recv)
    mean, cov = args[0], args[1]
    size = _size(kw.get('size', args[2] if len(args) > 2 else None))
    if not (isinstance(mean, SeqV) and isinstance(cov, MatV) and size is not None and size[0] == 'n'):
        raise Unsupported('multivariate_normal arguments')
    run.st.draws.append(('mvn', mean.term, cov.term, size[1]))
    _set_rs(run, recv, next_mvn(s, mean.term, cov.term, size[1]))
    return MatV(draw_mvn(s, mean.term, cov.term, size[1]))


mcol = F('mcol', Mat, Int, RSeq)
axiom('mcol.len', forall([_M, _j], T.rlen(mcol(_M, _j)) == mrows(_M), [mcol(_M, _j)]), ['mcol'], 'numpy')
axiom('mcol.at', forall([_M, _i, _j], z3.Implies(z3.And(0 <= _i, _i < mrows(_M), 0 <= _j, _j < mcols(_M)), T.rat(mcol(_M, _j), _i) == mat_at(_M, _i, _j)), [T.rat(mcol(_M, _j), _i)]),
      ['mcol'], 'numpy')


@reg('np.atleast_2d')
def _atleast_2d(lib, run, recv, args, kw):
    a = args[0]
    if isinstance(a, MatV):
        return a
    if isinstance(a, SeqV) and a.kind == 'R':
        return MatV(row1(a.term))         # a 1-D array becomes one row
    if isinstance(a, (Num, BoolV)):
        from .liblinalg import mat11
        return MatV(mat11(real(a)))
    raise Unsupported('np.atleast_2d(%r)' % (a,))


@reg('np.squeeze')
def _squeeze(lib, run, recv, args, kw):
    """drops axes of length one: the rank of the result depends on the shape (path fork)"""
    a = args[0]
    if isinstance(a, MatV):
        r1 = run.branch(mrows(a.term) == 1)
        c1 = run.branch(mcols(a.term) == 1)
        if r1 and c1:
            return Num(mat_at(a.term, 0, 0))
        if r1:
            return SeqV('R', mrow(a.term, 0))
        if c1:
            return SeqV('R', mcol(a.term, 0))
        return a
    if isinstance(a, SeqV):
        if run.branch(seq_len(a) == 1):
            return Num(T.rat(a.term, 0))
        return a
    return a


draw_choice = F('draw_choice', Rng, Int, Bool, RSeq, Int, ISeq)       # rng.choice(n, size, p); Bool: p given
next_choice = F('next_choice', Rng, Int, Bool, RSeq, Int, Rng)
no_p = z3.Const('uniform_p', RSeq)
_pp = z3.Const('p', RSeq)
_hp = z3.Bool('hp')
_k = z3.Int('k')
axiom('draw_choice.len', forall([_s, _n, _hp, _pp, _k], z3.Implies(_k >= 0, ilen(draw_choice(_s, _n, _hp, _pp, _k)) == _k),
                                [draw_choice(_s, _n, _hp, _pp, _k)]), ['draw_choice'], 'numpy')
axiom('draw_choice.range', forall([_s, _n, _hp, _pp, _k, _i],
                                  z3.Implies(z3.And(0 <= _i, _i < _k, _n > 0),
                                             z3.And(0 <= iat(draw_choice(_s, _n, _hp, _pp, _k), _i),
                                                    iat(draw_choice(_s, _n, _hp, _pp, _k), _i) < _n)),
                                  [iat(draw_choice(_s, _n, _hp, _pp, _k), _i)]), ['draw_choice'], 'numpy')
# never an entry with probability zero (NumPy's inverse-CDF sampler; stated in C03)
axiom('draw_choice.support', forall([_s, _n, _hp, _pp, _k, _i],
                                    z3.Implies(z3.And(0 <= _i, _i < _k),
                                               z3.Implies(_hp, T.rat(_pp, iat(draw_choice(_s, _n, _hp, _pp, _k), _i)) > 0)),
                                    [iat(draw_choice(_s, _n, _hp, _pp, _k), _i)]), ['draw_choice'], 'numpy')


@reg('np.Generator.choice')
def _gen_choice(lib, run, recv, args, kw):
    s = _rs(run, recv)
    a = _arg(args, kw, 0, 'a')
    size = _size(_arg(args, kw, 1, 'size'))
    p = _arg(args, kw, 2, 'p')
    if not isinstance(a, Num) or size is None or size[0] != 'n':
        raise Unsupported('choice arguments')
    n = intterm(a)
    if p is None or isinstance(p, NoneV):
        hp, pt = z3.BoolVal(False), no_p
    else:
        ps = lib.as_seq(run, p)
        if ps is None:
            raise Unsupported('choice p')
        hp, pt = z3.simplify(z3.Not(lib.is_same(run, ps, NONE))), ps.term
        if not run.spec_mode and run.branch(z3.And(hp, T.rlen(pt) != n)):
            raise PyRaise('ValueError', "rng.choice: 'a' and 'p' must have same size")
    run.st.draws.append(('choice', n, pt, size[1]))
    _set_rs(run, recv, next_choice(s, n, hp, pt, size[1]))
    return SeqV('I', draw_choice(s, n, hp, pt, size[1]))


def mk_mrow(M, i):
    """row i of M; a row of a row-slice is read from the sliced matrix directly (mslice.row)"""
    if z3.is_app(M) and M.decl().name() == 'mslice':
        return mk_mrow(M.arg(0), M.arg(1) + i)
    return mrow(M, i)


def mk_iat(u, i):
    """element i of an int sequence; an element of a slice is read from the sliced sequence directly (islice.at)"""
    if z3.is_app(u) and u.decl().name() == 'islice':
        return mk_iat(u.arg(0), u.arg(1) + i)
    return iat(u, i)


card = F('card', ASeq, Int)        # len(set(s))
_sq = z3.Const('sq', ASeq)
axiom('card.def', forall([_sq], z3.And(card(_sq) >= 0, card(_sq) <= T.alen(_sq),
                                       (card(_sq) == T.alen(_sq)) == T.adistinct(_sq)), [card(_sq)]), ['card'], 'definitional')


@reg('np.isclose')
def _isclose(lib, run, recv, args, kw):
    from .libnp import closemask, isclosef
    if kw:
        raise Unsupported('np.isclose with explicit tolerances')
    if isinstance(args[0], SeqV) and args[0].kind == 'R' and isinstance(args[1], (Num, BoolV)):
        return SeqV('B', closemask(args[0].term, real(args[1])))
    return BoolV(isclosef(real(args[0]), real(args[1])))


@reg('opaque.info', 'opaque.debug', 'opaque.warning', 'opaque.error')
def _log_call(lib, run, recv, args, kw):
    return NONE         # logging has no effect on any state under contract (A9)


@reg('set.intersection', 'set.union', 'set.difference')
def _set_method(lib, run, recv, args, kw):
    raise Unsupported('set method dispatch')


def _mk_set_method(op):
    def h(lib, run, recv, args, kw):
        other = args[0]
        if not (isinstance(other, Lazy) and other.kind == 'setof'):
            other = Lazy('setof', payload=other)
        return lib.set_op(run, op, recv, other)
    return h


TABLE['set.intersection'] = _mk_set_method('BitAnd')
TABLE['set.union'] = _mk_set_method('BitOr')
TABLE['set.difference'] = _mk_set_method('Sub')


# ---- standard normal matrices (LSH hyperplanes): one draw of a whole (rows x cols) matrix
draw_snm = F('draw_standard_normal', Rng, Int, Int, Mat)
next_snm = F('next_standard_normal', Rng, Int, Int, Rng)
_r2, _c2 = z3.Ints('r2 c2')
axiom('draw_standard_normal.shape', forall([_s, _r2, _c2], z3.Implies(z3.And(_r2 >= 0, _c2 >= 0), z3.And(
    mrows(draw_snm(_s, _r2, _c2)) == _r2, mcols(draw_snm(_s, _r2, _c2)) == _c2)), [draw_snm(_s, _r2, _c2)]),
    ['draw_standard_normal'], 'numpy')


@reg('np.Generator.standard_normal')
def _gen_standard_normal(lib, run, recv, args, kw):
    s = _rs(run, recv)
    size = _size(kw.get('size', args[0] if args else None))
    if size is None or size[0] != 'mn':
        raise Unsupported('standard_normal size')
    run.st.draws.append(('standard_normal', size[1], size[2]))
    _set_rs(run, recv, next_snm(s, size[1], size[2]))
    return MatV(draw_snm(s, size[1], size[2]))


class EmptyTabV(Val):
    """defaultdict(list): a dictionary whose every key holds the empty list until something is stored"""
    tag = 'emptytab'


@reg('collections.defaultdict')
def _defaultdict(lib, run, recv, args, kw):
    if len(args) == 1 and isinstance(args[0], LibRef) and args[0].name == 'builtins.list':
        return EmptyTabV()
    raise Unsupported('defaultdict with a factory other than list')


@reg('np.logical_not')
def _logical_not(lib, run, recv, args, kw):
    a = args[0]
    if isinstance(a, SeqV) and a.kind == 'B':
        return SeqV('B', T.bnot(a.term))
    if isinstance(a, BoolV):
        return BoolV(z3.Not(a.term))
    raise Unsupported('np.logical_not(%r)' % (a,))


@reg('idict.items')
def _iitems(lib, run, recv, args, kw):
    o = run.deref(recv)
    if o.vkind != 'mat':
        raise Unsupported('items() of an int-keyed dict of kind %s' % o.vkind)
    return Lazy('imap.items', payload=recv)


@reg('idict.values')
def _ivalues(lib, run, recv, args, kw):
    o = run.deref(recv)
    if o.vkind != 'mat':
        raise Unsupported('values() of an int-keyed dict of kind %s' % o.vkind)
    return Lazy('imap.values', payload=recv)


@reg('list.extend')
def _extend(lib, run, recv, args, kw):
    o = run.deref(recv)
    sv = lib.as_seq(run, args[0])
    if sv is None:
        raise Unsupported('list.extend with %r' % (args[0],))
    cat = {'A': T.aconcat, 'R': T.rconcat, 'I': F('iconcat', ISeq, ISeq, ISeq)}[sv.kind]
    if isinstance(o, SeqO) and o.skind == sv.kind:
        run.set_heap(recv.loc, SeqO(o.skind, cat(o.term, sv.term)))
        return NONE
    if isinstance(o, ListO) and not o.items:
        run.set_heap(recv.loc, SeqO(sv.kind, sv.term))
        return NONE
    raise Unsupported('list.extend on %s' % type(o).__name__)
