"""Vocabulary available inside contract clauses (DESIGN.md 3.3): spec functions over symbolic values."""
import ast
import z3
from . import smt
from .smt import F, fresh, Arm, ASeq, RSeq, ISeq, BSeq, Mat, Int, Real, Bool, OptArm, NAN, Opaque
from .values import *     # noqa
from . import theory as T
from .engine import to_bool_term, T_isnone
from .lib import real, intterm, seq_len, mrows, mcols

SPECFNS = {}
FORMS = {}


def specfn(name):
    def deco(f):
        SPECFNS[name] = f
        return f
    return deco


def form(name):
    def deco(f):
        FORMS[name] = f
        return f
    return deco


def _seq(run, v, kind=None):
    s = run.eng.lib.as_seq(run, v)
    if s is None:
        if isinstance(v, Lazy) and v.kind == 'dictview' and v.payload[0] == 'keys':
            s = SeqV('A', run.deref(v.payload[1]).keys, True)
    if s is None and isinstance(v, Ref) and isinstance(run.deref(v), ListO) and not run.deref(v).items and kind:
        s = SeqV(kind, {'A': T.aempty, 'R': T.rempty}[kind], True)      # the empty list
    if s is None or (kind and s.kind != kind):
        raise Unsupported('spec: expected %s sequence, got %r' % (kind, v))
    return s


def _mapo(run, v):
    if isinstance(v, Ref):
        o = run.deref(v)
        if isinstance(o, MapO):
            return o
    raise Unsupported('spec: expected a dict, got %r' % (v,))


# ------------------------------------------------------------------------------------- special forms
@form('old')
def _old(run, n):
    if run.old_state is None:
        raise Unsupported('old() outside a postcondition')
    saved = run.st
    run.st = run.old_state
    try:
        v = run.ev(n.args[0])
    finally:
        run.st = saved
    # a value object created while evaluating in the old state (a dict returned by a pure function) is made
    # visible in the current heap as well
    if isinstance(v, Ref) and v.loc in run.old_state.heap:
        o_old = run.old_state.heap[v.loc]
        if v.loc not in saved.heap:
            saved.heap[v.loc] = o_old
        elif saved.heap[v.loc] is not o_old:
            # the object has changed since: old(...) denotes its value at entry
            if isinstance(o_old, SeqO):
                return SeqV(o_old.skind, o_old.term, True)
            if isinstance(o_old, (MapO, SymListO, ListO)):
                return saved.alloc(o_old)
    return v


def _has_ite(pats):
    def walk(t, depth=0):
        if depth > 60:
            return False
        if z3.is_app(t):
            if t.decl().kind() == z3.Z3_OP_ITE:
                return True
            return any(walk(c, depth + 1) for c in t.children())
        return False
    for p in pats:
        ts = [p.arg(i) for i in range(p.num_args())] if isinstance(p, z3.PatternRef) else [p]
        if any(walk(t) for t in ts):
            return True
    return False


def _quant(run, n, sort, mk, q):
    lam = n.args[0]
    if not isinstance(lam, ast.Lambda):
        raise Unsupported('quantifier needs a lambda')
    names = [a.arg for a in lam.args.args]
    consts = [smt.bound(nm, sort) for nm in names]
    saved = run.frames[-1].env
    run.frames[-1].env = dict(saved)
    for nm, c in zip(names, consts):
        run.frames[-1].env[nm] = mk(c)
    pats = None
    try:
        body = to_bool_term(run.ev(lam.body))
        if len(n.args) > 1 and isinstance(n.args[1], ast.Lambda):
            # explicit trigger: forall_x(lambda i: body, lambda i: term)
            t = run.ev(n.args[1].body)
            ts = t.items if isinstance(t, TupleV) else [t]
            pats = [z3.MultiPattern(*[x.term for x in ts])] if len(ts) > 1 else [ts[0].term]
    finally:
        run.frames[-1].env = saved
    if pats is not None and _has_ite(pats):
        pats = None         # z3 refuses if-then-else inside a trigger (and says so on stderr): let it choose
    if pats is not None:
        try:
            return BoolV(q(consts, body, patterns=pats))
        except z3.Z3Exception:
            pass        # not a valid trigger for this instance of the clause (e.g. it contains a lambda): let z3 choose
    return BoolV(q(consts, body))


@form('forall_arm')
def _forall_arm(run, n):
    return _quant(run, n, Arm, ArmV, z3.ForAll)


@form('exists_arm')
def _exists_arm(run, n):
    return _quant(run, n, Arm, ArmV, z3.Exists)


@form('forall_int')
def _forall_int(run, n):
    return _quant(run, n, Int, Num, z3.ForAll)


@form('forall_real')
def _forall_real(run, n):
    return _quant(run, n, Real, Num, z3.ForAll)


# ------------------------------------------------------------------------------------------- logic
@specfn('implies')
def _implies(run, p, q):
    return BoolV(z3.Implies(to_bool_term(p), to_bool_term(q)))


@specfn('iff')
def _iff(run, p, q):
    return BoolV(to_bool_term(p) == to_bool_term(q))


@specfn('ite')
def _ite(run, c, a, b):
    return run.eng.lib.ite(run, to_bool_term(c), a, b)


# --------------------------------------------------------------------------------------- sequences
@specfn('keys')
def _keys(run, d):
    return SeqV('A', _mapo(run, d).keys, True)


@specfn('mem')
def _mem(run, s, a):
    return BoolV(T.amem(_seq(run, s, 'A').term, a.term))


@specfn('inkeys')
def _inkeys(run, d, a):
    return BoolV(T.amem(_mapo(run, d).keys, a.term))


@specfn('distinct')
def _distinct(run, s):
    return BoolV(T.adistinct(_seq(run, s, 'A').term))


@specfn('pos')
def _pos(run, s, a):
    return Num(T.apos(_seq(run, s, 'A').term, a.term))


@specfn('at')
def _at(run, s, i):
    s = _seq(run, s)
    if s.kind == 'A':
        return ArmV(T.aat(s.term, intterm(i)))
    if s.kind == 'R':
        return Num(T.rat(s.term, intterm(i)))
    raise Unsupported('at')


@specfn('slen')
def _slen(run, s):
    if isinstance(s, MatV):
        return Num(mrows(s.term))
    if isinstance(s, Ref):
        o = run.deref(s)
        if isinstance(o, SymListO):
            return Num(o.length)
        if isinstance(o, ListO):
            return Num(len(o.items))
        if isinstance(o, MapO):
            return Num(T.alen(o.keys))
    return Num(seq_len(_seq(run, s)))


@specfn('appended')
def _appended(run, s, a):
    return SeqV('A', T.aappend(_seq(run, s, 'A').term, a.term), True)


@specfn('removed')
def _removed(run, s, a):
    return SeqV('A', T.aremove(_seq(run, s, 'A').term, a.term), True)


@specfn('cnt')
def _cnt(run, d, a):
    """number of rows whose decision is arm a"""
    return Num(T.bcnt(T.eqmask(_seq(run, d, 'A').term, a.term)))


@specfn('ssum')
def _ssum(run, r):
    return Num(T.rsum(_seq(run, r, 'R').term))


@specfn('sel')
def _sel(run, r, d, a):
    """rewards of the rows whose decision is arm a"""
    return SeqV('R', T.rsel(_seq(run, r, 'R').term, T.eqmask(_seq(run, d, 'A').term, a.term)))


@specfn('concat')
def _concat(run, a, b):
    a, b = _seq(run, a), _seq(run, b)
    fn = {'A': T.aconcat, 'R': T.rconcat}[a.kind]
    return SeqV(a.kind, fn(a.term, b.term))


# -------------------------------------------------------------------------------------------- maps
@specfn('msum')
def _msum(run, d):
    m = _mapo(run, d)
    return Num(T.msum(m.keys, m.cols['']))


@specfn('mmax')
def _mmax(run, d):
    m = _mapo(run, d)
    return Num(T.mmax(m.keys, m.cols['']))


@specfn('argmax_first')
def _argmaxf(run, d):
    m = _mapo(run, d)
    return ArmV(T.margmax(m.keys, m.cols['']))


@specfn('argmin_first')
def _argminf(run, d):
    m = _mapo(run, d)
    return ArmV(T.margmin(m.keys, m.cols['']))


@specfn('val')
def _val(run, d, a, col=None):
    """d[a] without the KeyError obligation (for quantified clauses)."""
    m = _mapo(run, d)
    c = col.s if col is not None else ''
    return wrap(m.vkinds[c], m.cols[c][a.term])


@specfn('same_vals')
def _same_vals(run, d1, d2):
    """d1 and d2 agree on every key of d1"""
    m1, m2 = _mapo(run, d1), _mapo(run, d2)
    a = smt.bound('asv', Arm)
    conj = []
    for c in m1.cols:
        conj.append(m1.cols[c][a] == m2.cols[c][a])
    return BoolV(z3.ForAll([a], z3.Implies(T.amem(m1.keys, a), z3.And(*conj))))


# ------------------------------------------------------------------------------------------- reals
@specfn('sqrt')
def _sqrt(run, x):
    return Num(T.sqrt(real(x)))


@specfn('ln')
def _ln(run, x):
    return Num(T.ln(real(x)))


@specfn('exp')
def _exp(run, x):
    return Num(T.exp(real(x)))


@specfn('isnan')
def _isnan(run, x):
    return BoolV(real(x) == NAN)


@specfn('NAN')
def _nan(run):
    return Num(NAN)


@specfn('EPS')
def _eps(run):
    return Num(T.EPS)


@specfn('is_none')
def _is_none(run, x):
    return BoolV(run.eng.lib.is_same(run, x, NONE))


@specfn('some')
def _some(run, a):
    return OptArmV(OptArm.some(a.term))


@specfn('NONE_ARM')
def _none_arm(run):
    return OptArmV(OptArm.none)


@specfn('same')
def _same(run, a, b):
    """same object (identity)"""
    return BoolV(run.eng.lib.is_same(run, a, b))


@specfn('rows')
def _rows(run, m):
    return Num(mrows(m.term))


@specfn('cols')
def _cols(run, m):
    return Num(mcols(m.term))


# ---------------------------------------------------------------------------------- random streams
from . import libcalls as LC      # noqa


def _rs(v):
    if isinstance(v, OpaqueV):
        return v.term
    raise Unsupported('spec: expected a stream state')


@specfn('rngstate')
def _rngstate(run, rng):
    """stream state of a _NumpyRNG object"""
    gen = run.deref(rng).fields['rng']
    return OpaqueV(LC._rs(run, gen), 'rngstate')


@specfn('draw_u')
def _draw_u(run, s):
    return Num(LC.draw_u(_rs(s)))


@specfn('next_u')
def _next_u(run, s):
    return OpaqueV(LC.next_u(_rs(s)), 'rngstate')


@specfn('unext')
def _unext(run, s, k):
    """state after k scalar uniform draws"""
    f = F('iterx_next_u', smt.Rng, Int, smt.Rng)
    return OpaqueV(f(_rs(s), intterm(k)), 'rngstate')


@specfn('draw_uv')
def _draw_uv(run, s, n):
    return SeqV('R', LC.draw_uv(_rs(s), intterm(n)))


@specfn('next_uv')
def _next_uv(run, s, n):
    return OpaqueV(LC.next_uv(_rs(s), intterm(n)), 'rngstate')


@specfn('draw_um')
def _draw_um(run, s, m, n):
    return MatV(LC.draw_um(_rs(s), intterm(m), intterm(n)))


@specfn('next_um')
def _next_um(run, s, m, n):
    return OpaqueV(LC.next_um(_rs(s), intterm(m), intterm(n)), 'rngstate')


@specfn('mat_at')
def _mat_at(run, M, i, j):
    return Num(LC.mat_at(M.term, intterm(i), intterm(j)))


@specfn('item')
def _item(run, lst, j, kind=None):
    """element j of a list of symbolic length"""
    from .lib import unbox
    o = run.deref(lst)
    if isinstance(o, SymListO):
        return unbox(run, o.elems[intterm(j)], kind.s if kind is not None else o.ekind)
    raise Unsupported('item() of %r' % (o,))


@specfn('is_dict')
def _is_dict(run, v):
    return BoolV(isinstance(v, Ref) and isinstance(run.deref(v), MapO))


@specfn('is_list')
def _is_list(run, v):
    return BoolV(isinstance(v, Ref) and isinstance(run.deref(v), (SymListO, ListO)) or isinstance(v, SeqV))


@form('argmax_over')
def _argmax_over(run, n):
    """argmax_over(arms, lambda a: expr): first arm of `arms` attaining the maximum of expr"""
    s = _seq(run, run.ev(n.args[0]), 'A')
    lam = n.args[1]
    a = smt.bound('aamo', Arm)
    saved = run.frames[-1].env
    run.frames[-1].env = dict(saved)
    run.frames[-1].env[lam.args.args[0].arg] = ArmV(a)
    try:
        body = real(run.ev(lam.body))
    finally:
        run.frames[-1].env = saved
    return ArmV(T.margmax(s.term, z3.Lambda([a], body)))


mvals = F('mvals', ASeq, z3.ArraySort(Arm, Real), RSeq)     # list(d.values())
_s = z3.Const('s', ASeq)
_c = z3.Const('c', z3.ArraySort(Arm, Real))
_i = z3.Int('i')
smt.axiom('mvals.len', smt.forall([_s, _c], T.rlen(mvals(_s, _c)) == T.alen(_s), [mvals(_s, _c)]), ['mvals'])
smt.axiom('mvals.at', smt.forall([_s, _c, _i], z3.Implies(z3.And(0 <= _i, _i < T.alen(_s)), T.rat(mvals(_s, _c), _i) == _c[T.aat(_s, _i)]), [T.rat(mvals(_s, _c), _i)]),
          ['mvals'])


@specfn('shifted_values')
def _shifted_values(run, d, eps):
    """[v + eps for v in d.values()]"""
    from .libnp import rshift
    m = _mapo(run, d)
    return SeqV('R', rshift(mvals(m.keys, m.cols['']), real(eps)), True)


@specfn('draw_dirichlet')
def _draw_dirichlet(run, s, alpha, n):
    return MatV(LC.draw_dir(_rs(s), _seq(run, alpha, 'R').term, intterm(n)))


@specfn('next_dirichlet')
def _next_dirichlet(run, s, alpha, n):
    return OpaqueV(LC.next_dir(_rs(s), _seq(run, alpha, 'R').term, intterm(n)), 'rngstate')


# ------------------------------------------------------------------------------ Thompson sampling
bmap = F('binarized', Opaque, ASeq, RSeq, RSeq)      # [binarizer(d_i, r_i) for i]
_b = z3.Const('b', Opaque)
_d = z3.Const('d', ASeq)
_r = z3.Const('r', RSeq)
smt.axiom('binarized.len', smt.forall([_b, _d, _r], T.rlen(bmap(_b, _d, _r)) == T.rlen(_r), [bmap(_b, _d, _r)]),
          ['binarized'])
smt.axiom('binarized.at', smt.forall([_b, _d, _r, _i], z3.Implies(z3.And(0 <= _i, _i < T.rlen(_r)), T.rat(bmap(_b, _d, _r), _i) ==
                                     LC.apply_bin(_b, T.aat(_d, _i), T.rat(_r, _i))), [T.rat(bmap(_b, _d, _r), _i)]),
          ['binarized'])


_d2 = z3.Const('d2', ASeq)
_r2 = z3.Const('r2', RSeq)
# element-wise map distributes over concatenation (validated in lemmas/lean/SeqLaws.lean: binarized_concat)
smt.axiom('binarized.concat', smt.forall([_b, _d, _r, _d2, _r2], z3.Implies(
    T.alen(_d) == T.rlen(_r),
    bmap(_b, T.aconcat(_d, _d2), T.rconcat(_r, _r2)) == T.rconcat(bmap(_b, _d, _r), bmap(_b, _d2, _r2))),
    [bmap(_b, T.aconcat(_d, _d2), T.rconcat(_r, _r2))]), ['binarized'], 'lemma')


@specfn('binarized')
def _binarized(run, b, d, r):
    """rewards converted by the binarizer: binarizer(decision_i, reward_i) for every row"""
    return SeqV('R', bmap(b.term, _seq(run, d, 'A').term, _seq(run, r, 'R').term))


@specfn('binary')
def _binary(run, r):
    """every element is 0 or 1"""
    return BoolV(T.rbinary(_seq(run, r, 'R').term))


@specfn('beta_state')
def _beta_state(run, s0, i, d_keys, succ, fail, size):
    """stream state after the beta draws of the first i keys of d_keys (one draw of `size` values per key)"""
    ks = _mapo(run, d_keys).keys
    sc, fc = _mapo(run, succ).cols[''], _mapo(run, fail).cols['']
    j = smt.bound('jit', Int)
    sz = intterm(size)
    arrs = [z3.Lambda([j], sc[T.aat(ks, j)]), z3.Lambda([j], fc[T.aat(ks, j)]), z3.Lambda([j], sz)]
    f = smt.iterx_fn('iterx_next_beta', smt.Rng, [a.sort() for a in arrs])
    return OpaqueV(f(_rs(s0), intterm(i), *arrs), 'rngstate')


@specfn('draw_beta')
def _draw_beta(run, s, a, b, n):
    return SeqV('R', LC.draw_beta(_rs(s), real(a), real(b), intterm(n)))


@specfn('same_elems')
def _same_elems(run, r, q):
    """two real sequences of equal length with equal elements"""
    r, q = _seq(run, r, 'R'), _seq(run, q, 'R')
    j = smt.bound('jse', Int)
    return BoolV(z3.And(T.rlen(r.term) == T.rlen(q.term),
                        z3.ForAll([j], z3.Implies(z3.And(0 <= j, j < T.rlen(r.term)),
                                                  T.rat(r.term, j) == T.rat(q.term, j)))))


@form('msum_over')
def _msum_over(run, n):
    """msum_over(arms, lambda b: expr): sum of expr over the arms"""
    s = _seq(run, run.ev(n.args[0]), 'A')
    lam = n.args[1]
    a = smt.bound('amso', Arm)
    saved = run.frames[-1].env
    run.frames[-1].env = dict(saved)
    run.frames[-1].env[lam.args.args[0].arg] = ArmV(a)
    try:
        body = real(run.ev(lam.body))
    finally:
        run.frames[-1].env = saved
    return Num(T.msum(s.term, z3.Lambda([a], body)))


# ------------------------------------------------------------------------------------- warm start
@specfn('fdist')
def _fdist(run, metric, u, v):
    return Num(LC.fdist(LC.opaque_of(metric), _seq(run, u, 'R').term, _seq(run, v, 'R').term))


@specfn('inner')
def _inner(run, d, a):
    """inner dict d[a] of a dict of dicts"""
    m = _mapo(run, d)
    return run.st.alloc(MapO(m.cols['#keys'][a.term], {'': m.cols['#vals'][a.term]}, {'': 'real'}))


@specfn('quantile_of')
def _quantile(run, r, q):
    return Num(LC.quantile(_seq(run, r, 'R').term, real(q)))


@specfn('closest_distances')
def _closest_distances(run, dft, sd):
    """[min(d.values()) for d in dft.values() if min(d.values()) != self_distance], as the loop builds it"""
    m = _mapo(run, dft)
    j = smt.bound('jit', Int)
    ks = m.cols['#keys'][T.aat(m.keys, j)]
    vs = m.cols['#vals'][T.aat(m.keys, j)]
    mn = LC.rmin(mvals(ks, vs))
    sdt = real(sd)
    cnd = z3.Lambda([j], z3.simplify(z3.Not(mn == sdt)))
    val = z3.Lambda([j], mn)
    f = smt.iterx_fn('iterx_if_rappend', RSeq, [cnd.sort(), val.sort()])
    return SeqV('R', f(T.rempty, T.alen(m.keys), cnd, val), True)


# -------------------------------------------------------------------------------------- linear algebra
def _la():
    from . import liblinalg
    return liblinalg


@specfn('zeros')
def _zeros(run, d):
    return SeqV('R', _la().zeros(intterm(d)))


@specfn('ident')
def _ident(run, d):
    return MatV(_la().ident(intterm(d)))


@specfn('smul')
def _smul(run, x, M):
    return MatV(_la().mscale(real(x), M.term))


@specfn('madd')
def _madd(run, A, B):
    return MatV(_la().madd(A.term, B.term))


@specfn('vadd')
def _vadd(run, u, v):
    from .libnp import radd
    return SeqV('R', radd(_seq(run, u, 'R').term, _seq(run, v, 'R').term))


@specfn('gram')
def _gram(run, X):
    """X'X"""
    la = _la()
    return MatV(la.mdot(la.mT(X.term), X.term))


@specfn('xty')
def _xty(run, X, y):
    """X'y"""
    la = _la()
    return SeqV('R', la.matvec(la.mT(X.term), _seq(run, y, 'R').term))


@specfn('minv')
def _minv(run, A):
    return MatV(_la().minv(A.term))


@specfn('matvec')
def _matvec(run, A, v):
    return SeqV('R', _la().matvec(A.term, _seq(run, v, 'R').term))


@specfn('vecmat')
def _vecmat(run, v, A):
    return SeqV('R', _la().vecmat(_seq(run, v, 'R').term, A.term))


@specfn('vdot')
def _vdot(run, u, v):
    return Num(_la().vdot(_seq(run, u, 'R').term, _seq(run, v, 'R').term))


@specfn('row')
def _row(run, M, i):
    return SeqV('R', LC.mrow(M.term, intterm(i)))


@specfn('draw_mvn')
def _draw_mvn(run, s, mean, cov, n):
    return MatV(LC.draw_mvn(_rs(s), _seq(run, mean, 'R').term, cov.term, intterm(n)))


@specfn('next_mvn')
def _next_mvn(run, s, mean, cov, n):
    return OpaqueV(LC.next_mvn(_rs(s), _seq(run, mean, 'R').term, cov.term, intterm(n)), 'rngstate')


@specfn('scaler_state')
def _scaler_state(run, sc):
    """abstract state of a StandardScaler object (or of None)"""
    if isinstance(sc, NoneV):
        from .lib import none_const
        return OpaqueV(none_const(Opaque), 'scaler')
    if isinstance(sc, Ref):
        return run.deref(sc).fields['state']
    return sc


@specfn('scaler_fit')
def _scaler_fit(run, X):
    from . import libml
    return OpaqueV(libml.sc_fit(X.term), 'scaler')


@specfn('scaler_partial_fit')
def _scaler_pfit(run, s, X):
    from . import libml
    return OpaqueV(libml.sc_pfit(s.term, X.term), 'scaler')


@specfn('scaler_fix')
def _scaler_fix(run, s):
    from . import libml
    return OpaqueV(libml.sc_fix(s.term), 'scaler')


@specfn('scaler_fitted')
def _scaler_fitted(run, s):
    from . import libml
    return BoolV(libml.sc_fitted(s.term))


@specfn('scaler_transform')
def _scaler_transform(run, s, X):
    from . import libml
    return MatV(libml.sc_apply(s.term, X.term))


@specfn('UNFITTED')
def _unfitted(run):
    from . import libml
    return OpaqueV(libml.sc_new, 'scaler')


@specfn('selrows')
def _selrows(run, X, d, a):
    """rows of X whose decision is arm a"""
    la = _la()
    return MatV(la.msel(X.term, T.eqmask(_seq(run, d, 'A').term, a.term)))


@form('is_first_argmax')
def _is_first_argmax(run, n):
    """is_first_argmax(r, arms, lambda a: expr): r is the first arm of `arms` attaining the maximum of expr"""
    r = run.ev(n.args[0])
    s = _seq(run, run.ev(n.args[1]), 'A')
    lam = n.args[2]
    a = smt.bound('afa', Arm)

    def at(armterm):
        saved = run.frames[-1].env
        run.frames[-1].env = dict(saved)
        run.frames[-1].env[lam.args.args[0].arg] = ArmV(armterm)
        try:
            return real(run.ev(lam.body))
        finally:
            run.frames[-1].env = saved
    va, vr = at(a), at(r.term)
    return BoolV(z3.And(T.amem(s.term, r.term),
                        z3.ForAll([a], z3.Implies(T.amem(s.term, a),
                                                  z3.And(va <= vr, z3.Implies(va == vr, T.apos(s.term, r.term) <=
                                                                              T.apos(s.term, a)))),
                                  patterns=[T.amem(s.term, a)])))


# ---------------------------------------------------------------------------------- neighbourhoods
@specfn('seeded')
def _seeded(run, lp, seed):
    """a deep copy of the learning policy lp whose generator is create_rng(seed)"""
    c = run.deepcopy(lp)
    gen = run.st.alloc(Obj('np.Generator', {'state': OpaqueV(T.rng_init(intterm(seed)), 'rngstate')}))
    rng = run.st.alloc(Obj('_NumpyRNG', {'seed': Num(intterm(seed)), 'rng': gen}))
    run.st.heap[c.loc] = run.st.heap[c.loc].set('rng', rng)
    return c


@specfn('row2d')
def _row2d(run, M, j):
    """row j of M as a (1, d) matrix:  M[j][np.newaxis, :]"""
    return MatV(LC.row1(LC.mk_mrow(M.term, intterm(j))))


@specfn('dists')
def _dists(run, H, row2d, metric):
    """cdist(H, row_2d, metric).reshape(-1): distance of every stored context to the query row"""
    return SeqV('R', LC.mcol(LC.cdistm(LC.opaque_of(metric), H.term, row2d.term), 0))


@specfn('within')
def _within(run, d, radius):
    """np.where(d <= radius): the tuple holding the indices of the entries not larger than radius"""
    from .libnp import lemask
    la = _la()
    return TupleV([SeqV('I', la.where(lemask(_seq(run, d, 'R').term, real(radius))))])


@specfn('n_within')
def _n_within(run, d, radius):
    from .libnp import lemask
    return Num(T.bcnt(lemask(_seq(run, d, 'R').term, real(radius))))


@specfn('k_smallest')
def _k_smallest(run, d, k):
    """np.argpartition(d, k - 1)[:k]: k indices whose distances are not larger than any other distance (A4)"""
    la = _la()
    kk = intterm(k)
    return SeqV('I', la.islice(la.argpart(_seq(run, d, 'R').term, kk - 1), z3.IntVal(0), kk))


@specfn('ival')
def _ival(run, s, j):
    """element j of an int sequence (an index array, or a Python list of ints)"""
    if isinstance(s, Ref):
        o = run.deref(s)
        if isinstance(o, SymListO):
            return unbox(run, o.elems[intterm(j)], o.ekind)
    sv = _seq(run, s, None)
    if sv.kind == 'R':
        return Num(T.rat(sv.term, intterm(j)))
    return Num(LC.mk_iat(sv.term, intterm(j)))


@specfn('vstack')
def _vstack(run, A, B):
    return MatV(_la().mvstack(A.term, B.term))


def _idx_seq(run, v):
    if isinstance(v, TupleV) and len(v.items) == 1:
        v = v.items[0]
    s = run.eng.lib.as_seq(run, v)
    if s is None or s.kind != 'I':
        raise Unsupported('spec: expected an index array')
    return s


@specfn('indices_in_range')
def _indices_in_range(run, idx, n):
    from .lib import iat, ilen
    s = _idx_seq(run, idx)
    j = smt.bound('jidx', Int)
    body = z3.Implies(z3.And(0 <= j, j < ilen(s.term)), z3.And(0 <= iat(s.term, j), iat(s.term, j) < intterm(n)))
    try:
        return BoolV(z3.ForAll([j], body, patterns=[iat(s.term, j)]))
    except z3.Z3Exception:
        return BoolV(z3.ForAll([j], body))       # the sequence term contains an if-then-else: let z3 pick the triggers


@specfn('n_indices')
def _n_indices(run, idx):
    from .lib import ilen
    return Num(ilen(_idx_seq(run, idx).term))


@specfn('same_item')
def _same_item(run, lst, j, v):
    """element j of a result list is the value v (an arm, or a dict with the same keys and values)"""
    from .lib import PV
    o = run.deref(lst)
    e = o.elems[intterm(j)]
    if isinstance(v, ArmV):
        return BoolV(e == PV.pv_arm(v.term))
    if isinstance(v, Ref) and isinstance(run.deref(v), MapO):
        m = run.deref(v)
        if getattr(m, 'boxed', None) is not None:
            return BoolV(e == m.boxed)
        return BoolV(e == PV.pv_dict(m.keys, m.cols['']))
    raise Unsupported('same_item with %r' % (v,))


@specfn('none_scaler')
def _none_scaler(run):
    from .lib import none_const
    return OpaqueV(none_const(Opaque), 'scaler')


@specfn('rank_true')
def _rank_true(run, mask, i):
    """position of index i among the True entries of a mask (inverse of np.where)"""
    return Num(_la().rank(mask.term, intterm(i)))


@specfn('lt_mask')
def _lt_mask(run, r, x):
    from .libnp import ltmask
    return SeqV('B', ltmask(_seq(run, r, 'R').term, real(x)))


@specfn('n_true')
def _n_true(run, m):
    return Num(T.bcnt(m.term))


@specfn('isum_of')
def _isum_of(run, u):
    return Num(_la().isum(u.term))


@specfn('draw_integers')
def _draw_integers(run, s, hi, n):
    return SeqV('I', LC.draw_int(_rs(s), intterm(hi), intterm(n)))


@specfn('next_integers')
def _next_integers(run, s, hi, n):
    return OpaqueV(LC.next_int(_rs(s), intterm(hi), intterm(n)), 'rngstate')


@specfn('is_list_result')
def _is_list_result(run, v):
    return BoolV(isinstance(v, Ref) and isinstance(run.deref(v), (SymListO, ListO)))


@specfn('as_list')
def _as_list(run, v):
    """a result that is a list of per-row values, or the single per-row value as a one-element list"""
    from .lib import box, ekind_of
    if isinstance(v, Ref) and isinstance(run.deref(v), SymListO):
        return v
    return run.st.alloc(SymListO(z3.IntVal(1), z3.K(Int, box(run, v)), ekind_of(run, v)))


# ------------------------------------------------------------------------------------------ facade
@specfn('fitted')
def _fitted(run, imp):
    """the implementor has been through fit(): neighbourhood policies hold a history, linear policies know the width"""
    o = run.deref(imp)
    if 'decisions' in o.fields:
        return BoolV(z3.Not(run.eng.lib.is_same(run, o.fields['decisions'], NONE)))
    if 'num_features' in o.fields:
        return BoolV(z3.Not(run.eng.lib.is_same(run, o.fields['num_features'], NONE)))
    return BoolV(True)


@specfn('arm_is_none')
def _arm_is_none(run, a):
    return BoolV(F('arm_is_none', Arm, Bool)(a.term))


@specfn('arm_is_nan')
def _arm_is_nan(run, a):
    return BoolV(F('arm_is_nan', Arm, Bool)(a.term))


@specfn('arm_is_inf')
def _arm_is_inf(run, a):
    return BoolV(F('arm_is_inf', Arm, Bool)(a.term))


def _alterm(v):
    if isinstance(v, OpaqueV):
        return v.term
    raise Unsupported('spec: expected an abstract container')


def _al_pred(name):
    def f(run, v):
        from . import libarraylike as AL
        if isinstance(v, (SeqV, MatV)):
            # an already converted value: an ndarray (a Python list when pylist)
            is_list = bool(getattr(v, 'pylist', False))
            return BoolV({'is_list': is_list, 'is_ndarray': not is_list}.get(name, False))
        return BoolV(getattr(AL, name)(_alterm(v)))
    return f


for _nm in ('is_list', 'is_ndarray', 'is_series', 'is_dataframe'):
    SPECFNS['al_' + _nm] = _al_pred(_nm)


@specfn('al_ndim')
def _al_ndim(run, v):
    from . import libarraylike as AL
    return Num(AL.ndim(_alterm(v)))


@specfn('al_len')
def _al_len(run, v):
    from . import libarraylike as AL
    return Num(AL.olen(_alterm(v)))


@specfn('content_of')
def _content_of(run, v):
    """the elements of a container (abstract or converted)"""
    from . import libarraylike as AL
    if AL.is_al(v):
        return AL.content(v)
    return v


@specfn('reals_of')
def _reals_of(run, v):
    from . import libarraylike as AL
    if AL.is_al(v):
        return SeqV('R', AL.as_rseq(v.term))
    return v


@specfn('matrix_of')
def _matrix_of(run, v):
    from . import libarraylike as AL
    if AL.is_al(v):
        return MatV(AL.as_mat(v.term))
    return v


@specfn('as_column')
def _as_column(run, v):
    return MatV(F('col1', RSeq, Mat)(_seq(run, v, 'R').term))


@specfn('as_row')
def _as_row(run, v):
    return MatV(LC.row1(_seq(run, v, 'R').term))


@specfn('rng_init_of')
def _rng_init_of(run, seed):
    return OpaqueV(T.rng_init(intterm(seed)), 'rngstate')


@specfn('isperm')
def _isperm(run, p, n):
    """p is a permutation of 0 .. n-1 (an index array that visits every row exactly once)"""
    from .laws import isperm
    return BoolV(isperm(_seq(run, p, 'I').term, intterm(n)))


@specfn('take')
def _take(run, r, p):
    """r[p] for an index array p (NumPy fancy indexing)"""
    r = _seq(run, r, None) if not isinstance(r, MatV) else r
    pt = _seq(run, p, 'I').term
    la = _la()
    if isinstance(r, MatV):
        return MatV(la.mtake(r.term, pt))
    return SeqV(r.kind, {'A': la.atake, 'R': la.rtake}[r.kind](r.term, pt))


@specfn('rscaled')
def _rscaled(run, k, r):
    """k * r element-wise"""
    from .libnp import rscale
    return SeqV('R', rscale(real(k), _seq(run, r, 'R').term))



# ------------------------------------------------------------------------------ LSH sign-pattern code (C11)
signcode = F('signcode', RSeq, Mat, Int, Real)      # sum_{t < n} 2^t [x . col_t(P) > 0]
pow2 = F('pow2', Int, Int)
_xv = z3.Const('xv', RSeq)
_P = z3.Const('P', smt.Mat)
_t = z3.Int('t')
smt.axiom('signcode.zero', smt.forall([_xv, _P], signcode(_xv, _P, 0) == 0, [signcode(_xv, _P, 0)]), ['signcode'])


@specfn('signcode')
def _signcode(run, x, P, n):
    """binary code of the sign pattern of x under the first n columns of P: sum_{t<n} 2^t [x . P_t > 0]"""
    return Num(signcode(_seq(run, x, 'R').term, P.term, intterm(n)))


@specfn('unfold_signcode')
def _unfold_signcode(run, X, P, i):
    """definitional unfolding of signcode at step i for every row of X (an instance of the recursive definition
    signcode(x, P, i+1) = signcode(x, P, i) + 2^i [x . P_i > 0]; stated per step so that E-matching cannot unfold the
    recursion without bound).  Adds the instance to the current path and is itself true."""
    la = _la()
    from .libcalls import mrow, mcol
    r = smt.bound('rsc', Int)
    it = intterm(i)
    row = mrow(X.term, r)
    nxt = smt.fresh('next_i', Int)
    run.st.assume(nxt == it + 1)
    inst = z3.ForAll([r], signcode(row, P.term, nxt) == signcode(row, P.term, it) +
                     z3.If(la.vdot(row, mcol(P.term, it)) > 0, z3.ToReal(pow2(it)), z3.RealVal(0)),
                     patterns=[signcode(row, P.term, nxt)])
    run.st.assume(z3.Implies(it >= 0, inst))
    return BoolV(z3.BoolVal(True))


# ------------------------------------------------------------------------------ int-keyed dictionaries (LSH tables)
def _imap(run, v):
    if isinstance(v, Ref) and isinstance(run.deref(v), IMapO):
        return run.deref(v)
    raise Unsupported('spec: expected a dict keyed by range(n), got %r' % (v,))


@specfn('ntables')
def _ntables(run, m):
    """number of keys of a dict keyed by range(n)"""
    return Num(_imap(run, m).n)


@specfn('plane')
def _plane(run, m, k):
    """the hyperplane matrix of table k"""
    return MatV(_imap(run, m).vals[intterm(k)])


@specfn('bucket')
def _bucket(run, m, k, h):
    """the index list stored under hash value h of table k (empty when the key is absent)"""
    return SeqV('I', _imap(run, m).vals[intterm(k)][real(h)], True)


@specfn('shifted')
def _shifted(run, u, c):
    """u + c element-wise for an index sequence"""
    return SeqV('I', F('ishift', ISeq, Int, ISeq)(_seq(run, u, 'I').term, intterm(c)), True)


@specfn('iconcat')
def _iconcat(run, u, v):
    return SeqV('I', F('iconcat', ISeq, ISeq, ISeq)(_seq(run, u, 'I').term, _seq(run, v, 'I').term), True)


@specfn('where_eq')
def _where_eq(run, r, h):
    """positions of the value h in the real sequence r, ascending (np.where(r == h)[0])"""
    la = _la()
    from .libnp import reqmask
    return SeqV('I', la.where(reqmask(_seq(run, r, 'R').term, real(h))), True)


# ---- membership in index lists, and the LSH collision predicate (C11)
imem = F('imem', ISeq, Int, Bool)
_u1 = z3.Const('u1', ISeq)
_u2 = z3.Const('u2', ISeq)
_jm = z3.Int('jm')
_LAi = None
smt.axiom('imem.concat', smt.forall([_u1, _u2, _jm], imem(F('iconcat', ISeq, ISeq, ISeq)(_u1, _u2), _jm) ==
                                    z3.Or(imem(_u1, _jm), imem(_u2, _jm)),
                                    [imem(F('iconcat', ISeq, ISeq, ISeq)(_u1, _u2), _jm)]), ['imem'])
smt.axiom('imem.empty', smt.forall([_u1, _jm], z3.Implies(F('ilen', ISeq, Int)(_u1) == 0, z3.Not(imem(_u1, _jm))),
                                   [imem(_u1, _jm)]), ['imem'])
smt.axiom('imem.at', smt.forall([_u1, _i], z3.Implies(z3.And(0 <= _i, _i < F('ilen', ISeq, Int)(_u1)),
                                                      imem(_u1, F('iat', ISeq, Int, Int)(_u1, _i))),
                                [F('iat', ISeq, Int, Int)(_u1, _i)]), ['imem'])
ipos = F('ipos', ISeq, Int, Int)
smt.axiom('imem.pos', smt.forall([_u1, _jm], z3.Implies(imem(_u1, _jm), z3.And(
    0 <= ipos(_u1, _jm), ipos(_u1, _jm) < F('ilen', ISeq, Int)(_u1),
    F('iat', ISeq, Int, Int)(_u1, ipos(_u1, _jm)) == _jm)), [imem(_u1, _jm)]), ['imem'])

HTab = z3.ArraySort(Int, z3.ArraySort(Real, ISeq))
PTab = z3.ArraySort(Int, smt.Mat)
collides = F('lsh_collides', HTab, PTab, RSeq, Int, Int, Bool)     # j is in bucket(k, code_k(x)) for some k < n


@specfn('imem')
def _imem(run, u, j):
    """j occurs in the index list u"""
    return BoolV(imem(_seq(run, u, 'I').term, intterm(j)))


def _lsh_code(Pt, x, k):
    from .lib import mcols as _mc
    return signcode(x, Pt[k], _mc(Pt[k]))


@specfn('lsh_collides')
def _lsh_collides(run, T_, P_, x, j, n):
    """row x shares its sign pattern with stored row j under at least one of the first n hyperplane sets:
    j is in bucket(k, signcode(x, plane_k)) for some k < n"""
    return BoolV(collides(_imap(run, T_).vals, _imap(run, P_).vals, _seq(run, x, 'R').term, intterm(j), intterm(n)))


@specfn('unfold_collides')
def _unfold_collides(run, T_, P_, x, i):
    """definitional unfolding of lsh_collides at table i (one step of the recursion over the tables)"""
    Tt, Pt, xt, it = _imap(run, T_).vals, _imap(run, P_).vals, _seq(run, x, 'R').term, intterm(i)
    j = smt.bound('jc', Int)
    nxt = smt.fresh('next_k', Int)
    run.st.assume(nxt == it + 1)
    inst = z3.ForAll([j], collides(Tt, Pt, xt, j, nxt) ==
                     z3.Or(collides(Tt, Pt, xt, j, it), imem(Tt[it][_lsh_code(Pt, xt, it)], j)),
                     patterns=[collides(Tt, Pt, xt, j, nxt)])
    zero = z3.ForAll([j], z3.Not(collides(Tt, Pt, xt, j, 0)), patterns=[collides(Tt, Pt, xt, j, 0)])
    run.st.assume(z3.Implies(it >= 0, inst))
    run.st.assume(zero)
    return BoolV(z3.BoolVal(True))


hashes = F('lsh_hashes', smt.Mat, smt.Mat, RSeq)        # get_context_hash(X, P): the code of every row of X under P
_Xh = z3.Const('Xh', smt.Mat)
_Ph = z3.Const('Ph', smt.Mat)
smt.axiom('lsh_hashes.len', smt.forall([_Xh, _Ph], T.rlen(hashes(_Xh, _Ph)) == mrows(_Xh), [hashes(_Xh, _Ph)]), ['lsh_hashes'])


def _hashes_at_axiom():
    from .libcalls import mrow
    smt.axiom('lsh_hashes.at', smt.forall([_Xh, _Ph, _i], z3.Implies(
        z3.And(0 <= _i, _i < mrows(_Xh)),
        T.rat(hashes(_Xh, _Ph), _i) == signcode(mrow(_Xh, _i), _Ph, mcols(_Ph))), [T.rat(hashes(_Xh, _Ph), _i)]),
        ['lsh_hashes'])


_hashes_at_axiom()


@specfn('lsh_hashes')
def _lsh_hashes(run, X, P):
    """the hash value of every row of X under the hyperplanes P (what get_context_hash returns)"""
    return SeqV('R', hashes(X.term, P.term))


idedup = F('idedup', ISeq, ISeq)          # list(set(u))
_ilen = F('ilen', ISeq, Int)
smt.axiom('idedup.mem', smt.forall([_u1, _jm], imem(idedup(_u1), _jm) == imem(_u1, _jm), [imem(idedup(_u1), _jm)]), ['idedup'])
smt.axiom('idedup.len', smt.forall([_u1], z3.And(_ilen(idedup(_u1)) <= _ilen(_u1), _ilen(idedup(_u1)) >= 0,
                                                 (_ilen(idedup(_u1)) == 0) == (_ilen(_u1) == 0)), [idedup(_u1)]), ['idedup'])
smt.axiom('idedup.distinct', smt.forall([_u1, _i, _jm], z3.Implies(
    z3.And(0 <= _i, _i < _jm, _jm < _ilen(idedup(_u1))),
    F('iat', ISeq, Int, Int)(idedup(_u1), _i) != F('iat', ISeq, Int, Int)(idedup(_u1), _jm)),
    [(F('iat', ISeq, Int, Int)(idedup(_u1), _i), F('iat', ISeq, Int, Int)(idedup(_u1), _jm))]), ['idedup'])

@specfn('idedup')
def _idedup(run, u):
    """list(set(u)): the members of u, each once"""
    return SeqV('I', idedup(_idx_seq(run, u).term), True)


# ------------------------------------------------------------------------------ simulator split (C16)
@specfn('floor_int')
def _floor_int(run, x):
    """int(x): truncation toward zero, as Python's int() on a float"""
    t = real(x)
    return Num(z3.If(t >= 0, z3.ToInt(t), -z3.ToInt(-t)))


@specfn('component')
def _item(run, tup, k):
    """component k of a tuple result"""
    if isinstance(tup, TupleV) and isinstance(k, Num) and k.concrete() is not None:
        return tup.items[int(k.concrete())]
    raise Unsupported('spec: item() of %r' % (tup,))


def _slice_fn(kind):
    return {'A': F('aslice', ASeq, Int, Int, ASeq), 'R': F('rslice', RSeq, Int, Int, RSeq)}[kind]


@specfn('aslice')
def _aslice(run, s, lo, hi):
    return SeqV('A', _slice_fn('A')(_seq(run, s, 'A').term, intterm(lo), intterm(hi)))


@specfn('rslice')
def _rslice(run, s, lo, hi):
    return SeqV('R', _slice_fn('R')(_seq(run, s, 'R').term, intterm(lo), intterm(hi)))


@specfn('mslice')
def _mslice(run, M, lo, hi):
    return MatV(F('mslice', smt.Mat, Int, Int, smt.Mat)(M.term, intterm(lo), intterm(hi)))


@specfn('field')
def _field(run, rec, name):
    """entry `name` of a dictionary literal with string keys"""
    if isinstance(rec, RecordV) and isinstance(name, StrV) and name.s in rec.fields:
        return rec.fields[name.s]
    raise Unsupported('spec: field(%r, %r)' % (rec, name))


@specfn('smin')
def _smin(run, r):
    return Num(LC.rmin(_seq(run, r, 'R').term))


@specfn('smax')
def _smax(run, r):
    return Num(LC.rmax(_seq(run, r, 'R').term))
