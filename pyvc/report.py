"""Evidence, exit codes, known findings (DESIGN.md section 6)."""
import hashlib


def dedupe(obs):
    seen = set()
    out = []
    for ob in obs:
        ob.compile()
        h = hashlib.sha1((ob.name + '\0' + ob.smt2).encode()).hexdigest()
        if h in seen:
            continue
        seen.add(h)
        out.append(ob)
    return out


def run_property(eng, prop, args):
    raise NotImplementedError
