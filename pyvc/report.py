"""Per-property check: generate and discharge the property's obligations, write evidence, decide the exit code.

Exit codes (DESIGN.md section 6): 0 all obligations discharged (known findings listed); 1 VIOLATION; 2 undecided
only; 3 checker error (zero obligations, unsatisfiable requires, engine crash).
"""
import hashlib
import re
import json
import multiprocessing as mp
import os
import sys
import time
import traceback

ROOT = os.path.dirname(os.path.dirname(os.path.abspath(__file__)))


def dedupe(obs):
    seen = set()
    out = []
    for ob in obs:
        ob.compile()
        h = hashlib.sha1((ob.name + '\0' + ob.smt2).encode()).hexdigest()
        if h in seen:
            continue
        seen.add(h)
        out.append(ob)
    return out


def all_targets(eng):
    """(qual, cls) pairs to verify: every function under contract, per receiver class where the contract says so."""
    from . import spec as specmod
    out = []
    for (qual, cls), sp in specmod.FUNCS.items():
        if qual not in eng.repo.funcs:
            out.append((qual, cls, 'missing'))
            continue
        if sp.trusted:
            continue
        fi = eng.repo.funcs[qual]
        out.append((qual, cls or fi.cls, 'ok'))
    return out


def expand_splits(eng, cls, prefix='self'):
    """Case splits of a receiver class that are verified as separate targets (in parallel): the classes of its
    polymorphic object fields (recursively) and the string variants (e.g. the regression of _Linear)."""
    from . import spec as specmod
    import re
    out = [{}]
    if cls is None:
        return out
    for f, d in specmod.class_fields(eng.repo, cls).items():
        d = d.replace(' const', '')
        name = '%s_%s' % (prefix, f)
        alts = None
        m = re.match(r'^str:\{(.*)\}', d)
        if m:
            alts = [{name: a.strip()} for a in m.group(1).split('|')]
        m = re.match(r'^obj:\{(.*)\}', d)
        if m:
            alts = []
            for a in m.group(1).split('|'):
                a = a.strip()
                for inner in expand_splits(eng, a, name):
                    r = {name: a}
                    r.update(inner)
                    alts.append(r)
        if alts:
            out = [dict(x, **y) for x in out for y in alts]
    return out


def target_splits(eng, qual, cls):
    """Case splits of one target; a lemma program over twin objects splits both objects the same way."""
    from . import spec as specmod
    sp = specmod.lookup(eng.repo, qual, cls)
    tw = getattr(sp, 'twins', None)
    if not tw:
        return expand_splits(eng, cls)
    out = []
    for f in expand_splits(eng, cls, prefix=tw[0]):
        g = dict(f)
        for k, v in f.items():
            for other in tw[1:]:
                g[other + k[len(tw[0]):]] = v
        out.append(g)
    return out


def props_of_spec(sp):
    ps = set(sp.props)
    if not sp.qual.startswith('lemma_'):
        ps.add('C20')       # every function under contract carries the arm-parametricity obligation (MT3)
        ps.add('C19')       # ... and the attribute-universe obligation
        ps.add('C04')       # ... and the hash-order obligation
    for cl in sp.requires + sp.ensures + sp.ensures_raises:
        if cl.props:
            ps |= set(cl.props)
    return ps


_ENG = None


def _gen_worker(target):
    qual, cls = target[0], target[1]
    forced = dict(target[2]) if len(target) > 2 else None
    from . import smt
    t0 = time.time()
    # names of fresh constants and binders are a function of the target alone (not of what this worker process
    # generated before), so the SMT text - and with it the solver's behaviour - is the same on every run
    smt._counter[0] = 1000000
    smt._bv[0] = 1000000
    del smt.FRESH_LOG[:]
    try:
        if qual == 'static:copy':
            from . import verify
            obs, probs = verify.static_obligations(_ENG), []
        else:
            obs, probs = _ENG.verify(qual, cls, forced=forced)
        obs = dedupe(obs)
        out = []
        for ob in obs:
            out.append(dict(name=ob.name, func=ob.func, kind=ob.kind, props=list(ob.props), detail=ob.detail,
                            expect_sat=ob.expect_sat, smt2=ob.smt2, clause=ob.meta.get('clause', ''),
                            axioms=ob.axioms_used, path=getattr(ob, 'path', []), trivial=ob.trivial()))
        return target, out, probs, time.time() - t0, None
    except Exception:
        return target, [], [], time.time() - t0, traceback.format_exc()


def generate(eng, targets, jobs=16):
    global _ENG
    _ENG = eng
    results = []
    if jobs > 1 and len(targets) > 1:
        with mp.get_context('fork').Pool(min(jobs, len(targets))) as pool:
            for r in pool.imap_unordered(_gen_worker, targets, chunksize=1):
                results.append(r)
    else:
        for t in targets:
            results.append(_gen_worker(t))
    results.sort(key=lambda r: (r[0][0], r[0][1] or '', r[0][2:]))
    return results


def unique_names(records):
    """Obligation names are made unique per function by a stable ordinal suffix."""
    count = {}
    for r in records:
        count[r['name']] = count.get(r['name'], 0) + 1
    seen = {}
    for r in records:
        if count[r['name']] > 1:
            k = seen.get(r['name'], 0)
            seen[r['name']] = k + 1
            r['name'] = '%s@%d' % (r['name'], k)
    return records


def solve_records(records, timeout_ms, jobs):
    from . import smt
    tasks = [(i, r['smt2'], timeout_ms, r['expect_sat'], ('cvc5',)) for i, r in enumerate(records) if not r.get('trivial')]
    out = [None] * len(records)
    for i, r in enumerate(records):
        if r.get('trivial'):
            out[i] = ('unsat', 0.0, None, '', 'syntactic (goal is a hypothesis)', {})
    if jobs > 1 and len(tasks) > 1:
        with mp.get_context('fork').Pool(jobs) as pool:
            for idx, res, dt, model, reason, backend, extra in pool.imap_unordered(smt._worker, tasks, chunksize=1):
                out[idx] = (res, dt, model, reason, backend, extra)
    else:
        for t in tasks:
            idx, res, dt, model, reason, backend, extra = smt._worker(t)
            out[idx] = (res, dt, model, reason, backend, extra)
    for r, (res, dt, model, reason, backend, extra) in zip(records, out):
        r['result'], r['seconds'], r['model'], r['reason'], r['backend'] = res, dt, model, reason, backend
        if r['expect_sat']:
            r['status'] = {'sat': 'discharged', 'unsat': 'refuted',
                           'unknown': 'discharged' if reason == 'saturated' else 'undecided'}[res]
        else:
            r['status'] = {'unsat': 'discharged', 'sat': 'refuted',
                           'unknown': 'unproved' if reason == 'saturated' else 'undecided'}[res]
    return records


def _cross_worker(t):
    from . import smt
    i, smt2 = t
    r, dt = smt.solve_smt2_cli(smt2, 'cvc5', 10.0)
    return i, r, dt


def cross_check(records, seed, jobs, sample=300):
    """thorough tier: a seeded sample of the obligations z3 discharged is given to cvc5 as well (only queries without z3
    lambdas can be read by cvc5).  cvc5 answering `sat` where z3 answered `unsat` is a checker error (exit 3)."""
    import random
    cand = [i for i, r in enumerate(records) if r['status'] == 'discharged' and not r['expect_sat'] and not r.get('trivial')
            and r.get('backend', '').startswith('z3') and '(lambda' not in r['smt2']]
    random.Random(seed).shuffle(cand)
    cand = cand[:sample]
    out = {'sampled': len(cand), 'cvc5_unsat': 0, 'cvc5_unknown': 0, 'disagreements': []}
    if not cand:
        return out
    with mp.get_context('fork').Pool(max(1, min(jobs, len(cand)))) as pool:
        for i, r, dt in pool.imap_unordered(_cross_worker, [(i, records[i]['smt2']) for i in cand], chunksize=4):
            if r == 'unsat':
                out['cvc5_unsat'] += 1
            elif r == 'sat':
                out['disagreements'].append(records[i]['name'])
            else:
                out['cvc5_unknown'] += 1
    return out


def settle_covers(records):
    """Vacuity guard per function: its requires must be satisfiable on at least one path; case-split paths that
    contradict the requires (e.g. an optional parameter that the contract says is present) are dropped."""
    groups = {}
    for r in records:
        if r['kind'] == 'cover':
            groups.setdefault(r['func'] + '|' + r['name'].split(':cover')[0], []).append(r)
    drop = set()
    for g, rs in groups.items():
        if any(r['status'] == 'discharged' for r in rs):
            for r in rs:
                if r['status'] != 'discharged':
                    drop.add(id(r))
    return [r for r in records if id(r) not in drop]


def norm_name(name):
    """obligation name without the per-run ordinal and without source line numbers (stable under harmless edits)"""
    name = name.split('@')[0]
    return re.sub(r'line \d+', 'line', name)


def load_json(path, default):
    try:
        with open(path) as f:
            return json.load(f)
    except FileNotFoundError:
        return default


def run_property(eng, prop, args):
    from . import spec as specmod, smt
    t0 = time.time()
    tier = args.tier
    seed = int(os.environ.get('VERIF_SEED', '0') or 0)
    targets = []
    missing = []
    for qual, cls, st in all_targets(eng):
        sp = specmod.lookup(eng.repo, qual, cls) if st == 'ok' else specmod.FUNCS.get((qual, cls))
        if prop != 'all' and prop not in props_of_spec(sp):
            continue
        if st == 'missing':
            missing.append(qual)
        else:
            targets.append((qual, cls))
    split = []
    for qual, cls in sorted(set(targets)):
        for f in target_splits(eng, qual, cls):
            split.append((qual, cls, tuple(sorted(f.items()))))
    if prop in ('C19', 'C05', 'all'):
        split.append(('static:copy', None, ()))
    gen = generate(eng, split, args.jobs)
    records = []
    problems = []
    crashes = []
    gen_s = 0.0
    gen_times = []
    for target, obs, probs, dt, err in gen:
        gen_s += dt
        gen_times.append((dt, target))
        if err:
            crashes.append((target, err))
        for r in obs:
            if prop == 'all' or prop in r['props']:
                records.append(r)
        for p in probs:
            problems.append(p)
    unique_names(records)
    if getattr(args, 'verbose', False):
        for dt, t in sorted(gen_times, reverse=True)[:6]:
            print('   vcgen %6.1fs %s' % (dt, t))
    solve_records(records, args.timeout, args.jobs)
    records = settle_covers(records)
    args.cross = cross_check(records, seed, args.jobs) if tier == 'thorough' else None
    if args.cross and args.cross.get('disagreements'):
        crashes.append(('solver cross-check', 'cvc5 finds a model for obligations z3 reported unsat: %s'
                        % args.cross['disagreements'][:3]))
    return finish(eng, prop, tier, seed, targets, records, problems, crashes, missing, t0, gen_s, args)


def finish(eng, prop, tier, seed, targets, records, problems, crashes, missing, t0, gen_s, args):
    known = load_json(os.path.join(ROOT, 'known_findings.json'), {'findings': [], 'fixed': []})
    baseline = load_json(os.path.join(ROOT, 'baseline_obligations.json'), {})
    base_names = set(baseline.get('discharged', []))
    if getattr(args, 'write_baseline', False):
        good, bad = set(), set()
        for r in records:
            (good if r['status'] == 'discharged' else bad).add(norm_name(r['name']))
        with open(os.path.join(ROOT, 'baseline_obligations.json'), 'w') as f:
            json.dump({'_doc': 'normalised names of the obligations discharged on the unchanged tree (written by '
                               './check all --write-baseline); an obligation listed here that is no longer discharged '
                               'is reported as a violation',
                       'source_digest': eng.repo.digest, 'discharged': sorted(good - bad)}, f, indent=0)
        print('baseline written: %d names' % len(good - bad))
    lines = []
    violations = []
    undecided = []
    known_hits = []
    kf = {}
    for f in known.get('findings', []):
        for o in f.get('obligations', []):
            kf[o] = f
    kprefix = [(p, f) for f in known.get('findings', []) for p in f.get('obligation_prefixes', [])]
    ksuffix = {f['id']: f.get('obligation_suffix') for f in known.get('findings', [])}
    for r in records:
        if r['status'] == 'discharged':
            continue
        base = r['name'].split('@')[0]
        f = kf.get(r['name']) or kf.get(base)
        if f is None:
            for pf in known.get('findings', []):
                if any(re.search(rx, base) for rx in pf.get('obligation_regex', [])):
                    f = pf
                    break
        if f is not None and (prop == 'all' or prop in f.get('properties', [prop])):
            known_hits.append((f, r))
            continue
        if '(new attribute)' in r['name']:
            # a field the contracts do not know is written: whether that matters depends on who reads it, which no
            # obligation of this function decides (a bookkeeping field is harmless, a cache read by predict is not):
            # never a violation by itself; the bounded leg decides on behaviour
            undecided.append(r)
        elif r['status'] == 'refuted' or norm_name(r['name']) in base_names:
            violations.append(r)
        else:
            undecided.append(r)
    # functions out of reach after an edit: their obligations cannot be generated (UNDECIDED, never a violation)
    status = 0
    outdir = os.path.join(ROOT, 'replays')
    os.makedirs(outdir, exist_ok=True)
    for r in violations:
        path = os.path.join('replays', '%s-%s.json' % (prop, hashlib.sha1(r['name'].encode()).hexdigest()[:12]))
        from . import replay
        found = replay.attempt(eng, prop, r, os.path.join(ROOT, path), seed)
        print('VIOLATION property=%s replay=%s obligation=%s%s' % (
            prop, path, r['name'], '' if found else ' no-failing-input-found'))
        status = 1
    # ---- bounded runtime leg (stand-in for the modules out of the prover's reach; never counted as proved)
    args.bounded = []
    rt_known = []
    if prop != 'all' and not getattr(args, 'no_rt', False):
        from . import runtime
        summary, new_fail, rt_known, rt_err = runtime.bounded_leg(eng, prop, tier, seed)
        if summary:
            args.bounded.append(summary)
        for k, fl in enumerate(new_fail):
            path = os.path.join('replays', '%s-rt-%s.json' % (prop, hashlib.sha1(json.dumps(fl.get('case'), sort_keys=True,
                                                                 default=str).encode()).hexdigest()[:12]))
            with open(os.path.join(ROOT, path), 'w') as fh:
                json.dump({'property': prop, 'obligation': 'rt.%s (bounded runtime leg)' % prop, 'failing_input': fl,
                           'seed': seed, 'source_digest': eng.repo.digest,
                           'replay': 'PYTHONPATH=<tree>:/verif /venv/bin/python -m rt.replay ' + path}, fh, indent=1, default=str)
            print('VIOLATION property=%s replay=%s obligation=rt.%s[%s] %s' % (prop, path, prop, fl.get('where'),
                                                                             fl.get('what', '')[:300]))
            status = 1
            violations.append({'name': 'rt.%s' % prop, 'status': 'failing input', 'reason': fl.get('what', '')})
        if rt_err:
            print('UNDECIDED property=%s the bounded runtime leg did not complete: %s' % (prop, str(rt_err)[-400:]))
            problems = list(problems) + [('rt.' + prop, 'error', str(rt_err)[-400:], [])]
    args.rt_known_ids = sorted({f['id'] for f, _ in rt_known})
    printed = set()
    for f, fl in rt_known:
        if f['id'] in printed:
            continue
        printed.add(f['id'])
        print('KNOWN-FINDING: property=%s %s (%s: bounded runtime leg, %s)' % (prop, f['what'], f['id'], fl.get('what', '')[:200]))
    for f, r in known_hits:
        if f['id'] in printed:
            continue
        printed.add(f['id'])
        print('KNOWN-FINDING: property=%s %s (%s: obligation %s %s)' % (prop, f['what'], f['id'], r['name'], r['status']))
    for r in undecided:
        print('UNDECIDED property=%s obligation=%s (%s %s) %s' % (prop, r['name'], r['status'], r['reason'],
                                                                   ('clause: ' + r['clause'][:160]) if r['clause'] else ''))
    for p in problems:
        print('UNDECIDED property=%s function=%s out of reach: %s' % (prop, p[0], p[2]))
    for q in missing:
        print('UNDECIDED property=%s function under contract no longer exists: %s' % (prop, q))
    for target, err in crashes:
        print('CHECKER-ERROR in %s\n%s' % (target, err))
    n = len(records)
    d = sum(1 for r in records if r['status'] == 'discharged')
    args.lean = None
    if tier == 'thorough' and any(k == 'lemma' for r in records for _, k in r['axioms']):
        # the algebraic laws the lemma programs rely on are re-proved in Lean 4 / Mathlib (tools/lean_check.py)
        import subprocess
        try:
            pr = subprocess.run([sys.executable, os.path.join(ROOT, 'tools', 'lean_check.py')], capture_output=True,
                                text=True, timeout=3600)
            args.lean = json.loads(pr.stdout.strip().splitlines()[-1])
        except Exception as e:      # noqa
            args.lean = {'ok': False, 'error': repr(e)}
        if not args.lean.get('ok'):
            print('CHECKER-ERROR the Lean proofs of the algebraic laws did not check: %s' % args.lean.get('error'))
            crashes = list(crashes) + [('lean', args.lean.get('error'))]
        else:
            print('lean: %d laws re-proved in %.0fs (axioms: %s)' % (args.lean['theorems_checked'], args.lean['seconds'],
                                                                     ', '.join(args.lean['axioms_used'])))
    from . import runtime as _rt
    rt_cases = sum(b.get('cases', 0) for b in getattr(args, 'bounded', []))
    if status == 0:
        if crashes or (n == 0 and not (prop in _rt.BOUNDED_ONLY and rt_cases > 0)):
            status = 3
        elif undecided or problems or missing:
            status = 2
    write_evidence(eng, prop, tier, seed, targets, records, problems, known_hits, violations, undecided, t0, gen_s, args)
    print('%s: %d obligations, %d discharged, %d violations, %d known, %d undecided, %d functions, %.1fs' % (
        prop, n, d, len(violations), len(known_hits), len(undecided) + len(problems), len(targets), time.time() - t0))
    if getattr(args, 'verbose', False):
        for r in sorted(records, key=lambda r: -r['seconds'])[:10]:
            print('   %6.2fs %-10s %s' % (r['seconds'], r['status'], r['name']))
    return status


def write_evidence(eng, prop, tier, seed, targets, records, problems, known_hits, violations, undecided, t0, gen_s, args):
    if prop == 'all':
        return
    from . import smt
    known_names = {id(r) for _, r in known_hits}
    n = sum(1 for r in records if id(r) not in known_names)      # obligations not explained by a listed known finding
    d = sum(1 for r in records if r['status'] == 'discharged')
    kinds = {}
    backends = {}
    axioms = {}
    for r in records:
        kinds[r['kind']] = kinds.get(r['kind'], 0) + 1
        if r['status'] == 'discharged':
            backends[r['backend']] = backends.get(r['backend'], 0) + 1
        for a, k in r['axioms']:
            axioms.setdefault(k, set()).add(a)
    samples = []
    for r in records:
        if r['kind'] == 'post' and len(samples) < 3:
            samples.append({'obligation': r['name'], 'clause': r['clause'], 'status': r['status'],
                            'backend': r['backend'], 'seconds': round(r['seconds'], 3),
                            'smtlib_head': r['smt2'][-1500:]})
    trusted = trusted_base(axioms)
    from . import runtime as _rt
    bounded = getattr(args, 'bounded', [])
    bounded_only = prop in _rt.BOUNDED_ONLY
    cov = {
        'obligations': n, 'discharged': d,
        'checker_cmd': 'python3-vt -m pyvc.main %s --tier %s' % (prop, tier),
        'trusted_base': trusted,
        'functions_under_contract': sorted('%s[%s]' % (t[0], t[1]) if t[1] else t[0] for t in targets),
        'obligations_by_kind': kinds,
        'discharged_by_backend': backends,
        'solver_seconds': round(sum(r['seconds'] for r in records), 2),
        'vcgen_seconds': round(gen_s, 2),
        'source_digest': eng.repo.digest,
        'undischarged': [{'obligation': r['name'], 'status': r['status'], 'reason': r['reason']}
                         for r in records if r['status'] != 'discharged'],
        'out_of_reach': [{'function': p[0], 'why': p[2]} for p in problems],
        'known_findings': sorted({f['id'] for f, _ in known_hits} | set(getattr(args, 'rt_known_ids', []))),
        'known_finding_obligations': sorted({r['name'] for _, r in known_hits}),
        'samples': samples,
        'bounded': [{k: v for k, v in b.items() if k != 'samples'} for b in bounded],
        'solver_cross_check': getattr(args, 'cross', None) or 'thorough tier: a sample of z3-discharged obligations is re-solved by cvc5',
        'lean_laws': getattr(args, 'lean', None) or
        'laws of kind "lemma" are re-proved by the thorough tier (tools/lean_check.py, lemmas/lean/SeqLaws.lean)',
    }
    if bounded_only:
        # nothing is proved for this property: exploration-style evidence of the bounded leg; the few obligations of
        # shared functions that carry this property's tag are reported but do not make it a proof
        cov['evaluations'] = sum(b.get('cases', 0) for b in bounded)
        cov['distinct_nontrivial'] = sum(b.get('distinct_cases', 0) for b in bounded)
        cov['rule'] = ('cases are enumerated by rt/props.py check_%s: one case = one policy combination with one call '
                       'history and its queries; distinct = distinct JSON of the case; every case drives the real API and '
                       'compares against the reference semantics, so every case is non-trivial' % prop)
        cov['samples'] = [s for b in bounded for s in b.get('samples', [])][:3] or samples
        cov['exhaustive'] = False
    ev = {
        'property_id': prop, 'tier': tier, 'seed': seed, 'level': 'exploration' if bounded_only else 'proof',
        'coverage': cov,
        'assumptions': assumptions(),
        'wall_s': round(time.time() - t0, 2),
        'violations': len(violations),
    }
    os.makedirs(os.path.join(ROOT, 'evidence'), exist_ok=True)
    with open(os.path.join(ROOT, 'evidence', prop + '.json'), 'w') as f:
        json.dump(ev, f, indent=1, default=str)


def trusted_base(axioms):
    from . import spec as specmod
    out = ['PyVC symbolic semantics of the Python subset (pyvc/engine.py, loops.py, contracts.py)',
           'z3 5.1.0 (python3-vt), /usr/bin/cvc5 1.0.3 for queries z3 leaves open',
           'sidecar contracts in /verif/specs transcribe the property statements']
    for (q, c), sp in sorted(specmod.FUNCS.items(), key=lambda kv: (kv[0][0], kv[0][1] or '')):
        if sp.trusted:
            out.append('ASSUMED contract (body not verified, callers rely on it): %s%s - %s'
                       % (q, '[%s]' % c if c else '', sp.note or 'trusted'))
    for kind in sorted(axioms):
        if kind == 'lemma':
            out.append('algebraic laws used as SMT axioms and proved in Lean 4 / Mathlib over the list model '
                       '(lemmas/lean/SeqLaws.lean; the naming correspondence z3 symbol <-> Lean definition is trusted): '
                       + ', '.join(sorted(axioms[kind])))
            continue
        out.append('%s axioms used: %s' % (kind, ', '.join(sorted(axioms[kind]))))
    return out


def assumptions():
    return ['A1 floats are mathematical reals (no rounding, overflow, inf; NaN is a distinguished constant)',
            'A2 integers are mathematical',
            'A3 linear-algebra identities of numpy.linalg / numpy.dot',
            'A4 NumPy / SciPy contracts as encoded in pyvc/lib*.py (mask indexing, where, unique, argmax, cumsum, cdist, ...)',
            'A5 scikit-learn estimators are deterministic functions of (input, random_state)',
            'A6 CPython contracts: dict insertion order, max/min return the first extremum, copy.deepcopy',
            'A7 joblib runs each task exactly once and returns results in task order; dict item writes are atomic',
            'A8 arm lists are type-homogeneous', 'A10 termination is not proved']
