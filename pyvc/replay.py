"""Replay of refuted / unproved obligations against the real code (DESIGN.md section 6)."""
import json
import os


def attempt(eng, prop, record, path, seed):
    """Try to turn the failed obligation into a concrete failing input on the real code.  Returns True when a
    failing input was found and written to `path`; otherwise the file names the obligation and carries the solver
    output (the VIOLATION line then ends with no-failing-input-found)."""
    found = None
    try:
        from . import runtime
        found = runtime.replay_obligation(eng, prop, record, seed)
    except Exception as e:      # the replay harness must never turn a violation into a crash
        found = None
        err = repr(e)
    else:
        err = None
    doc = {
        'property': prop,
        'obligation': record['name'],
        'function': record['func'],
        'kind': record['kind'],
        'clause': record.get('clause', ''),
        'solver': {'result': record['result'], 'status': record['status'], 'reason': record['reason'],
                   'backend': record['backend'], 'seconds': record['seconds']},
        'model': (record.get('model') or '')[:20000],
        'failing_input': found,
        'replay_error': err,
        'source_digest': eng.repo.digest,
    }
    with open(path, 'w') as f:
        json.dump(doc, f, indent=1, default=str)
    return found is not None
