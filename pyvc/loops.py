"""Loops, comprehensions, the joblib parallel-map idiom and try/except (DESIGN.md 2.4).

A loop over a symbolic sequence is summarised by executing its body once for a symbolic iteration index `ik`:
  * map / list entries written only at the iteration's own key become a lambda over all iterations
    (map-loop rule; needs distinct keys; other iterations' entries are unknown while the body runs);
  * every other location written in the body is *carried*: it is named by a fresh sequence it_L with
    it_L(0) = value before the loop and it_L(i+1) = value after iteration i, and it_L(n) afterwards.
    An explicit invariant from the spec file (proved by init/preserve obligations) says more about it_L.
Fresh symbols created inside the body (havocs at call sites, library results) become functions of the index.
"""
import ast
import z3
from . import smt
from .smt import fresh, fresh_fn, F, Arm, ASeq, RSeq, ISeq, BSeq, Mat, Int, Real, Bool
from .values import *    # noqa
from . import theory as T
from .engine import ContinueSignal, BreakSignal, ReturnSignal, to_bool_term, Frame
from .lib import (seq_len, intterm, real, box, unbox, ekind_of, PV, mrows, mcols, iat, ilen)


from .smt import bound


class Domain:
    def __init__(self, n=None, elem=None, items=None, arm_seq=None, desc=''):
        self.n = n              # z3 Int (symbolic length) or None when concrete
        self.elem = elem        # function: index term -> Val
        self.items = items      # concrete list of Vals
        self.arm_seq = arm_seq  # ASeq term when the iteration variable (or its first component) is that sequence's element
        self.desc = desc
        self.canon = None       # the iterated sequence itself as a SeqV (identity comprehensions)


def domain_of(run, v):
    """Iteration domain of a value."""
    lib = run.eng.lib
    if isinstance(v, TupleV):
        return Domain(items=v.items)
    if isinstance(v, SeqV):
        n = seq_len(v)
        if v.kind == 'A':
            d = Domain(n, lambda i: ArmV(T.aat(v.term, i)), arm_seq=v.term)
            d.canon = SeqV('A', v.term, True)
            return d
        if v.kind == 'R':
            d = Domain(n, lambda i: Num(T.rat(v.term, i)))
            d.canon = SeqV('R', v.term, True)
            return d
        if v.kind == 'I':
            return Domain(n, lambda i: Num(iat(v.term, i)))
        if v.kind == 'B':
            return Domain(n, lambda i: BoolV(T.bat(v.term, i)))
    if isinstance(v, MatV):
        from .libcalls import mk_mrow
        return Domain(mrows(v.term), lambda i: SeqV('R', mk_mrow(v.term, i)))
    if isinstance(v, Ref):
        o = run.deref(v)
        if isinstance(o, ListO):
            return Domain(items=o.items)
        if isinstance(o, SeqO):
            return domain_of(run, SeqV(o.skind, o.term, True))
        if isinstance(o, MapO):
            return Domain(T.alen(o.keys), lambda i: ArmV(T.aat(o.keys, i)), arm_seq=o.keys)
        if isinstance(o, SymListO):
            return Domain(o.length, lambda i: unbox(run, o.elems[i], o.ekind))
        if isinstance(o, NestedListO):
            d = Domain(o.n, lambda i: run.st.alloc(SymListO(o.lens[i], o.elems[i], o.ekind)))
            d.canon = v
            return d
    if isinstance(v, Lazy):
        if v.kind == 'range':
            lo, hi = v.payload
            clo, chi = z3.simplify(lo), z3.simplify(hi)
            if z3.is_int_value(clo) and z3.is_int_value(chi) and chi.as_long() - clo.as_long() <= 6:
                return Domain(items=[Num(k) for k in range(clo.as_long(), chi.as_long())])
            n = z3.If(hi - lo >= 0, hi - lo, z3.IntVal(0))
            d = Domain(z3.simplify(n), lambda i: Num(lo + i))
            d.range_lo = lo
            return d
        if v.kind == 'enumerate':
            d = domain_of(run, v.payload)
            if d.items is not None:
                return Domain(items=[TupleV([Num(k), x]) for k, x in enumerate(d.items)])
            return Domain(d.n, lambda i: TupleV([Num(i), d.elem(i)]))
        if v.kind == 'zip':
            ds = [domain_of(run, x) for x in v.payload]
            if all(d.items is not None for d in ds):
                return Domain(items=[TupleV(list(t)) for t in zip(*[d.items for d in ds])])
            if any(d.items is not None for d in ds):
                raise Unsupported('zip of concrete and symbolic sequences')
            n = ds[0].n
            if not run.spec_mode:
                for d in ds[1:]:
                    # zip truncates silently; the code under verification always zips equal lengths
                    run.emit('safe.zip', d.n == n, 'zip of sequences of equal length')
                    run.st.assume(d.n == n)
            return Domain(n, lambda i: TupleV([d.elem(i) for d in ds]), arm_seq=ds[0].arm_seq)
        if v.kind == 'dictview':
            what, ref = v.payload
            o = run.deref(ref)
            n = T.alen(o.keys)
            if what == 'keys':
                return Domain(n, lambda i: ArmV(T.aat(o.keys, i)), arm_seq=o.keys)
            if what == 'values':
                d = Domain(n, lambda i: _entry_val(run, ref, T.aat(run.deref(ref).keys, i)), desc='values')
                if o.is_scalar and o.vkinds[''] == 'real':
                    from .specfns import mvals
                    d.canon = SeqV('R', mvals(o.keys, o.cols['']), True)
                return d
            if what == 'items':
                return Domain(n, lambda i: TupleV([ArmV(T.aat(run.deref(ref).keys, i)),
                                                   _entry_val(run, ref, T.aat(run.deref(ref).keys, i))]),
                              arm_seq=o.keys)
    if isinstance(v, Lazy) and v.kind in ('imap.items', 'imap.values'):
        ref = v.payload
        n = run.deref(ref).n
        if v.kind == 'imap.items':
            d = Domain(n, lambda i: TupleV([Num(i), MatV(run.deref(ref).vals[i])]))
        else:
            d = Domain(n, lambda i: MatV(run.deref(ref).vals[i]))
        d.range_lo = z3.IntVal(0)
        return d
    if isinstance(v, Lazy) and v.kind == 'setof':
        sv = lib.as_seq(run, v.payload) if v.payload is not None else None
        if sv is not None and sv.kind == 'A':
            # the iteration order of a set of labels follows their hashes: for strings it changes with PYTHONHASHSEED,
            # i.e. between processes (C04, C19), and it is not invariant under renaming (C20)
            raise Unsupported('hash-order: iteration over a set of arm labels')
    raise Unsupported('iteration over %r' % (v,))


def _entry_val(run, ref, key):
    m = run.deref(ref)
    if m.is_scalar:
        return wrap(m.vkinds[''], m.cols[''][key])
    if set(m.cols) == {'#keys', '#vals'}:
        return run.st.alloc(MapO(m.cols['#keys'][key], {'': m.cols['#vals'][key]}, {'': 'real'}))
    return EntryRef(ref.loc, key)


# ------------------------------------------------------------------------------------------------ for
def exec_for(run, s):
    if s.orelse:
        raise Unsupported('for-else')
    dom = domain_of(run, run.ev(s.iter))
    if dom.items is not None:
        for v in dom.items:
            run.assign(s.target, v)
            try:
                run.exec_block(s.body)
            except ContinueSignal:
                continue
            except BreakSignal:
                break
        return

    def body(elem):
        run.assign(s.target, elem)
        try:
            run.exec_block(s.body)
        except ContinueSignal:
            pass
        return None
    summarise(run, dom, body, where='line %d' % s.lineno, target=s.target.id if isinstance(s.target, ast.Name) else
              tuple(e.id for e in s.target.elts) if isinstance(s.target, ast.Tuple) and all(isinstance(e, ast.Name) for e in s.target.elts) else None)


def _written_delta(st0, st1):
    """Heap locations existing in st0 whose object changed, and env names whose binding changed."""
    locs = [loc for loc, o in st0.heap.items() if st1.heap.get(loc) is not o]
    return locs


def summarise(run, dom, body, where='', collect=False, parallel=None, target=None):
    """Summarise `for ik in range(dom.n): body(dom.elem(ik))`.  With collect=True the values returned by body
    are gathered into a list (comprehensions, Parallel).  Returns the list value or None."""
    st0 = run.st
    env0 = dict(run.env)
    ik = fresh('ik', Int)
    log_start = len(smt.FRESH_LOG)
    n = dom.n
    in_range = [ik >= 0, ik < n]

    # ---- pass 1 (dry run): which locations does the body write?
    saved_obligs = list(run.obligs)
    saved_prune = run.eng.prune
    probe = st0.clone()
    for f in in_range:
        probe.assume(f)
    try:
        ends = run.explore(probe, lambda: body(dom.elem(ik)))
    finally:
        del run.obligs[:]
        run.obligs.extend(saved_obligs)
    all_ends = ends
    ends = [e for e in ends if e[0] == 'ok'] or ends      # classification looks at iterations that complete
    heap_written = set()
    env_written = set()
    indexed_cols = {}       # (loc, col) -> True when every write is at the iteration's own key
    keyterm = None
    if dom.arm_seq is not None:
        keyterm = T.aat(dom.arm_seq, ik)
    for kind, payload, st1, pctx, env1 in ends:
        for loc in _written_delta(st0, st1):
            heap_written.add(loc)
        for nm, v in env1.items():
            if nm in env0 and env0[nm] is not v:
                env_written.add(nm)
    # an empty list literal that the body appends to: give it the element kind the body uses, then start over
    retyped = False
    for loc in list(heap_written):
        o0 = st0.heap[loc]
        if isinstance(o0, ListO) and not o0.items:
            for kind, payload, st1, pctx, env1 in ends:
                o1 = st1.heap[loc]
                if isinstance(o1, SeqO):
                    st0.heap[loc] = SeqO(o1.skind, {'R': T.rempty, 'A': T.aempty, 'I': F('iempty', ISeq)()}[o1.skind])
                    retyped = True
                    break
                if isinstance(o1, SymListO):
                    st0.heap[loc] = SymListO(z3.IntVal(0), z3.K(Int, PV.pv_none), o1.ekind)
                    retyped = True
                    break
    # a dictionary of (still empty) records that the body fills: give it the record's columns, then start over
    for loc in list(heap_written):
        o0 = st0.heap[loc]
        if isinstance(o0, MapO) and not o0.cols and not z3.eq(o0.keys, T.aempty):
            for kind, payload, st1, pctx, env1 in ends:
                o1 = st1.heap[loc]
                if isinstance(o1, MapO) and o1.cols and all(c and not c.startswith('#') for c in o1.cols):
                    st0.heap[loc] = MapO(o0.keys, {c: fresh('col_' + c, arr.sort()) for c, arr in o1.cols.items()},
                                         dict(o1.vkinds), o1.record_cls)
                    retyped = True
                    break
    # the same for a name bound to an empty list that the body rebinds to a sequence (`xs = list(); xs += ys`)
    for nm in sorted(env_written):
        v0 = env0[nm]
        if isinstance(v0, Ref) and isinstance(st0.heap.get(v0.loc), ListO) and not st0.heap[v0.loc].items:
            for kind, payload, st1, pctx, env1 in ends:
                v1 = env1.get(nm)
                if isinstance(v1, SeqV) and v1.kind in ('R', 'A', 'I'):
                    empty = {'R': T.rempty, 'A': T.aempty, 'I': F('iempty', ISeq)()}[v1.kind]
                    run.env[nm] = SeqV(v1.kind, empty, True)
                    retyped = True
                    break
    if retyped:
        return summarise(run, dom, body, where=where, collect=collect, parallel=parallel, target=target)
    # classify map columns / symbolic lists
    indexed = {}        # loc -> set(cols)  (maps), or loc -> 'list'
    built = set()       # maps that start empty and receive exactly the iterated keys
    carried_locs = set()
    for loc in heap_written:
        o0 = st0.heap[loc]
        ok = False
        if isinstance(o0, MapO) and keyterm is not None and not o0.cols and z3.eq(o0.keys, T.aempty):
            # a dict built by inserting the iterated keys one by one, in order
            # every iteration either inserts its own key or leaves the dict alone
            ins = [z3.eq(z3.simplify(st1.heap[loc].keys), z3.simplify(T.aappend(T.aempty, keyterm)))
                   for _, _, st1, _, _ in ends]
            same = [st1.heap[loc] is o0 or (not st1.heap[loc].cols and z3.eq(st1.heap[loc].keys, T.aempty))
                    for _, _, st1, _, _ in ends]
            ok = all(isinstance(st1.heap[loc], MapO) for _, _, st1, _, _ in ends) and \
                all(a or b for a, b in zip(ins, same))
            cs = [tuple(sorted(st1.heap[loc].cols)) for (_, _, st1, _, _), a in zip(ends, ins) if a]
            if ok and len(set(cs)) == 1:
                indexed[loc] = set(cs[0])
                built.add(loc)
            else:
                ok = False
        elif isinstance(o0, MapO) and keyterm is not None:
            ok = True
            cols = set()
            for kind, payload, st1, pctx, env1 in ends:
                o1 = st1.heap[loc]
                if not isinstance(o1, MapO) or not z3.eq(z3.simplify(o1.keys), z3.simplify(o0.keys)) \
                        or set(o1.cols) != set(o0.cols):
                    ok = False
                    break
                for c in o0.cols:
                    if z3.eq(o1.cols[c], o0.cols[c]):
                        continue
                    if _stores_only_at(o1.cols[c], o0.cols[c], keyterm):
                        cols.add(c)
                    else:
                        ok = False
            if ok:
                indexed[loc] = cols
        elif isinstance(o0, SymListO):
            ok = True
            for kind, payload, st1, pctx, env1 in ends:
                o1 = st1.heap[loc]
                if not isinstance(o1, SymListO) or not z3.eq(o1.length, o0.length) \
                        or not (z3.eq(o1.elems, o0.elems) or _stores_only_at(o1.elems, o0.elems, ik)):
                    ok = False
            if ok:
                indexed[loc] = 'list'
        if not ok:
            carried_locs.add(loc)
    if parallel is not None:
        # joblib parallel-map rule (DESIGN 2.4): tasks may only write entries keyed by their own item
        shared = parallel == 'sharedmem'
        bad = sorted(carried_locs) + sorted(env_written)
        if bad or (not shared and indexed):
            names = [run.eng.locname(run, l) if isinstance(l, int) else l for l in bad] + \
                    ([run.eng.locname(run, l) for l in indexed] if not shared else [])
            run.emit('par.disjoint' if shared else 'par.pure', z3.BoolVal(False), ','.join(map(str, names)))
        else:
            run.emit('par.disjoint' if shared else 'par.pure', z3.BoolVal(True), 'tasks write only their own entries'
                     if shared else 'tasks write nothing outside themselves')

    # ---- pass 2: iteration-start state
    sti = st0.clone()
    for f in in_range:
        sti.assume(f, 'A')
    its = {}            # key -> (it function, initial term, rebuild)
    if indexed and dom.arm_seq is not None:
        g = T.adistinct(dom.arm_seq)
        run.emit('loop.distinct', g, where)
        run.st.assume(g)
        sti.assume(g)
    a_ = bound('a', Arm)
    for loc, cols in indexed.items():
        o0 = st0.heap[loc]
        if cols == 'list':
            mixed = fresh('other_iters', o0.elems.sort())
            j = bound('j', Int)
            sti.heap[loc] = SymListO(o0.length, z3.Lambda([j], z3.If(j == ik, o0.elems[j], mixed[j])), o0.ekind)
            continue
        nm = o0
        if loc in built:
            continue
        for c in cols:
            mixed = fresh('other_iters', o0.cols[c].sort())
            arr = z3.Lambda([a_], z3.If(z3.Or(a_ == keyterm, z3.Not(T.amem(dom.arm_seq, a_))), o0.cols[c][a_], mixed[a_]))
            nm = nm.with_col(c, arr)
        sti.heap[loc] = nm
    carried = []        # (getter/setter descriptor, it function, init term)
    for loc in sorted(carried_locs):
        o0 = st0.heap[loc]
        if isinstance(o0, Obj):
            no = o0
            for f, v in o0.fields.items():
                changed = any(st1.heap[loc].fields.get(f) is not v for _, _, st1, _, _ in ends)
                if not changed:
                    continue
                if hasattr(v, 'term'):
                    itf = fresh_fn('it_' + f, Int, v.term.sort())
                    carried.append((('field', loc, f, v), itf, v.term))
                    no = no.set(f, _with_term(v, itf(ik)))
                elif isinstance(v, Ref) or isinstance(v, NoneV):
                    carried.append((('reffield', loc, f, v), None, None))
                    no = no.set(f, run.eng.havoc_field_value(run, sti, o0.cls, f))
                else:
                    raise Unsupported('loop-carried field %s of kind %s' % (f, type(v).__name__))
            sti.heap[loc] = no
        elif isinstance(o0, MapO):
            itk = fresh_fn('it_keys', Int, ASeq)
            carried.append((('mapkeys', loc), itk, o0.keys))
            nm = MapO(itk(ik), {}, o0.vkinds, o0.record_cls)
            for c, arr in o0.cols.items():
                itc = fresh_fn('it_' + (c or 'vals'), Int, arr.sort())
                carried.append((('mapcol', loc, c), itc, arr))
                nm.cols[c] = itc(ik)
            sti.heap[loc] = nm
        elif isinstance(o0, SeqO):
            itf = fresh_fn('it_seq', Int, o0.term.sort())
            carried.append((('seqo', loc), itf, o0.term))
            sti.heap[loc] = SeqO(o0.skind, itf(ik))
        elif isinstance(o0, SymListO):
            itl = fresh_fn('it_len', Int, Int)
            ite_ = fresh_fn('it_elems', Int, o0.elems.sort())
            carried.append((('symlist.len', loc), itl, o0.length))
            carried.append((('symlist.elems', loc), ite_, o0.elems))
            sti.heap[loc] = SymListO(itl(ik), ite_(ik), o0.ekind)
        else:
            raise Unsupported('loop-carried heap object %s' % type(o0).__name__)
    envi = dict(env0)
    for nm in sorted(env_written):
        v = env0[nm]
        if hasattr(v, 'term'):
            itf = fresh_fn('it_' + nm, Int, v.term.sort())
            carried.append((('env', nm, v), itf, v.term))
            envi[nm] = _with_term(v, itf(ik))
        elif isinstance(v, Ref) and isinstance(st0.heap[v.loc], (MapO, SeqO, SymListO, Obj)):
            # rebinding a name to a different object every iteration: treat the new object as carried content
            raise Unsupported('loop rebinds %s to a new object each iteration' % nm)
        else:
            raise Unsupported('loop-carried variable %s of kind %s' % (nm, type(v).__name__))

    # explicit invariant (spec file), about carried locations
    inv = run.eng.loop_invariant(run, where)
    saved_env = run.frames[-1].env
    run.frames[-1].env = envi
    try:
        base = len(sti.pc)      # facts assumed from here on are per-iteration facts (generalised over the index)
        def at_index(env_, idx):
            # an invariant may mention the loop variable: it holds *before* the iteration with that index
            if target is None:
                return env_
            e2 = dict(env_)
            if isinstance(target, tuple):       # for k, v in d.items(): bind the components
                el = dom.elem(idx)
                items = getattr(el, 'items', None)
                if not isinstance(items, (list, tuple)) or len(items) != len(target):
                    return env_
                for nm_, it_ in zip(target, items):
                    e2[nm_] = it_
                return e2
            e2[target] = dom.elem(idx)
            return e2
        if inv is not None:
            inv.init(run, st0, at_index(env0, z3.IntVal(0)))
            inv.assume_at(run, sti, at_index(envi, ik))
        ends = run.explore(sti, lambda: body(dom.elem(ik)))
        if inv is not None:
            for kind_, payload_, st1_, pctx_, env1_ in ends:
                if kind_ == 'ok':
                    inv.preserve(run, st1_, at_index(env1_, ik + 1))
    finally:
        run.frames[-1].env = saved_env
    log_end = len(smt.FRESH_LOG)

    # ---- generalise the iteration
    i_ = bound('i', Int)
    body_consts = [c for c in smt.FRESH_LOG[log_start:log_end]]
    body_by_name = {c.decl().name(): c for c in body_consts}
    gen_fns = {}        # name -> (const, function of the iteration index), created on demand

    def subs_for(t):
        pairs = [(ik, i_)]
        for nm in smt._symbols(t):
            c = body_by_name.get(nm)
            if c is None:
                continue
            if nm not in gen_fns:
                gen_fns[nm] = (c, fresh_fn(nm, Int, c.sort())(i_))
            pairs.append(gen_fns[nm])
        return pairs

    def gen(t, at=None, key=None):
        """t with the iteration index generalised; at: index term to read it at; key: when reading at the
        iteration of arm `key`, the iterated element is that arm itself."""
        if key is not None and keyterm is not None:
            t = z3.substitute(t, (keyterm, key))
        r = z3.substitute(t, *subs_for(t))
        if at is not None:
            r = z3.substitute(r, (i_, at))
        return r

    # lifted lambdas created inside the body: their definitions, generalised over the iteration
    lifted_defs = []
    for nm_, (vs, bd) in list(smt.DEFS.items()):
        c = body_by_name.get(nm_)
        if c is not None and len(vs) == 1:
            sel = gen(c)[vs[0]]
            lifted_defs.append(z3.ForAll([i_] + vs, sel == gen(bd), patterns=[sel]))
    normal = [e for e in ends if e[0] == 'ok']
    raising = [e for e in ends if e[0] == 'raise']
    rng = z3.And(i_ >= 0, i_ < n)
    guards = []
    for kind, payload, st1, pctx, env1 in ends:
        B = [f for f, k in zip(st1.pc[base:], st1.pck[base:]) if k == 'B']
        A = [f for f, k in zip(st1.pc[base:], st1.pck[base:]) if k == 'A']
        guards.append((z3.And(*B) if B else z3.BoolVal(True), z3.And(*A) if A else z3.BoolVal(True)))
    if not normal:
        if raising:
            for (kind, payload, st1, pctx, env1), (B, A) in zip(ends, guards):
                if kind == 'raise':
                    exc = st0.clone()
                    exc.assume(n > 0)
                    exc.assume(gen(z3.And(B, A), z3.IntVal(0)))
                    run.eng.loop_raise(run, payload, exc, B, A, where)
        raise Infeasible()

    nguards = [g for e, g in zip(ends, guards) if e[0] == 'ok']
    pre_loop = st0.clone() if raising else None

    def merged(getter):
        """ite-merge over the normal paths of a term extracted from each end state."""
        terms = [getter(st1, env1) for (_, _, st1, _, env1) in normal]
        r = terms[-1]
        for (B, _), t in zip(reversed(nguards[:-1]), reversed(terms[:-1])):
            r = z3.If(B, t, r)
        return r

    def carried_getter(desc):
        if desc[0] == 'field':
            return lambda st1, env1, loc=desc[1], f=desc[2]: st1.heap[loc].fields[f].term
        if desc[0] == 'mapkeys':
            return lambda st1, env1, loc=desc[1]: st1.heap[loc].keys
        if desc[0] == 'mapcol':
            return lambda st1, env1, loc=desc[1], c=desc[2]: st1.heap[loc].cols[c]
        if desc[0] == 'seqo':
            return lambda st1, env1, loc=desc[1]: st1.heap[loc].term
        if desc[0] == 'symlist.len':
            return lambda st1, env1, loc=desc[1]: st1.heap[loc].length
        if desc[0] == 'symlist.elems':
            return lambda st1, env1, loc=desc[1]: st1.heap[loc].elems
        if desc[0] == 'env':
            return lambda st1, env1, nm=desc[1]: env1[nm].term

    def build(post, upto, partial):
        """State after iterations [0, upto) completed normally and, with partial=(end, guard), the part of iteration
        `upto` that ran before it raised."""
        full = partial is None
        rng = z3.And(i_ >= 0, i_ < upto)
        for d in lifted_defs:
            post.assume(d)
        if len(nguards) > 1 or raising:
            post.assume(z3.ForAll([i_], z3.Implies(rng, z3.Or(*[gen(B) for B, _ in nguards]))))
        for B, A in nguards:
            if not z3.is_true(A):
                post.assume(z3.ForAll([i_], z3.Implies(z3.And(rng, gen(B)), gen(A))))
        if not full:
            (pk, ppayload, pst, ppctx, penv), (pB, pA) = partial
            post.assume(gen(z3.And(pB, pA), upto))

        # indexed maps / lists
        for loc, cols in indexed.items():
            o0 = st0_heap[loc]
            if cols == 'list':
                v = merged(lambda st1, env1: st1.heap[loc].elems[ik])
                j = bound('j', Int)
                ek = o0.ekind
                for (_, _, st1, _, _) in normal:
                    if st1.heap[loc].ekind not in (None, 'none'):
                        ek = st1.heap[loc].ekind
                inner = o0.elems[j]
                if not full:
                    inner = z3.If(j == upto, gen(pst.heap[loc].elems[ik], upto), inner)
                post.heap[loc] = SymListO(o0.length, z3.Lambda([j], z3.If(z3.And(j >= 0, j < upto), gen(v, j), inner)), ek)
                post.written.add((loc, '*'))
                continue
            nm = o0
            if loc in built:
                if not full:
                    continue        # a dict under construction when the loop was left: not described (over-approximated)
                inserting = [(k, e) for k, e in enumerate(normal) if e[2].heap[loc].cols]
                if not inserting:
                    continue
                o1 = inserting[0][1][2].heap[loc]
                if len(inserting) == len(normal):
                    newkeys = dom.arm_seq
                else:
                    # keys: the iterated arms whose iteration inserted, in order (sub-sequence)
                    newkeys = fresh('inserted', ASeq)
                    Bins = z3.Or(*[nguards[k][0] for k, _ in inserting])
                    b_ = bound('b', Arm)
                    sq = dom.arm_seq
                    post.assume(z3.ForAll([a_], T.amem(newkeys, a_) == z3.And(T.amem(sq, a_), gen(Bins, T.apos(sq, a_), a_)),
                                          patterns=[T.amem(newkeys, a_), T.amem(sq, a_)]))
                    post.assume(T.adistinct(newkeys))
                    post.assume(T.alen(newkeys) <= T.alen(sq))
                    post.assume(z3.ForAll([a_, b_], z3.Implies(z3.And(T.amem(newkeys, a_), T.amem(newkeys, b_)),
                                                               (T.apos(newkeys, a_) < T.apos(newkeys, b_)) ==
                                                               (T.apos(sq, a_) < T.apos(sq, b_))),
                                          patterns=[z3.MultiPattern(T.apos(newkeys, a_), T.apos(newkeys, b_))]))
                nm = MapO(newkeys, {}, o1.vkinds, o1.record_cls)
                for c in cols:
                    terms = [(st1.heap[loc].cols[c][keyterm] if st1.heap[loc].cols else None) for (_, _, st1, _, _) in normal]
                    dflt = [t for t in terms if t is not None][0]
                    terms = [t if t is not None else dflt for t in terms]
                    v = terms[-1]
                    for (B, _), t in zip(reversed(nguards[:-1]), reversed(terms[:-1])):
                        v = z3.If(B, t, v)
                    nm.cols[c] = z3.Lambda([a_], gen(v, T.apos(dom.arm_seq, a_), a_))
                post.heap[loc] = nm
                post.written.add((loc, '*'))
                continue
            for c in cols:
                v = merged(lambda st1, env1: st1.heap[loc].cols[c][keyterm])
                done = T.amem(dom.arm_seq, a_)
                inner = o0.cols[c][a_]
                if not full:
                    done = z3.And(done, T.apos(dom.arm_seq, a_) < upto)
                    inner = z3.If(a_ == T.aat(dom.arm_seq, upto), gen(pst.heap[loc].cols[c][keyterm], upto), inner)
                arr = z3.Lambda([a_], z3.If(done, gen(v, T.apos(dom.arm_seq, a_), a_), inner))
                nm = nm.with_col(c, arr)
            post.heap[loc] = nm
            post.written.add((loc, 'vals'))
        # carried locations
        for desc, itf, init in carried:
            if itf is None:
                _, loc, f, v = desc
                o = post.heap[loc]
                post.heap[loc] = o.set(f, run.eng.havoc_field_value(run, post, o.cls, f))
                post.written.add((loc, f))
                continue
            post.assume(itf(0) == init)
            get = carried_getter(desc)
            v = merged(get)
            post.assume(z3.ForAll([i_], z3.Implies(rng, itf(i_ + 1) == gen(v)), patterns=[itf(i_ + 1)]))
            ccf = _cond_closed_form(v, itf, ik, body_consts)
            if ccf is not None:
                # conditional update: it(i+1) = g(it(i), args(i)) if c(i) else it(i)
                cnd, g, others = ccf
                jj = bound('jit', Int)
                arrs = [z3.Lambda([jj], z3.substitute(o, (ik, jj))) for o in [cnd] + others]
                it_g = smt.iterx_fn('iterx_if_' + g.name(), init.sort(), [a.sort() for a in arrs])
                post.assume(z3.ForAll([i_], z3.Implies(i_ >= 0, itf(i_) == it_g(init, i_, *arrs)), patterns=[itf(i_)]))
                run.note('rule:iterated-conditional-function ' + g.name())
            cf = _closed_form(v, itf, ik, body_consts)
            if cf is not None:
                # iteration of a function g with per-index arguments: it(i) = iterx_g(init, i, [lambda j. arg_k(j)]...)
                # where iterx_g(s,0,..) = s and iterx_g(s,i+1,A..) = g(iterx_g(s,i,A..), A1[i], ..)   (rule: induction on i)
                g, others = cf
                jj = bound('jit', Int)
                arrs = [z3.Lambda([jj], z3.substitute(o, (ik, jj))) for o in others]
                it_g = smt.iterx_fn('iterx_' + g.name(), init.sort(), [a.sort() for a in arrs])
                post.assume(z3.ForAll([i_], z3.Implies(i_ >= 0, itf(i_) == it_g(init, i_, *arrs)), patterns=[itf(i_)]))
                run.note('rule:iterated-function ' + g.name())
            final = itf(upto) if full else gen(get(pst, penv), upto)
            if desc[0] == 'field':
                _, loc, f, v0 = desc
                post.heap[loc] = post.heap[loc].set(f, _with_term(v0, final))
                post.written.add((loc, f))
            elif desc[0] == 'mapkeys':
                post.heap[desc[1]] = post.heap[desc[1]].with_keys(final)
                post.written.add((desc[1], '*'))
            elif desc[0] == 'mapcol':
                post.heap[desc[1]] = post.heap[desc[1]].with_col(desc[2], final)
                post.written.add((desc[1], 'vals'))
            elif desc[0] == 'seqo':
                post.heap[desc[1]] = SeqO(post.heap[desc[1]].skind, final)
                post.written.add((desc[1], '*'))
            elif desc[0] == 'symlist.len':
                o = post.heap[desc[1]]
                post.heap[desc[1]] = SymListO(final, o.elems, o.ekind)
                post.written.add((desc[1], '*'))
            elif desc[0] == 'symlist.elems':
                o = post.heap[desc[1]]
                post.heap[desc[1]] = SymListO(o.length, final, o.ekind)
            elif desc[0] == 'env' and full:
                run.env[desc[1]] = _with_term(desc[2], final)

    st0_heap = dict(st0.heap)
    build(run.st, n, None)        # continue in the pre-loop state object (it is ours)
    if inv is not None:
        inv.assume_at(run, run.st, at_index(run.frames[-1].env, n))
    # a raise in iteration k: the function is left from the state after k complete iterations plus the partial one
    for e, g in zip(ends, guards):
        if e[0] == 'raise':
            kr = fresh('kraise', Int)
            exc = pre_loop.clone()
            exc.assume(z3.And(kr >= 0, kr < n))
            build(exc, kr, (e, g))
            run.eng.loop_raise(run, e[1], exc, g[0], g[1], where)
    # objects allocated inside the body do not survive (they are per-iteration locals)
    if collect:
        return _collect(run, dom, normal, nguards, gen, ik, n, merged)
    return None


class IdxVals:
    """Per-iteration values of a summarised loop: at(j) is the Val produced by iteration j."""

    def __init__(self, run, n, normal, nguards, gen):
        self.run, self.n, self.normal, self.nguards, self.gen = run, n, normal, nguards, gen

    def at(self, j):
        vals = [(p, st1) for (_, p, st1, _, _) in self.normal]
        return self._merge(vals, j)

    def _mt(self, terms, j):
        t = terms[-1]
        for (B, _), x in zip(reversed(self.nguards[:-1]), reversed(terms[:-1])):
            t = z3.If(B, x, t)
        return self.gen(t, j)

    def _merge(self, vals, j):
        run = self.run
        vs = [v for v, _ in vals]
        v0 = vs[0]
        if all(isinstance(v, NoneV) for v in vs):
            return NONE
        if all(isinstance(v, Num) for v in vs):
            if all(v.is_int for v in vs):
                return Num(self._mt([v.term for v in vs], j))
            return Num(self._mt([v.real() for v in vs], j))
        if all(isinstance(v, (BoolV, ArmV, OptArmV, MatV, OpaqueV)) and type(v) is type(v0) for v in vs):
            return _with_term(v0, self._mt([v.term for v in vs], j))
        if all(isinstance(v, SeqV) and v.kind == v0.kind for v in vs):
            return _with_term(v0, self._mt([v.term for v in vs], j))
        if all(isinstance(v, (NoneV, ArmV, OptArmV)) for v in vs):
            lib = run.eng.lib
            return OptArmV(self._mt([lib.col_term(run, 'optarm', v) for v in vs], j))
        if all(isinstance(v, RecordV) and set(v.fields) == set(v0.fields) for v in vs):
            return RecordV({f: self._merge([(v.fields[f], st) for v, st in vals], j) for f in v0.fields})
        if all(isinstance(v, TupleV) and len(v.items) == len(v0.items) for v in vs):
            return TupleV([self._merge([(v.items[k], st) for v, st in vals], j) for k in range(len(v0.items))])
        if all(isinstance(v, Ref) for v in vs):
            objs = [st.heap[v.loc] for v, st in vals]
            o0 = objs[0]
            if all(isinstance(o, MapO) and set(o.cols) == set(o0.cols) for o in objs):
                m = MapO(self._mt([o.keys for o in objs], j), {}, o0.vkinds, o0.record_cls)
                for c in o0.cols:
                    m.cols[c] = self._mt([o.cols[c] for o in objs], j)
                return run.st.alloc(m)
            if all(isinstance(o, Obj) and o.cls == o0.cls and set(o.fields) == set(o0.fields) for o in objs):
                fields = {}
                for f in o0.fields:
                    xs = [(o.fields[f], st) for o, (_, st) in zip(objs, vals)]
                    if all(isinstance(x, Ref) for x, _ in xs) and len(set(x.loc for x, _ in xs)) == 1 \
                            and xs[0][0].loc in run.st.heap:
                        fields[f] = xs[0][0]        # the same pre-existing object in every iteration (shared)
                    else:
                        fields[f] = self._merge(xs, j)
                return run.st.alloc(Obj(o0.cls, fields))
            if all(isinstance(o, SeqO) and o.skind == o0.skind for o in objs):
                return SeqV(o0.skind, self._mt([o.term for o in objs], j), True)
            if all(isinstance(o, SymListO) for o in objs):
                ek = [o.ekind for o in objs if o.ekind not in (None, 'none')]
                return run.st.alloc(SymListO(self._mt([o.length for o in objs], j), self._mt([o.elems for o in objs], j),
                                             ek[0] if ek else None))
            if all(isinstance(o, ListO) and len(o.items) == len(o0.items) for o in objs):
                return run.st.alloc(ListO([self._merge([(o.items[k], st) for o, (_, st) in zip(objs, vals)], j)
                                           for k in range(len(o0.items))]))
        raise Unsupported('per-iteration value of kind %s' % type(v0).__name__)


def _collect(run, dom, normal, nguards, gen, ik, n, merged):
    """Result list of a comprehension / parallel map: element i is the body's value in iteration i."""
    iv = IdxVals(run, n, normal, nguards, gen)
    if getattr(dom, 'want_idxvals', False):
        return iv
    j = bound('j', Int)
    v = iv.at(j)
    if isinstance(v, ArmV):
        r = fresh('comp', ASeq)
        run.st.assume(T.alen(r) == n)
        run.st.assume(z3.ForAll([j], z3.Implies(z3.And(j >= 0, j < n), T.aat(r, j) == v.term), patterns=[T.aat(r, j)]))
        return SeqV('A', r, True)
    if isinstance(v, Num):
        r = fresh('comp', RSeq)
        run.st.assume(T.rlen(r) == n)
        run.st.assume(z3.ForAll([j], z3.Implies(z3.And(j >= 0, j < n), T.rat(r, j) == v.real()), patterns=[T.rat(r, j)]))
        return SeqV('R', r, True)
    if isinstance(v, Ref) and isinstance(run.deref(v), SymListO):
        o = run.deref(v)        # a list of lists (results of the chunks of a parallel map)
        return run.st.alloc(NestedListO(n, z3.Lambda([j], o.length), z3.Lambda([j], o.elems), o.ekind))
    return run.st.alloc(SymListO(n, z3.Lambda([j], box(run, v)), ekind_of(run, v)))


def flatten(run, nl, where=''):
    """list(chain.from_iterable(L)) for a list of lists L.  Offsets off(i) = len_0 + .. + len_{i-1}; the element at
    position p lives in chunk ck(p) at position p - off(ck(p)).  With a telescope hint S from the spec
    (len_i == S[i+1] - S[i], an obligation) the offsets are S[i] - S[0] (rule: telescoping sum, induction on i)."""
    off = fresh_fn('off', Int, Int)
    ck = fresh_fn('chunk', Int, Int)
    i = bound('i', Int)
    p = bound('p', Int)
    st = run.st
    st.assume(off(0) == 0)
    st.assume(z3.ForAll([i], z3.Implies(z3.And(0 <= i, i < nl.n), z3.And(nl.lens[i] >= 0, off(i + 1) == off(i) + nl.lens[i])),
                        patterns=[off(i + 1)]))
    hint = run.eng.telescope_hint(run)
    if hint is not None:
        S = hint.term
        from .lib import iat
        g = z3.ForAll([i], z3.Implies(z3.And(0 <= i, i < nl.n), nl.lens[i] == iat(S, i + 1) - iat(S, i)))
        run.emit('flatten.telescope', g, where)
        st.assume(g)
        st.assume(z3.ForAll([i], z3.Implies(z3.And(0 <= i, i <= nl.n), off(i) == iat(S, i) - iat(S, 0)), patterns=[off(i)]))
        run.note('rule:telescoping-sum')
    # every position below the total length lies in exactly one chunk (offsets are non-decreasing from 0 to off(n))
    st.assume(z3.ForAll([p], z3.Implies(z3.And(0 <= p, p < off(nl.n)),
                                        z3.And(0 <= ck(p), ck(p) < nl.n, off(ck(p)) <= p, p < off(ck(p) + 1))),
                        patterns=[ck(p)]))
    st.assume(off(nl.n) >= 0)
    return run.st.alloc(SymListO(off(nl.n), z3.Lambda([p], nl.elems[ck(p)][p - off(ck(p))]), nl.ekind))


def _closed_form(v, itf, ik, body_consts):
    """v == g(itf(ik), t1(ik)..tk(ik)) with g uninterpreted and the t's free of body-local symbols and of other
    carried sequences -> (g, [t..])."""
    if not (z3.is_app(v) and v.decl().kind() == z3.Z3_OP_UNINTERPRETED and v.num_args() >= 1):
        return None
    if not z3.eq(v.arg(0), itf(ik)):
        return None
    others = [v.arg(k) for k in range(1, v.num_args())]
    banned = set(c.get_id() for c in body_consts if not z3.eq(c, ik))
    for o in others:
        if _mentions(o, banned, itf):
            return None
    return v.decl(), others


def _cond_closed_form(v, itf, ik, body_consts):
    if not (z3.is_app(v) and v.decl().kind() == z3.Z3_OP_ITE):
        return None
    c, a, b = v.arg(0), v.arg(1), v.arg(2)
    if z3.eq(a, itf(ik)):
        a, b, c = b, a, z3.Not(c)
    if not z3.eq(b, itf(ik)):
        return None
    cf = _closed_form(a, itf, ik, body_consts)
    if cf is None:
        return None
    banned = set(x.get_id() for x in body_consts if not z3.eq(x, ik))
    if _mentions(c, banned, itf):
        return None
    return z3.simplify(c), cf[0], cf[1]


def _mentions(t, banned_ids, itf):
    todo = [t]
    seen = set()
    while todo:
        e = todo.pop()
        if e.get_id() in seen:
            continue
        seen.add(e.get_id())
        if e.get_id() in banned_ids:
            return True
        if z3.is_app(e):
            if e.decl().name().startswith('it_'):
                return True
            todo.extend(e.children())
        elif z3.is_quantifier(e):
            todo.append(e.body())
    return False


def _with_term(v, term):
    r = type(v).__new__(type(v))
    r.__dict__.update(v.__dict__)
    r.term = term
    return r


def _stores_only_at(arr, base, key):
    """arr is base with (possibly nested / ite-merged) stores at index `key` only (syntactic check)."""
    a = arr
    while True:
        if z3.eq(a, base):
            return True
        if z3.is_store(a):
            if not z3.eq(z3.simplify(a.arg(1)), z3.simplify(key)):
                return False
            a = a.arg(0)
            continue
        if z3.is_app(a) and a.decl().kind() == z3.Z3_OP_ITE:
            return _stores_only_at(a.arg(1), base, key) and _stores_only_at(a.arg(2), base, key)
        return False


# ------------------------------------------------------------------------------------ comprehensions
def eval_comprehension(run, n, kind):
    if len(n.generators) != 1:
        raise Unsupported('nested comprehension')
    g = n.generators[0]
    dom = domain_of(run, run.ev(g.iter))
    if kind == 'dict':
        return _dict_comp(run, n, g, dom)
    if dom.items is not None:
        out = []
        for v in dom.items:
            run.assign(g.target, v)
            if all(run.truth(run.ev(c)) for c in g.ifs):
                out.append(run.ev(n.elt))
        if out and all(isinstance(x, ArmV) for x in out):
            pass
        return run.st.alloc(ListO(out))
    if g.ifs:
        return _filter_comp(run, n, g, dom)
    if isinstance(n.elt, ast.Name) and isinstance(g.target, ast.Name) and n.elt.id == g.target.id \
            and dom.canon is not None:
        return dom.canon       # [x for x in xs]: the sequence itself

    def body(elem):
        run.assign(g.target, elem)
        return run.ev(n.elt)
    saved = dict(run.env)
    try:
        return summarise(run, dom, body, where='line %d' % n.lineno, collect=True)
    finally:
        for k in list(run.env):
            if k not in saved:
                del run.env[k]


def _filter_comp(run, n, g, dom):
    """[x for x in arms if P(x)]  ->  order-preserving sub-sequence (axiomatised by membership, order, distinctness)."""
    if not (isinstance(n.elt, ast.Name) and isinstance(g.target, ast.Name) and n.elt.id == g.target.id
            and dom.arm_seq is not None):
        raise Unsupported('filtered comprehension that is not a sub-sequence of arms')
    a = bound('aflt', Arm)
    b = bound('bflt', Arm)
    saved = dict(run.env)
    run.env[g.target.id] = ArmV(a)
    run.spec_mode += 1      # the filter condition is evaluated as a pure predicate of the element
    try:
        conds = [to_bool_term(run.ev(c)) for c in g.ifs]
    finally:
        run.spec_mode -= 1
        run.frames[-1].env = saved
    P = z3.And(*conds)
    r = fresh('filtered', ASeq)
    s = dom.arm_seq
    run.st.assume(z3.ForAll([a], T.amem(r, a) == z3.And(T.amem(s, a), P), patterns=[T.amem(r, a), T.amem(s, a)]))
    run.st.assume(z3.Implies(T.adistinct(s), T.adistinct(r)))
    Pb = z3.substitute(P, (a, b))
    run.st.assume(z3.ForAll([a, b], z3.Implies(z3.And(T.amem(r, a), T.amem(r, b)),
                                               (T.apos(r, a) < T.apos(r, b)) == (T.apos(s, a) < T.apos(s, b))),
                            patterns=[z3.MultiPattern(T.apos(r, a), T.apos(r, b))]))
    run.st.assume(T.alen(r) <= T.alen(s))
    return SeqV('A', r, True)


def _dict_comp(run, n, g, dom):
    if dom.items is not None:
        m = run.eng.lib.dict_literal(run, [])
        for v in dom.items:
            run.assign(g.target, v)
            if all(run.truth(run.ev(c)) for c in g.ifs):
                run.eng.lib.map_set(run, m, run.ev(n.key), run.ev(n.value))
        return m
    if g.ifs:
        raise Unsupported('filtered dict comprehension')
    if dom.arm_seq is None and getattr(dom, 'range_lo', None) is not None and z3.is_int_value(z3.simplify(dom.range_lo)) \
            and z3.simplify(dom.range_lo).as_long() == 0 and isinstance(n.key, ast.Name) and isinstance(g.target, ast.Name) \
            and n.key.id == g.target.id:
        return _range_dict_comp(run, n, g, dom)
    if dom.arm_seq is None:
        raise Unsupported('dict comprehension not keyed by an arm sequence')

    def body(elem):
        run.assign(g.target, elem)
        k = run.ev(n.key)
        v = run.ev(n.value)
        return TupleV([k, v])
    return build_map_from_pairs(run, dom, body, 'line %d' % n.lineno)


def _range_dict_comp(run, n, g, dom):
    """{k: value(k) for k in range(n)}: a dictionary keyed by 0 .. n-1 (IMapO); the values are matrices (one generator
    draw per key, in key order) or empty defaultdict(list) objects"""
    from .libcalls import EmptyTabV
    from .smt import Real

    def body(elem):
        run.assign(g.target, elem)
        return run.ev(n.value)
    if isinstance(n.value, ast.Call) and isinstance(n.value.func, ast.Name) and n.value.func.id == 'defaultdict':
        saved0 = dict(run.env)
        try:
            probe = body(dom.elem(fresh('kprobe', Int)))        # a constant value: no state is touched
        finally:
            for k in list(run.env):
                if k not in saved0:
                    del run.env[k]
        if isinstance(probe, EmptyTabV):
            return run.st.alloc(IMapO(dom.n, z3.K(Int, z3.K(Real, F('iempty', ISeq)())), 'hashtab'))
    d2 = Domain(dom.n, dom.elem)
    d2.want_idxvals = True
    saved = dict(run.env)
    try:
        iv = summarise(run, d2, body, where='line %d' % n.lineno, collect=True)
    finally:
        for k in list(run.env):
            if k not in saved:
                del run.env[k]
    j = bound('jrc', Int)
    v = iv.at(j)
    if isinstance(v, MatV):
        return run.st.alloc(IMapO(dom.n, z3.Lambda([j], v.term), 'mat'))
    if isinstance(v, EmptyTabV):
        empty = z3.K(Real, F('iempty', ISeq)())
        return run.st.alloc(IMapO(dom.n, z3.K(Int, empty), 'hashtab'))
    if isinstance(v, Ref) and isinstance(run.deref(v), ListO) and not run.deref(v).items:
        return run.st.alloc(IMapO(dom.n, fresh('unset_planes', z3.ArraySort(Int, Mat)), 'mat'))     # {i: [] ...}: placeholders
    raise Unsupported('dict comprehension over a range with values %r' % (v,))


def build_map_from_pairs(run, dom, body, where):
    """dict of (key, value) pairs whose keys are the elements of an arm sequence, in that order."""
    holder = {}

    def wrapped(elem):
        kv = body(elem)
        k, v = kv.items
        if not (isinstance(k, ArmV) and z3.eq(z3.simplify(k.term), z3.simplify(T.aat(dom.arm_seq, holder['ik'])))):
            raise Unsupported('dict built with keys other than the iterated arms')
        return v
    d2 = Domain(dom.n, None, arm_seq=dom.arm_seq)
    d2.want_idxvals = True

    def elem(i):
        holder['ik'] = i
        return dom.elem(i)
    d2.elem = elem
    saved = dict(run.env)
    try:
        iv = summarise(run, d2, wrapped, where=where, collect=True)
    finally:
        for k in list(run.env):
            if k not in saved:
                del run.env[k]
    a_ = bound('adc', Arm)
    s = dom.arm_seq
    v = iv.at(T.apos(s, a_))
    lib = run.eng.lib
    from .lib import _vkind_of
    if isinstance(v, Ref) and isinstance(run.deref(v), MapO) and not run.deref(v).cols and \
            z3.eq(run.deref(v).keys, T.aempty):
        # every value is an empty dict literal: a dictionary of records whose fields are decided by the first store
        return run.st.alloc(MapO(s, {}, {}))
    if isinstance(v, RecordV):
        cols, vk = {}, {}
        for f, x in v.fields.items():
            kind = _vkind_of(x)
            cols[f] = z3.Lambda([a_], lib.col_term(run, kind, x))
            vk[f] = kind
        return run.st.alloc(MapO(s, cols, vk))
    if isinstance(v, Ref) and isinstance(run.deref(v), Obj):
        o = run.deref(v)
        cols, vk = {}, {}
        shared = None
        for f, x in o.fields.items():
            if f == 'rng' and isinstance(x, Ref):
                # every entry refers to the same pre-existing generator object: the shared generator
                shared = x.loc
                cols['#rng_shared'] = z3.K(Arm, z3.BoolVal(True))
                cols['#rng_state'] = fresh('col_rng_state', z3.ArraySort(Arm, smt.Rng))
                vk['#rng_shared'] = 'bool'
                vk['#rng_state'] = 'rngstate'
                continue
            from .verify import RECORD_KINDS
            decl = run.eng.class_decls(o.cls).get(f, '').replace(' const', '').strip()
            kind = RECORD_KINDS.get(decl) or (_vkind_of(x) if not isinstance(x, Ref) else None)
            if kind is None:
                raise Unsupported('object-valued dict with reference field %s' % f)
            cols[f] = z3.Lambda([a_], lib.col_term(run, kind, x))
            vk[f] = kind
        mo = MapO(s, cols, vk, record_cls=o.cls)
        mo.shared_rng = shared
        return run.st.alloc(mo)
    kind = _vkind_of(v)
    return run.st.alloc(MapO(s, {'': z3.Lambda([a_], lib.col_term(run, kind, v))}, {'': kind}))


# ---------------------------------------------------------------------------------------- Parallel
def exec_parallel(run, n):
    """Parallel(n_jobs=..., require='sharedmem' | backend=...)(delayed(f)(args) for x in xs)"""
    cfg = {k.arg: run.ev(k.value) for k in n.func.keywords}
    for a in n.func.args:
        run.ev(a)
    if len(n.args) != 1 or not isinstance(n.args[0], ast.GeneratorExp):
        raise Unsupported('Parallel call shape')
    ge = n.args[0]
    if len(ge.generators) != 1 or ge.generators[0].ifs:
        raise Unsupported('Parallel generator shape')
    g = ge.generators[0]
    call = ge.elt
    if not (isinstance(call, ast.Call) and isinstance(call.func, ast.Call) and isinstance(call.func.func, ast.Name)
            and call.func.func.id == 'delayed' and len(call.func.args) == 1):
        raise Unsupported('Parallel task shape')
    run.note('lib:joblib.Parallel (A7: each task exactly once, results in task order)')
    req = cfg.get('require')
    mode = 'sharedmem' if isinstance(req, StrV) and req.s == 'sharedmem' else 'backend'
    task = ast.Call(func=call.func.args[0], args=call.args, keywords=call.keywords)
    ast.copy_location(task, call)
    ast.fix_missing_locations(task)
    dom = domain_of(run, run.ev(g.iter))
    if dom.items is not None:
        out = []
        for v in dom.items:
            run.assign(g.target, v)
            out.append(run.ev(task))
        return run.st.alloc(ListO(out))

    def body(elem):
        run.assign(g.target, elem)
        return run.ev(task)
    saved = dict(run.env)
    try:
        return summarise(run, dom, body, where='line %d' % n.lineno, collect=True, parallel=mode)
    finally:
        for k in list(run.env):
            if k not in saved:
                del run.env[k]


def exec_try(run, s):
    raise Unsupported('try statement at line %d' % s.lineno)
