"""Element-wise NumPy operators on symbolic arrays (assumption A4)."""
import z3
from .smt import F, Arm, ASeq, RSeq, ISeq, BSeq, Mat, Int, Real, Bool, axiom, forall, fresh
from .values import *     # noqa
from . import theory as T

r_ = z3.Const('r', RSeq)
q_ = z3.Const('q', RSeq)
x_ = z3.Real('x')
i_ = z3.Int('i')
u_ = z3.Const('u', ISeq)
k_ = z3.Int('k')

# scalar comparison masks over real / int sequences
lemask = F('lemask', RSeq, Real, BSeq)      # r <= x
ltmask = F('ltmask', RSeq, Real, BSeq)      # r <  x
gtmask = F('gtmask', RSeq, Real, BSeq)
gemask = F('gemask', RSeq, Real, BSeq)
reqmask = F('reqmask', RSeq, Real, BSeq)    # r == x
ieqmask = F('ieqmask', ISeq, Int, BSeq)     # u == k
for nm, fn, rel in (('lemask', lemask, lambda a, b: a <= b), ('ltmask', ltmask, lambda a, b: a < b),
                    ('gtmask', gtmask, lambda a, b: a > b), ('gemask', gemask, lambda a, b: a >= b),
                    ('reqmask', reqmask, lambda a, b: a == b)):
    axiom(nm + '.len', forall([r_, x_], T.blen(fn(r_, x_)) == T.rlen(r_), [fn(r_, x_)]), [nm], 'numpy')
    axiom(nm + '.at', forall([r_, x_, i_], z3.Implies(z3.And(0 <= i_, i_ < T.rlen(r_)),
                                                      T.bat(fn(r_, x_), i_) == rel(T.rat(r_, i_), x_)),
                             [T.bat(fn(r_, x_), i_)]), [nm], 'numpy')
from .lib import ilen, iat, real, intterm, mrows, mcols   # noqa  (after the masks: lib imports libnp lazily)
axiom('ieqmask.len', forall([u_, k_], T.blen(ieqmask(u_, k_)) == ilen(u_), [ieqmask(u_, k_)]), ['ieqmask'], 'numpy')
axiom('ieqmask.at', forall([u_, k_, i_], z3.Implies(z3.And(0 <= i_, i_ < ilen(u_)), T.bat(ieqmask(u_, k_), i_) == (iat(u_, i_) == k_)),
                           [T.bat(ieqmask(u_, k_), i_)]), ['ieqmask'], 'numpy')

# element-wise arithmetic on real sequences
radd = F('radd', RSeq, RSeq, RSeq)
rscale = F('rscale', Real, RSeq, RSeq)
rshift = F('rshift', RSeq, Real, RSeq)
rmul = F('rmul', RSeq, RSeq, RSeq)
axiom('radd.len', forall([r_, q_], T.rlen(radd(r_, q_)) == T.rlen(r_), [radd(r_, q_)]), ['radd'], 'numpy')
axiom('radd.at', forall([r_, q_, i_], T.rat(radd(r_, q_), i_) == T.rat(r_, i_) + T.rat(q_, i_),
                        [T.rat(radd(r_, q_), i_)]), ['radd'], 'numpy')
axiom('rscale.len', forall([x_, r_], T.rlen(rscale(x_, r_)) == T.rlen(r_), [rscale(x_, r_)]), ['rscale'], 'numpy')
axiom('rscale.at', forall([x_, r_, i_], T.rat(rscale(x_, r_), i_) == T.rmul(x_, T.rat(r_, i_)), [T.rat(rscale(x_, r_), i_)]),
      ['rscale'], 'numpy')
axiom('rshift.len', forall([x_, r_], T.rlen(rshift(r_, x_)) == T.rlen(r_), [rshift(r_, x_)]), ['rshift'], 'numpy')
axiom('rshift.at', forall([x_, r_, i_], z3.Implies(z3.And(0 <= i_, i_ < T.rlen(r_)), T.rat(rshift(r_, x_), i_) == T.rat(r_, i_) + x_), [T.rat(rshift(r_, x_), i_)]),
      ['rshift'], 'numpy')
axiom('rmul.len', forall([r_, q_], T.rlen(rmul(r_, q_)) == T.rlen(r_), [rmul(r_, q_)]), ['rmul'], 'numpy')
axiom('rmul.at', forall([r_, q_, i_], T.rat(rmul(r_, q_), i_) == T.rmul(T.rat(r_, i_), T.rat(q_, i_)),
                        [T.rat(rmul(r_, q_), i_)]), ['rmul'], 'numpy')


# np.isclose with its default tolerances: |a - b| <= atol + rtol * |b|  (exact over the reals, A1)
RTOL, ATOL = z3.RealVal('1/100000'), z3.RealVal('1/100000000')
y_ = z3.Real('y')
isclosef = F('isclose', Real, Real, Bool)
axiom('isclose.def', forall([x_, y_], isclosef(x_, y_) ==
                            (z3.If(x_ - y_ >= 0, x_ - y_, y_ - x_) <= ATOL + RTOL * z3.If(y_ >= 0, y_, -y_)),
                            [isclosef(x_, y_)]), ['isclose'], 'numpy')
closemask = F('closemask', RSeq, Real, BSeq)
axiom('closemask.len', forall([r_, x_], T.blen(closemask(r_, x_)) == T.rlen(r_), [closemask(r_, x_)]), ['closemask'], 'numpy')
axiom('closemask.at', forall([r_, x_, i_], z3.Implies(z3.And(0 <= i_, i_ < T.rlen(r_)), T.bat(closemask(r_, x_), i_) == isclosef(T.rat(r_, i_), x_)),
                             [T.bat(closemask(r_, x_), i_)]), ['closemask'], 'numpy')
m_ = z3.Const('m', BSeq)
n_ = z3.Const('n', BSeq)
bor = F('bor', BSeq, BSeq, BSeq)
band = F('band', BSeq, BSeq, BSeq)
for nm, fn, op in (('bor', bor, z3.Or), ('band', band, z3.And)):
    axiom(nm + '.len', forall([m_, n_], T.blen(fn(m_, n_)) == T.blen(m_), [fn(m_, n_)]), [nm], 'numpy')
    axiom(nm + '.at', forall([m_, n_, i_], T.bat(fn(m_, n_), i_) == op(T.bat(m_, i_), T.bat(n_, i_)),
                             [T.bat(fn(m_, n_), i_)]), [nm], 'numpy')


def np_compare(lib, run, op, a, b):
    if isinstance(a, SeqV) and a.kind == 'A' and isinstance(b, ArmV) and op == 'Eq':
        return SeqV('B', T.eqmask(a.term, b.term))
    if isinstance(a, SeqV) and a.kind == 'R' and isinstance(b, (Num, BoolV)):
        fn = {'LtE': lemask, 'Lt': ltmask, 'Gt': gtmask, 'GtE': gemask, 'Eq': reqmask}.get(op)
        if fn is not None:
            return SeqV('B', fn(a.term, real(b)))
        if op == 'NotEq':
            return SeqV('B', T.bnot(reqmask(a.term, real(b))))
    if isinstance(a, SeqV) and a.kind == 'A' and isinstance(b, ArmV) and op == 'NotEq':
        return SeqV('B', T.bnot(T.eqmask(a.term, b.term)))
    if isinstance(a, SeqV) and a.kind == 'I' and isinstance(b, Num) and op == 'Eq':
        return SeqV('B', ieqmask(a.term, intterm(b)))
    if isinstance(a, MatV) and isinstance(b, (Num, BoolV)) and op in ('Gt', 'GtE', 'Lt', 'LtE'):
        nm = {'Gt': 'mgt01', 'GtE': 'mge01', 'Lt': 'mlt01', 'LtE': 'mle01'}[op]
        from . import liblinalg      # noqa: F401  (element-level axioms of the comparison matrices)
        return MatV(F(nm, Mat, Real, Mat)(a.term, real(b)))      # 0/1 matrix of (a op b)
    raise Unsupported('comparison %s of %r and %r' % (op, a, b))


def np_binop(lib, run, op, a, b, inplace=False):
    from . import liblinalg
    if isinstance(a, SeqV) and isinstance(b, SeqV) and a.kind == b.kind == 'B' and op in ('BitOr', 'BitAnd'):
        return SeqV('B', (bor if op == 'BitOr' else band)(a.term, b.term))
    return liblinalg.binop(lib, run, op, a, b, inplace)
