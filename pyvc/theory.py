"""Spec functions and their axioms (DESIGN.md section 3.3).

Every axiom has a kind:
  definitional - unfolds the meaning of a spec function (validated against the executable definitions in
                 pyvc/execspec.py by the thorough tier)
  algebra      - linear-algebra identity (assumption A3)
  numpy        - order/shape fact of a NumPy aggregate (assumption A4)
"""
import z3
from .smt import (F, axiom, forall, Arm, ASeq, RSeq, ISeq, BSeq, Mat, Rng, Opaque, Int, Real, Bool, OptArm, NAN)

s, t = z3.Consts('s t', ASeq)
r, q = z3.Consts('r q', RSeq)
m, n_ = z3.Consts('m n_', BSeq)
a, b = z3.Consts('a b', Arm)
i, j = z3.Ints('i j')
x, y = z3.Reals('x y')

# ------------------------------------------------------------------------------------------ ASeq
alen = F('alen', ASeq, Int)
aat = F('aat', ASeq, Int, Arm)
amem = F('amem', ASeq, Arm, Bool)
apos = F('apos', ASeq, Arm, Int)
adistinct = F('adistinct', ASeq, Bool)
aappend = F('aappend', ASeq, Arm, ASeq)
aremove = F('aremove', ASeq, Arm, ASeq)
aempty = z3.Const('aempty', ASeq)
asingle = F('asingle', Arm, ASeq)
aconcat = F('aconcat', ASeq, ASeq, ASeq)
arepeat = F('arepeat', Arm, Int, ASeq)

axiom('alen.nonneg', forall([s], alen(s) >= 0, [alen(s)]), ['alen'])
axiom('amem.pos', forall([s, a], z3.Implies(amem(s, a), z3.And(0 <= apos(s, a), apos(s, a) < alen(s),
                                                                aat(s, apos(s, a)) == a)),
                         [amem(s, a), apos(s, a)]), ['amem', 'apos'])
axiom('aat.mem', forall([s, i], z3.Implies(z3.And(0 <= i, i < alen(s)), amem(s, aat(s, i))), [aat(s, i)]),
      ['aat'])
axiom('adistinct.pos', forall([s, i], z3.Implies(z3.And(adistinct(s), 0 <= i, i < alen(s)),
                                                 apos(s, aat(s, i)) == i), [aat(s, i)]), ['adistinct'])
axiom('amem.len', forall([s, a], z3.Implies(amem(s, a), alen(s) > 0), [amem(s, a)]), ['amem'])
axiom('aempty', z3.And(alen(aempty) == 0, adistinct(aempty), forall([a], z3.Not(amem(aempty, a)), [amem(aempty, a)])),
      ['aempty'])
axiom('asingle', forall([a], z3.And(alen(asingle(a)) == 1, aat(asingle(a), 0) == a, adistinct(asingle(a)),
                                    forall([b], amem(asingle(a), b) == (b == a), [amem(asingle(a), b)])),
                        [asingle(a)]), ['asingle'])
axiom('aappend.len', forall([s, a], alen(aappend(s, a)) == alen(s) + 1, [aappend(s, a)]), ['aappend'])
axiom('aappend.mem', forall([s, a, b], amem(aappend(s, a), b) == z3.Or(amem(s, b), b == a),
                            [amem(aappend(s, a), b)]), ['aappend'])
axiom('aappend.at', forall([s, a, i], aat(aappend(s, a), i) == z3.If(i == alen(s), a, aat(s, i)),
                           [aat(aappend(s, a), i)]), ['aappend'])
axiom('aappend.pos', forall([s, a, b], z3.Implies(z3.Or(amem(s, b), b == a),
                                                  apos(aappend(s, a), b) == z3.If(amem(s, b), apos(s, b), alen(s))),
                            [apos(aappend(s, a), b)]), ['aappend'])
axiom('aappend.distinct', forall([s, a], adistinct(aappend(s, a)) == z3.And(adistinct(s), z3.Not(amem(s, a))),
                                 [aappend(s, a)]), ['aappend'])
# list.remove / dict.pop: removes the first occurrence; stated for distinct sequences containing the element
axiom('aremove.len', forall([s, a], z3.Implies(amem(s, a), alen(aremove(s, a)) == alen(s) - 1), [aremove(s, a)]),
      ['aremove'])
axiom('aremove.mem', forall([s, a, b], z3.Implies(adistinct(s), amem(aremove(s, a), b) == z3.And(amem(s, b), b != a)),
                            [amem(aremove(s, a), b)]), ['aremove'])
axiom('aremove.distinct', forall([s, a], z3.Implies(adistinct(s), adistinct(aremove(s, a))), [aremove(s, a)]),
      ['aremove'])
axiom('aremove.pos', forall([s, a, b], z3.Implies(z3.And(adistinct(s), amem(s, a), amem(s, b), b != a),
                                                  apos(aremove(s, a), b) ==
                                                  z3.If(apos(s, b) < apos(s, a), apos(s, b), apos(s, b) - 1)),
                            [apos(aremove(s, a), b)]), ['aremove'])
axiom('aremove.at', forall([s, a, i], z3.Implies(z3.And(adistinct(s), amem(s, a)),
                                                 aat(aremove(s, a), i) == z3.If(i < apos(s, a), aat(s, i), aat(s, i + 1))),
                           [aat(aremove(s, a), i)]), ['aremove'])
axiom('aconcat.len', forall([s, t], alen(aconcat(s, t)) == alen(s) + alen(t), [aconcat(s, t)]), ['aconcat'])
axiom('aconcat.at', forall([s, t, i], aat(aconcat(s, t), i) == z3.If(i < alen(s), aat(s, i), aat(t, i - alen(s))),
                           [aat(aconcat(s, t), i)]), ['aconcat'])
axiom('aconcat.mem', forall([s, t, a], amem(aconcat(s, t), a) == z3.Or(amem(s, a), amem(t, a)),
                            [amem(aconcat(s, t), a)]), ['aconcat'])
axiom('arepeat', forall([a, i], z3.Implies(i >= 0, z3.And(alen(arepeat(a, i)) == i,
                                                            forall([j], z3.Implies(z3.And(0 <= j, j < i),
                                                                                   aat(arepeat(a, i), j) == a),
                                                                   [aat(arepeat(a, i), j)]),
                                                            forall([b], amem(arepeat(a, i), b) == z3.And(b == a, i > 0),
                                                                   [amem(arepeat(a, i), b)]))),
                        [arepeat(a, i)]), ['arepeat'])

# ------------------------------------------------------------------------------------------ RSeq
rlen = F('rlen', RSeq, Int)
rat = F('rat', RSeq, Int, Real)
rsum = F('rsum', RSeq, Real)
rconcat = F('rconcat', RSeq, RSeq, RSeq)
rempty = z3.Const('rempty', RSeq)
axiom('rlen.nonneg', forall([r], rlen(r) >= 0, [rlen(r)]), ['rlen'])
axiom('rsum.empty', forall([r], z3.Implies(rlen(r) == 0, rsum(r) == 0), [rsum(r)]), ['rsum'])
axiom('rempty', rlen(rempty) == 0, ['rempty'])
axiom('rconcat.len', forall([r, q], rlen(rconcat(r, q)) == rlen(r) + rlen(q), [rconcat(r, q)]), ['rconcat'])
axiom('rconcat.sum', forall([r, q], rsum(rconcat(r, q)) == rsum(r) + rsum(q), [rconcat(r, q)]), ['rconcat'])
axiom('rconcat.at', forall([r, q, i], rat(rconcat(r, q), i) == z3.If(i < rlen(r), rat(r, i), rat(q, i - rlen(r))),
                           [rat(rconcat(r, q), i)]), ['rconcat'])

# ------------------------------------------------------------------------------------------ BSeq
blen = F('blen', BSeq, Int)
bat = F('bat', BSeq, Int, Bool)
bcnt = F('bcnt', BSeq, Int)
bconcat = F('bconcat', BSeq, BSeq, BSeq)
bnot = F('bnot', BSeq, BSeq)
eqmask = F('eqmask', ASeq, Arm, BSeq)          # decisions == arm
axiom('blen.nonneg', forall([m], blen(m) >= 0, [blen(m)]), ['blen'])
axiom('bcnt.range', forall([m], z3.And(0 <= bcnt(m), bcnt(m) <= blen(m)), [bcnt(m)]), ['bcnt'])
axiom('bcnt.witness', forall([m, i], z3.Implies(z3.And(0 <= i, i < blen(m), bat(m, i)), bcnt(m) > 0), [bat(m, i)]),
      ['bcnt'])
bwit = F('bwit', BSeq, Int)
axiom('bcnt.pos', forall([m], z3.Implies(bcnt(m) > 0, z3.And(0 <= bwit(m), bwit(m) < blen(m), bat(m, bwit(m)))),
                         [bcnt(m)]), ['bcnt'])
axiom('bconcat.len', forall([m, n_], blen(bconcat(m, n_)) == blen(m) + blen(n_), [bconcat(m, n_)]), ['bconcat'])
axiom('bconcat.cnt', forall([m, n_], bcnt(bconcat(m, n_)) == bcnt(m) + bcnt(n_), [bconcat(m, n_)]), ['bconcat'])
axiom('bconcat.at', forall([m, n_, i], bat(bconcat(m, n_), i) == z3.If(i < blen(m), bat(m, i), bat(n_, i - blen(m))),
                           [bat(bconcat(m, n_), i)]), ['bconcat'])
axiom('bnot', forall([m], z3.And(blen(bnot(m)) == blen(m), bcnt(bnot(m)) == blen(m) - bcnt(m),
                                 forall([i], z3.Implies(z3.And(0 <= i, i < blen(m)), bat(bnot(m), i) == z3.Not(bat(m, i))), [bat(bnot(m), i)])), [bnot(m)]),
      ['bnot'])
axiom('eqmask.len', forall([s, a], blen(eqmask(s, a)) == alen(s), [eqmask(s, a)]), ['eqmask'])
axiom('eqmask.at', forall([s, a, i], z3.Implies(z3.And(0 <= i, i < alen(s)), bat(eqmask(s, a), i) == (aat(s, i) == a)), [bat(eqmask(s, a), i)]), ['eqmask'])
axiom('eqmask.mem', forall([s, a], amem(s, a) == (bcnt(eqmask(s, a)) > 0), [eqmask(s, a)]), ['eqmask'])
axiom('eqmask.concat', forall([s, t, a], eqmask(aconcat(s, t), a) == bconcat(eqmask(s, a), eqmask(t, a)),
                              [eqmask(aconcat(s, t), a)]), ['eqmask'])
axiom('eqmask.single', forall([a, b, i], z3.Implies(i >= 0, bcnt(eqmask(arepeat(a, i), b)) == z3.If(a == b, i, 0)),
                              [eqmask(arepeat(a, i), b)]), ['eqmask'])

# boolean-mask selection
rsel = F('rsel', RSeq, BSeq, RSeq)
asel = F('asel', ASeq, BSeq, ASeq)
axiom('rsel.len', forall([r, m], rlen(rsel(r, m)) == bcnt(m), [rsel(r, m)]), ['rsel'])
axiom('asel.len', forall([s, m], alen(asel(s, m)) == bcnt(m), [asel(s, m)]), ['asel'])
axiom('rsel.concat', forall([r, q, m, n_], z3.Implies(rlen(r) == blen(m),
                                                      rsel(rconcat(r, q), bconcat(m, n_)) ==
                                                      rconcat(rsel(r, m), rsel(q, n_))),
                            [rsel(rconcat(r, q), bconcat(m, n_))]), ['rsel'])
axiom('asel.eqmask', forall([s, a, b], amem(asel(s, eqmask(s, a)), b) == z3.And(b == a, bcnt(eqmask(s, a)) > 0),
                            [amem(asel(s, eqmask(s, a)), b)]), ['asel'])
axiom('rsel.all', forall([r, m], z3.Implies(z3.And(bcnt(m) == blen(m), blen(m) == rlen(r)),
                                            rsum(rsel(r, m)) == rsum(r)), [rsel(r, m)]), ['rsel'])

# ------------------------------------------------------------------------------------------ maps (dict keyed by arm)
RArr = z3.ArraySort(Arm, Real)
c1, c2 = z3.Consts('c1 c2', RArr)
msum = F('msum', ASeq, RArr, Real)       # sum(d.values())
mmax = F('mmax', ASeq, RArr, Real)       # max(d.values())
mmin = F('mmin', ASeq, RArr, Real)
margmax = F('margmax', ASeq, RArr, Arm)  # first key with maximal value  (utils.argmax; CPython max, A6)
margmin = F('margmin', ASeq, RArr, Arm)
axiom('mmax.ub', forall([s, c1, a], z3.Implies(amem(s, a), c1[a] <= mmax(s, c1)), [(mmax(s, c1), amem(s, a))]),
      ['mmax'], 'definitional')
axiom('mmax.wit', forall([s, c1], z3.Implies(alen(s) > 0, z3.And(amem(s, margmax(s, c1)),
                                                                  c1[margmax(s, c1)] == mmax(s, c1))),
                         [mmax(s, c1)]), ['mmax'])
axiom('margmax.first', forall([s, c1, a], z3.Implies(z3.And(amem(s, a), alen(s) > 0),
                                                     z3.And(amem(s, margmax(s, c1)),
                                                            c1[a] <= c1[margmax(s, c1)],
                                                            z3.Implies(c1[a] == c1[margmax(s, c1)],
                                                                       apos(s, margmax(s, c1)) <= apos(s, a)))),
                              [(margmax(s, c1), amem(s, a))]), ['margmax'])
axiom('margmax.mem', forall([s, c1], z3.Implies(alen(s) > 0, amem(s, margmax(s, c1))), [margmax(s, c1)]),
      ['margmax'])
axiom('mmin.lb', forall([s, c1, a], z3.Implies(amem(s, a), c1[a] >= mmin(s, c1)), [(mmin(s, c1), amem(s, a))]),
      ['mmin'])
axiom('mmin.wit', forall([s, c1], z3.Implies(alen(s) > 0, z3.And(amem(s, margmin(s, c1)),
                                                                  c1[margmin(s, c1)] == mmin(s, c1))),
                         [mmin(s, c1)]), ['mmin'])
axiom('margmin.first', forall([s, c1, a], z3.Implies(z3.And(amem(s, a), alen(s) > 0),
                                                     z3.And(amem(s, margmin(s, c1)),
                                                            c1[a] >= c1[margmin(s, c1)],
                                                            z3.Implies(c1[a] == c1[margmin(s, c1)],
                                                                       apos(s, margmin(s, c1)) <= apos(s, a)))),
                              [(margmin(s, c1), amem(s, a))]), ['margmin'])
axiom('margmin.mem', forall([s, c1], z3.Implies(alen(s) > 0, amem(s, margmin(s, c1))), [margmin(s, c1)]),
      ['margmin'])
# extensionality of the aggregates on the key set: witness of a differing key
mdiff = F('mdiff', ASeq, RArr, RArr, Arm)
axiom('msum.ext', forall([s, c1, c2], z3.Or(msum(s, c1) == msum(s, c2),
                                            z3.And(amem(s, mdiff(s, c1, c2)),
                                                   c1[mdiff(s, c1, c2)] != c2[mdiff(s, c1, c2)])),
                         [(msum(s, c1), msum(s, c2))]), ['msum'])
axiom('mmax.ext', forall([s, c1, c2], z3.Or(mmax(s, c1) == mmax(s, c2),
                                            z3.And(amem(s, mdiff(s, c1, c2)),
                                                   c1[mdiff(s, c1, c2)] != c2[mdiff(s, c1, c2)])),
                         [(mmax(s, c1), mmax(s, c2))]), ['mmax'])
axiom('margmax.ext', forall([s, c1, c2], z3.Or(margmax(s, c1) == margmax(s, c2),
                                               z3.And(amem(s, mdiff(s, c1, c2)),
                                                      c1[mdiff(s, c1, c2)] != c2[mdiff(s, c1, c2)])),
                            [(margmax(s, c1), margmax(s, c2))]), ['margmax'])
axiom('msum.empty', forall([s, c1], z3.Implies(alen(s) == 0, msum(s, c1) == 0), [msum(s, c1)]), ['msum'])

# ------------------------------------------------------------------------------------------ reals
sqrt = F('sqrt', Real, Real)
ln = F('ln', Real, Real)
exp = F('exp', Real, Real)
axiom('sqrt.def', forall([x], z3.Implies(x >= 0, z3.And(sqrt(x) >= 0, sqrt(x) * sqrt(x) == x)), [sqrt(x)]),
      ['sqrt'], 'numpy')
axiom('ln.nonneg', forall([x], z3.Implies(x >= 1, ln(x) >= 0), [ln(x)]), ['ln'], 'numpy')
axiom('exp.pos', forall([x], exp(x) > 0, [exp(x)]), ['exp'], 'numpy')
axiom('exp.zero', exp(0) == 1, ['exp'], 'numpy')
axiom('exp.mono', forall([x, y], z3.Implies(x <= y, exp(x) <= exp(y)), [(exp(x), exp(y))]), ['exp'], 'numpy')
isnan = F('isnan', Real, Bool)
axiom('isnan', forall([x], isnan(x) == (x == NAN), [isnan(x)]), ['isnan'])

# ------------------------------------------------------------------------------------------ random streams
rng_init = F('rng_init', Int, Rng)       # np.random.default_rng(seed)
EPS = z3.Const('FLOAT_EPS', Real)        # np.finfo(float).eps
axiom('eps.pos', EPS > 0, ['FLOAT_EPS'], 'numpy')

# a sum of positive values over a non-empty key set is positive (witness form)
mposwit = F('mposwit', ASeq, RArr, Arm)
axiom('msum.pos', forall([s, c1], z3.Or(msum(s, c1) > 0, alen(s) == 0,
                                         z3.And(amem(s, mposwit(s, c1)), c1[mposwit(s, c1)] <= 0)),
                         [msum(s, c1)]), ['msum'], 'definitional')

# extensionality of real sequences under a mask selection (witness form)
rdiffw = F('rdiffw', RSeq, RSeq, Int)
axiom('rsel.ext', forall([r, q, m], z3.Or(rsel(r, m) == rsel(q, m), rlen(r) != rlen(q),
                                          z3.And(0 <= rdiffw(r, q), rdiffw(r, q) < rlen(r),
                                                 rat(r, rdiffw(r, q)) != rat(q, rdiffw(r, q)))),
                         [(rsel(r, m), rsel(q, m))]), ['rsel'], 'definitional')
# rewards in {0,1}: the sum over any selection lies between 0 and the number of selected rows (lemma: induction)
rbinary = F('rbinary', RSeq, Bool)
axiom('rbinary.def', forall([r, i], z3.Implies(z3.And(rbinary(r), 0 <= i, i < rlen(r)),
                                               z3.Or(rat(r, i) == 0, rat(r, i) == 1)), [(rbinary(r), rat(r, i))]),
      ['rbinary'], 'definitional')
rbwit = F('rbwit', RSeq, Int)
axiom('rbinary.intro', forall([r], z3.Or(rbinary(r), z3.And(0 <= rbwit(r), rbwit(r) < rlen(r),
                                                            rat(r, rbwit(r)) != 0, rat(r, rbwit(r)) != 1)),
                              [rbinary(r)]), ['rbinary'], 'definitional')
axiom('rbinary.selsum', forall([r, m], z3.Implies(rbinary(r), z3.And(0 <= rsum(rsel(r, m)),
                                                                     rsum(rsel(r, m)) <= bcnt(m))),
                               [rsum(rsel(r, m))]), ['rbinary', 'rsel'], 'lemma')

axiom('msum.append', forall([s, c1, a], z3.Implies(z3.Not(amem(s, a)), msum(aappend(s, a), c1) == msum(s, c1) + c1[a]),
                            [msum(aappend(s, a), c1)]), ['msum'], 'definitional')
axiom('msum.remove', forall([s, c1, a], z3.Implies(z3.And(amem(s, a), adistinct(s)),
                                                   msum(aremove(s, a), c1) == msum(s, c1) - c1[a]),
                            [msum(aremove(s, a), c1)]), ['msum'], 'definitional')

rappend = F('rappend', RSeq, Real, RSeq)
axiom('rappend.len', forall([r, x], rlen(rappend(r, x)) == rlen(r) + 1, [rappend(r, x)]), ['rappend'])
axiom('rappend.sum', forall([r, x], rsum(rappend(r, x)) == rsum(r) + x, [rappend(r, x)]), ['rappend'])
axiom('rappend.at', forall([r, x, i], rat(rappend(r, x), i) == z3.If(i == rlen(r), x, rat(r, i)),
                           [rat(rappend(r, x), i)]), ['rappend'])

# product of two symbolic reals: kept uninterpreted (commutative, unit and zero laws) so that equal factors give
# equal products by congruence instead of through z3's incomplete nonlinear arithmetic
rmulf = F('rprod', Real, Real, Real)
axiom('rmul.comm', forall([x, y], rmulf(x, y) == rmulf(y, x), [rmulf(x, y)]), ['rprod'], 'algebra')
axiom('rmul.zero', forall([x], z3.And(rmulf(x, 0) == 0, rmulf(0, x) == 0), [rmulf(x, 0)]), ['rprod'], 'algebra')
axiom('rmul.one', forall([x], z3.And(rmulf(x, 1) == x, rmulf(1, x) == x), [rmulf(x, 1)]), ['rprod'], 'algebra')
axiom('rmul.sign', forall([x, y], z3.Implies(z3.And(x >= 0, y >= 0), rmulf(x, y) >= 0), [rmulf(x, y)]), ['rprod'], 'algebra')


def rmul(a, b):
    """a * b for real terms: exact when one factor is a numeral"""
    sa, sb = z3.simplify(a), z3.simplify(b)
    if z3.is_rational_value(sa) or z3.is_rational_value(sb) or z3.is_int_value(sa) or z3.is_int_value(sb):
        return a * b
    return rmulf(a, b)


# a non-negative number times a fraction stays between 0 and the number (train_size = int(n * (1 - test_size)))
axiom('rmul.frac', forall([x, y], z3.Implies(z3.And(x >= 0, y >= 0, y <= 1), z3.And(rmulf(x, y) >= 0, rmulf(x, y) <= x)),
                          [rmulf(x, y)]), ['rprod'], 'algebra')

# slices of Python lists / 1-D arrays with in-range bounds
aslice = F('aslice', ASeq, Int, Int, ASeq)
rslice = F('rslice', RSeq, Int, Int, RSeq)
_lo, _hi = z3.Ints('lo hi')
axiom('aslice.len', forall([s, _lo, _hi], z3.Implies(z3.And(0 <= _lo, _lo <= _hi, _hi <= alen(s)),
                                                     alen(aslice(s, _lo, _hi)) == _hi - _lo), [aslice(s, _lo, _hi)]), ['aslice'])
axiom('aslice.at', forall([s, _lo, _hi, i], z3.Implies(z3.And(0 <= _lo, 0 <= i, _lo + i < _hi, _hi <= alen(s)),
                                                       aat(aslice(s, _lo, _hi), i) == aat(s, _lo + i)),
                          [aat(aslice(s, _lo, _hi), i)]), ['aslice'])
axiom('rslice.len', forall([r, _lo, _hi], z3.Implies(z3.And(0 <= _lo, _lo <= _hi, _hi <= rlen(r)),
                                                     rlen(rslice(r, _lo, _hi)) == _hi - _lo), [rslice(r, _lo, _hi)]), ['rslice'])
axiom('rslice.at', forall([r, _lo, _hi, i], z3.Implies(z3.And(0 <= _lo, 0 <= i, _lo + i < _hi, _hi <= rlen(r)),
                                                       rat(rslice(r, _lo, _hi), i) == rat(r, _lo + i)),
                          [rat(rslice(r, _lo, _hi), i)]), ['rslice'])
