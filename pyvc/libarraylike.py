"""Containers accepted by the MAB facade (list, ndarray, pandas Series / DataFrame) as abstract values (DESIGN 2.2).

An argument of declared kind arraylike:A (arm labels), arraylike:R (numbers) or arraylike:M (2-D numbers) is an opaque
value with a *container kind* (uninterpreted, mutually exclusive predicates is_list / is_ndarray / is_series /
is_dataframe / none of them) and a *content* (as_aseq / as_rseq / as_mat).  isinstance tests read the kind; NumPy /
pandas conversions return the content.  What is dropped: dtype and memory layout (A1, A4) -- apart from the
C_CONTIGUOUS flag, which the code branches on and which is kept as an uninterpreted predicate.
"""
import z3
from .smt import F, fresh, Arm, ASeq, RSeq, ISeq, BSeq, Mat, Opaque, Int, Real, Bool, axiom, forall
from .values import *     # noqa
from . import theory as T
from .lib import real, intterm, mrows, mcols
from .libcalls import reg, row1

is_list = F('al_is_list', Opaque, Bool)
is_ndarray = F('al_is_ndarray', Opaque, Bool)
is_series = F('al_is_series', Opaque, Bool)
is_dataframe = F('al_is_dataframe', Opaque, Bool)
as_aseq = F('al_arms', Opaque, ASeq)
as_rseq = F('al_reals', Opaque, RSeq)
as_mat = F('al_matrix', Opaque, Mat)
olen = F('al_len', Opaque, Int)
ndim = F('al_ndim', Opaque, Int)
c_contig = F('al_c_contiguous', Opaque, Bool)
mat_c_contig = F('mat_c_contiguous', Mat, Bool)
_x = z3.Const('x', Opaque)
axiom('arraylike.kinds', forall([_x], z3.And(z3.Not(z3.And(is_list(_x), is_ndarray(_x))),
                                            z3.Not(z3.And(is_list(_x), is_series(_x))),
                                            z3.Not(z3.And(is_list(_x), is_dataframe(_x))),
                                            z3.Not(z3.And(is_ndarray(_x), is_series(_x))),
                                            z3.Not(z3.And(is_ndarray(_x), is_dataframe(_x))),
                                            z3.Not(z3.And(is_series(_x), is_dataframe(_x)))),
                                 [is_list(_x), is_ndarray(_x), is_series(_x), is_dataframe(_x)]),
      ['al_is_list', 'al_is_ndarray', 'al_is_series', 'al_is_dataframe'], 'numpy')
axiom('arraylike.len', forall([_x], olen(_x) >= 0, [olen(_x)]), ['al_len'], 'numpy')
axiom('arraylike.len.arms', forall([_x], T.alen(as_aseq(_x)) == olen(_x), [as_aseq(_x)]), ['al_arms'], 'numpy')
axiom('arraylike.len.reals', forall([_x], T.rlen(as_rseq(_x)) == olen(_x), [as_rseq(_x)]), ['al_reals'], 'numpy')
axiom('arraylike.len.matrix', forall([_x], z3.Implies(ndim(_x) == 2, mrows(as_mat(_x)) == olen(_x)), [as_mat(_x)]),
      ['al_matrix'], 'numpy')
axiom('arraylike.df.2d', forall([_x], z3.Implies(is_dataframe(_x), ndim(_x) == 2), [is_dataframe(_x)]),
      ['al_is_dataframe'], 'numpy')
axiom('arraylike.series.1d', forall([_x], z3.Implies(is_series(_x), ndim(_x) == 1), [is_series(_x)]),
      ['al_is_series'], 'numpy')


def is_al(v):
    return isinstance(v, OpaqueV) and v.what.startswith('arraylike:')


def content(v):
    k = v.what.split(':')[1]
    if k == 'A':
        return SeqV('A', as_aseq(v.term))
    if k == 'R':
        return SeqV('R', as_rseq(v.term))
    return MatV(as_mat(v.term))


def isinstance_al(v, name):
    """isinstance(v, <library class>) for an abstract container"""
    t = v.term
    return {'builtins.list': is_list(t), 'np.ndarray': is_ndarray(t), 'pd.Series': is_series(t),
            'pd.DataFrame': is_dataframe(t)}.get(name, z3.BoolVal(False))


def getattr_al(run, v, attr):
    if attr == 'values':
        if v.what.endswith(':M') and not run.entails(is_dataframe(v.term)):
            # a Series passed where a matrix is expected: its values are one-dimensional
            return SeqV('R', as_rseq(v.term))
        return content(v)
    if attr == 'flags':
        return RecordV({'C_CONTIGUOUS': BoolV(c_contig(v.term))})
    if attr == 'ndim':
        return Num(ndim(v.term))
    if attr == 'shape':
        m = as_mat(v.term)
        return TupleV([Num(mrows(m)), Num(mcols(m))])
    raise Unsupported('attribute %s of an abstract container' % attr)


@reg('np.isfinite')
def _isfinite(lib, run, recv, args, kw):
    return BoolV(F('isfinite', Real, Bool)(real(args[0])))


@reg('np.setdiff1d')
def _setdiff1d(lib, run, recv, args, kw):
    a, b = args
    if is_al(a):
        a = content(a)
    s = lib.as_seq(run, a)
    o = run.deref(b) if isinstance(b, Ref) else None
    if s is not None and s.kind == 'R' and isinstance(o, ListO) and all(isinstance(x, Num) for x in o.items) \
            and sorted(set(x.concrete() for x in o.items)) == [0, 1]:
        r = fresh('not01', RSeq)
        # the values outside {0, 1}: none exactly when the rewards are binary
        run.st.assume((T.rlen(r) == 0) == T.rbinary(s.term))
        run.st.assume(T.rlen(r) >= 0)
        return SeqV('R', r)
    raise Unsupported('np.setdiff1d arguments')
