"""Index of the real source: /repo/mabwiser/*.py parsed with ast on every run (DESIGN.md 2.1)."""
import ast
import hashlib
import os

REPO = os.environ.get('PYVC_REPO', '/repo')


class FuncInfo:
    def __init__(self, module, cls, node, path):
        self.module = module
        self.cls = cls          # class name or None
        self.node = node
        self.path = path
        self.name = node.name
        self.qual = '%s.%s.%s' % (module, cls, node.name) if cls else '%s.%s' % (module, node.name)
        decos = []
        for d in node.decorator_list:
            if isinstance(d, ast.Name):
                decos.append(d.id)
            elif isinstance(d, ast.Attribute):
                decos.append(d.attr)
        self.is_static = 'staticmethod' in decos
        self.is_property = 'property' in decos
        self.is_abstract = 'abstractmethod' in decos

    @property
    def lineno(self):
        return self.node.lineno

    def params(self):
        a = self.node.args
        names = [x.arg for x in a.posonlyargs + a.args]
        defaults = [None] * (len(names) - len(a.defaults)) + list(a.defaults)
        return list(zip(names, defaults))

    def body(self):
        b = self.node.body
        # drop the docstring (DESIGN 2.1: docstrings and comments are dropped by extraction)
        if b and isinstance(b[0], ast.Expr) and isinstance(b[0].value, ast.Constant) and isinstance(b[0].value.value, str):
            b = b[1:]
        return b


class ClassInfo:
    def __init__(self, module, node):
        self.module = module
        self.node = node
        self.name = node.name
        self.qual = '%s.%s' % (module, node.name)
        self.bases = []
        for b in node.bases:
            if isinstance(b, ast.Name):
                self.bases.append(b.id)
            elif isinstance(b, ast.Attribute):
                self.bases.append(b.attr)
        self.methods = {}
        self.class_attrs = {}
        self.ann_fields = []     # NamedTuple-style fields: (name, default expr or None), in order


class Repo:
    def __init__(self, root=None):
        self.root = root or REPO
        self.modules = {}      # module -> ast.Module
        self.classes = {}      # ClassName -> ClassInfo   (class names are unique across mabwiser)
        self.funcs = {}        # qualname -> FuncInfo
        self.globals = {}      # module -> {name: ast expr}
        self.imports = {}      # module -> {local name: (module, name)}
        self.digest = hashlib.sha256()
        pkg = os.path.join(self.root, 'mabwiser')
        for fn in sorted(os.listdir(pkg)):
            if not fn.endswith('.py'):
                continue
            path = os.path.join(pkg, fn)
            src = open(path).read()
            self.digest.update(src.encode())
            mod = fn[:-3]
            tree = ast.parse(src, filename=path)
            self.modules[mod] = tree
            self.globals[mod] = {}
            self.imports[mod] = {}
            for node in tree.body:
                if isinstance(node, ast.ClassDef):
                    self._add_class(mod, node, path)
                elif isinstance(node, ast.FunctionDef):
                    fi = FuncInfo(mod, None, node, path)
                    self.funcs[fi.qual] = fi
                elif isinstance(node, ast.Assign):
                    for t in node.targets:
                        if isinstance(t, ast.Name):
                            self.globals[mod][t.id] = node.value
                elif isinstance(node, ast.ImportFrom):
                    for al in node.names:
                        self.imports[mod][al.asname or al.name] = (node.module, al.name)
                elif isinstance(node, ast.Import):
                    for al in node.names:
                        self.imports[mod][al.asname or al.name] = (al.name, None)
        self.digest = self.digest.hexdigest()
        # lemma programs (verification-side client code executed against the contracts only): /verif/lemmas/py/*.py
        ldir = os.path.join(os.path.dirname(os.path.dirname(os.path.abspath(__file__))), 'lemmas', 'py')
        self.lemma_modules = []
        if os.path.isdir(ldir):
            for fn in sorted(os.listdir(ldir)):
                if not fn.endswith('.py'):
                    continue
                path = os.path.join(ldir, fn)
                mod = 'lemma_' + fn[:-3]
                tree = ast.parse(open(path).read(), filename=path)
                self.modules[mod] = tree
                self.globals[mod] = {}
                self.imports[mod] = {}
                self.lemma_modules.append(mod)
                for node in tree.body:
                    if isinstance(node, ast.FunctionDef):
                        fi = FuncInfo(mod, None, node, path)
                        self.funcs[fi.qual] = fi
                    elif isinstance(node, ast.Assign):
                        for t in node.targets:
                            if isinstance(t, ast.Name):
                                self.globals[mod][t.id] = node.value
                    elif isinstance(node, ast.ImportFrom):
                        for al in node.names:
                            self.imports[mod][al.asname or al.name] = (node.module, al.name)
                    elif isinstance(node, ast.Import):
                        for al in node.names:
                            self.imports[mod][al.asname or al.name] = (al.name, None)

    def _add_class(self, mod, node, path, prefix=''):
        ci = ClassInfo(mod, node)
        name = prefix + node.name
        ci.name = name
        self.classes[name] = ci
        for sub in node.body:
            if isinstance(sub, ast.FunctionDef):
                fi = FuncInfo(mod, name, sub, path)
                ci.methods[sub.name] = fi
                self.funcs[fi.qual] = fi
            elif isinstance(sub, ast.Assign):
                for t in sub.targets:
                    if isinstance(t, ast.Name):
                        ci.class_attrs[t.id] = sub.value
            elif isinstance(sub, ast.AnnAssign) and isinstance(sub.target, ast.Name):
                ci.ann_fields.append((sub.target.id, sub.value))
            elif isinstance(sub, ast.ClassDef):
                self._add_class(mod, sub, path, prefix=name + '.')

    # ------------------------------------------------------------------------------------------
    def mro(self, clsname):
        out = []
        todo = [clsname]
        if clsname not in self.classes:
            return [clsname]
        while todo:
            c = todo.pop(0)
            if c in out or c not in self.classes:
                continue
            out.append(c)
            todo.extend(self.classes[c].bases)
        return out

    def is_subclass(self, clsname, base):
        return base in self.mro(clsname)

    def lookup_method(self, clsname, meth, after=None):
        """Resolve meth on clsname (static single inheritance); after=C skips up to and including C (super())."""
        mro = self.mro(clsname)
        if after is not None:
            mro = mro[mro.index(after) + 1:]
        for c in mro:
            m = self.classes[c].methods.get(meth)
            if m is not None:
                return m
        return None

    def lookup_class_attr(self, clsname, attr):
        for c in self.mro(clsname):
            if attr in self.classes[c].class_attrs:
                return self.classes[c].class_attrs[attr], c
        return None, None

    def assigned_attrs(self, clsname):
        """names a with an assignment `self.a = ...` (or augmented / annotated) in some method of clsname or its bases"""
        cache = self.__dict__.setdefault('_assigned', {})
        if clsname not in cache:
            out = set()
            for c in self.mro(clsname):
                ci = self.classes.get(c)
                if ci is None:
                    continue
                for node in ast.walk(ci.node):
                    tgts = []
                    if isinstance(node, ast.Assign):
                        tgts = node.targets
                    elif isinstance(node, (ast.AugAssign, ast.AnnAssign)):
                        tgts = [node.target]
                    for t in tgts:
                        for e in ast.walk(t):
                            if isinstance(e, ast.Attribute) and isinstance(e.value, ast.Name) and e.value.id == 'self':
                                out.add(e.attr)
            cache[clsname] = out
        return cache[clsname]

    def func(self, qual):
        return self.funcs[qual]

    def subclasses(self, base):
        return [c for c in self.classes if base in self.mro(c)]
