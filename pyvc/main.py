"""Command line: python3-vt -m pyvc.main <property|--fn qual> [--tier quick|thorough]"""
import argparse
import json
import os
import sys
import time

sys.setrecursionlimit(10000)


def main(argv=None):
    ap = argparse.ArgumentParser()
    ap.add_argument('target', nargs='?')
    ap.add_argument('--fn', action='append')
    ap.add_argument('--cls')
    ap.add_argument('--force', action='append', default=[], help='name=value: fix a case split (e.g. self_lp=_UCB1)')
    ap.add_argument('--tier', default=os.environ.get('VERIF_TIER', 'quick'))
    ap.add_argument('--timeout', type=int, default=60000,
                    help='wall-clock backstop per solver call in ms; the deterministic rlimit decides')
    ap.add_argument('--jobs', type=int, default=16)
    ap.add_argument('-v', '--verbose', action='store_true')
    ap.add_argument('--write-baseline', action='store_true')
    ap.add_argument('--replay')
    ap.add_argument('--no-rt', dest='no_rt', action='store_true', help='skip the bounded runtime leg')
    ap.add_argument('--dump', help='write SMT-LIB of obligations whose name contains this string')
    args = ap.parse_args(argv)
    from . import verify, smt, spec as specmod
    verify.load_specs()
    eng = verify.Engine()
    from . import report
    if args.replay:
        return replay_file(eng, args)
    if args.fn:
        t0 = time.time()
        obs, probs = [], []
        for q in args.fn:
            forced = dict(f.split('=') for f in args.force)
            splits = [forced] if forced else report.target_splits(eng, q, args.cls or eng.repo.funcs[q].cls) \
                if getattr(specmod.lookup(eng.repo, q, args.cls), 'twins', None) else [forced]
            for fo in splits:
                smt._counter[0] = 1000000
                smt._bv[0] = 1000000
                del smt.FRESH_LOG[:]
                o, p = eng.verify(q, args.cls, forced=fo)
                obs += o
                probs += p
        obs = report.dedupe(obs)
        res = smt.discharge(obs, timeout_ms=args.timeout, jobs=args.jobs)
        for ob, r in zip(obs, res):
            if args.verbose or r['status'] != 'discharged':
                print('%-10s %6.2fs %s' % (r['status'], r['seconds'], ob.name))
                if r['status'] != 'discharged' and args.verbose:
                    print('    clause:', ob.meta.get('clause'))
                    print('    path:', [str(f)[:120] for f in getattr(ob, 'branch_terms', [])])
            if args.dump and args.dump in ob.name:
                open('/tmp/dump_%s.smt2' % abs(hash(ob.name + ob.smt2)), 'w').write(ob.smt2)
                print('dumped', ob.name)
        for p in probs:
            print('PROBLEM', p)
        n = len(obs)
        d = sum(1 for r in res if r['status'] == 'discharged')
        print('%d obligations, %d discharged, %d problems, %.1fs' % (n, d, len(probs), time.time() - t0))
        return 0 if d == n and not probs else 2
    return report.run_property(eng, args.target, args)


def replay_file(eng, args):
    """./check --replay <file>: re-run a recorded violation.  A file with a concrete failing input is re-executed on the
    real code (exit 1 while it still fails); a file that names only an obligation re-generates and re-solves it."""
    import subprocess
    from . import runtime, smt, report
    path = args.replay if os.path.isabs(args.replay) else os.path.join(runtime.ROOT, args.replay)
    doc = json.load(open(path))
    prop = doc.get('property')
    fi = doc.get('failing_input')
    if fi and fi.get('case') is not None:
        env = dict(os.environ)
        env['PYTHONPATH'] = eng.repo.root + os.pathsep + runtime.ROOT
        p = subprocess.run([runtime.RT_PYTHON, '-m', 'rt.replay', path], cwd=runtime.ROOT, env=env, capture_output=True,
                           text=True)
        print((p.stdout or '') + (p.stderr or '')[-1500:])
        if p.returncode == 1:
            print('VIOLATION property=%s replay=%s' % (prop, args.replay))
            return 1
        return 0 if p.returncode == 0 else 3
    func = doc.get('function')
    if not func or func not in eng.repo.funcs:
        print('nothing to replay in', args.replay)
        return 3
    want = report.norm_name(doc.get('obligation', ''))
    bad = 0
    from . import spec as specmod
    for (q, cls), sp in specmod.FUNCS.items():
        if q != func:
            continue
        for fo in report.target_splits(eng, q, cls or eng.repo.funcs[q].cls):
            obs, _ = eng.verify(q, cls, forced=fo)
            obs = [o for o in report.dedupe(obs) if report.norm_name(o.name) == want]
            for ob, r in zip(obs, smt.discharge(obs, timeout_ms=args.timeout, jobs=args.jobs)):
                print('%-10s %s' % (r['status'], ob.name))
                bad += r['status'] != 'discharged'
    if bad:
        print('VIOLATION property=%s replay=%s no-failing-input-found' % (prop, args.replay))
        return 1
    return 0


if __name__ == '__main__':
    sys.exit(main())
