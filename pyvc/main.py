"""Command line: python3-vt -m pyvc.main <property|--fn qual> [--tier quick|thorough]"""
import argparse
import json
import os
import sys
import time

sys.setrecursionlimit(10000)


def main(argv=None):
    ap = argparse.ArgumentParser()
    ap.add_argument('target', nargs='?')
    ap.add_argument('--fn', action='append')
    ap.add_argument('--cls')
    ap.add_argument('--force', action='append', default=[], help='name=value: fix a case split (e.g. self_lp=_UCB1)')
    ap.add_argument('--tier', default=os.environ.get('VERIF_TIER', 'quick'))
    ap.add_argument('--timeout', type=int, default=20000)
    ap.add_argument('--jobs', type=int, default=16)
    ap.add_argument('-v', '--verbose', action='store_true')
    ap.add_argument('--write-baseline', action='store_true')
    ap.add_argument('--replay')
    ap.add_argument('--dump', help='write SMT-LIB of obligations whose name contains this string')
    args = ap.parse_args(argv)
    from . import verify, smt
    verify.load_specs()
    eng = verify.Engine()
    from . import report
    if args.fn:
        t0 = time.time()
        obs, probs = [], []
        for q in args.fn:
            o, p = eng.verify(q, args.cls, forced=dict(f.split('=') for f in args.force))
            obs += o
            probs += p
        obs = report.dedupe(obs)
        res = smt.discharge(obs, timeout_ms=args.timeout, jobs=args.jobs)
        for ob, r in zip(obs, res):
            if args.verbose or r['status'] != 'discharged':
                print('%-10s %6.2fs %s' % (r['status'], r['seconds'], ob.name))
                if r['status'] != 'discharged' and args.verbose:
                    print('    clause:', ob.meta.get('clause'))
                    print('    path:', [str(f)[:120] for f in getattr(ob, 'branch_terms', [])])
            if args.dump and args.dump in ob.name:
                open('/tmp/dump_%s.smt2' % abs(hash(ob.name)), 'w').write(ob.smt2)
                print('dumped', ob.name)
        for p in probs:
            print('PROBLEM', p)
        n = len(obs)
        d = sum(1 for r in res if r['status'] == 'discharged')
        print('%d obligations, %d discharged, %d problems, %.1fs' % (n, d, len(probs), time.time() - t0))
        return 0 if d == n and not probs else 2
    return report.run_property(eng, args.target, args)


if __name__ == '__main__':
    sys.exit(main())
