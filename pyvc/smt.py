"""SMT layer: sorts, spec functions with axioms, obligations and their discharge (z3 API, z3/cvc5 CLIs).

Encoding assumptions (DESIGN.md section 5): floats are mathematical reals (A1), ints are mathematical
integers (A2), arm labels are an uninterpreted sort with equality only (MT3).
"""
import os
import subprocess
import tempfile
import time
import z3

# --------------------------------------------------------------------------------------------- sorts
Arm = z3.DeclareSort('Arm')
ASeq = z3.DeclareSort('ASeq')      # sequences of arms (lists / 1-D arrays of labels, dict key orders)
RSeq = z3.DeclareSort('RSeq')      # sequences of reals (1-D numeric arrays / lists)
ISeq = z3.DeclareSort('ISeq')      # sequences of ints (index arrays, seeds, hash codes, cluster labels)
BSeq = z3.DeclareSort('BSeq')      # boolean masks
Mat = z3.DeclareSort('Mat')        # 2-D real arrays
Rng = z3.DeclareSort('RngState')   # state of a random stream
Opaque = z3.DeclareSort('Opaque')  # values the proofs never look into (estimators, callables, strings)
Int, Real, Bool = z3.IntSort(), z3.RealSort(), z3.BoolSort()

OptArm = z3.Datatype('OptArm')
OptArm.declare('none')
OptArm.declare('some', ('the', Arm))
OptArm = OptArm.create()

SORTS = {'Arm': Arm, 'ASeq': ASeq, 'RSeq': RSeq, 'ISeq': ISeq, 'BSeq': BSeq, 'Mat': Mat, 'Rng': Rng,
         'Opaque': Opaque, 'Int': Int, 'Real': Real, 'Bool': Bool, 'OptArm': OptArm}

NAN = z3.Const('NAN', Real)        # distinguished constant; no arithmetic is ever done on it in proofs

_counter = [0]


FRESH_LOG = []      # every fresh constant, in creation order (loop summaries generalise those made in a body)


def fresh(prefix, sort):
    _counter[0] += 1
    c = z3.Const('%s!%d' % (prefix, _counter[0]), sort)
    FRESH_LOG.append(c)
    return c


_bv = [0]


def bound(name, sort):
    """A bound-variable constant with a unique name (nested binders must not capture each other's variables)."""
    _bv[0] += 1
    return z3.Const('%s!b%d' % (name, _bv[0]), sort)


DEFS = {}      # lifted lambdas: array constant name -> (bound vars, body)


def lifted_lambda(vs, body, name='lam'):
    """lambda vs. body as a fresh array constant with the defining axiom  forall vs. arr[vs] == body
    (E-matching friendly; z3's native lambdas are incomplete when a lambda occurs inside its own index term)."""
    arr = fresh(name, z3.ArraySort(*[v.sort() for v in vs], body.sort()))
    DEFS[str(arr)] = (list(vs), body)
    axiom('def:' + str(arr), z3.ForAll(list(vs), arr[tuple(vs) if len(vs) > 1 else vs[0]] == body,
                                       patterns=[arr[tuple(vs) if len(vs) > 1 else vs[0]]]), [str(arr)], 'definitional')
    return arr


_iterx_done = set()


def iterx_fn(name, state_sort, arr_sorts):
    """iterx_g(init, i, A1..Ak): the state after i steps s -> g(s, A1[j], .., Ak[j]) for j = 0..i-1.
    By definition it depends on the first i entries of the argument arrays only (extensionality axiom, witness form)."""
    f = F(name, state_sort, Int, *arr_sorts, state_sort)
    key = (name, tuple(str(a) for a in arr_sorts))
    if key not in _iterx_done and arr_sorts:
        _iterx_done.add(key)
        s0 = z3.Const('s0', state_sort)
        i = z3.Int('i')
        As = [z3.Const('A%d' % k, a) for k, a in enumerate(arr_sorts)]
        Bs = [z3.Const('B%d' % k, a) for k, a in enumerate(arr_sorts)]
        w = z3.Function(name + '!diff', state_sort, Int, *arr_sorts, *arr_sorts, Int)(s0, i, *As, *Bs)
        differ = z3.Or(*[a[w] != b[w] for a, b in zip(As, Bs)])
        axiom(name + '.ext', z3.ForAll([s0, i] + As + Bs,
                                       z3.Or(f(s0, i, *As) == f(s0, i, *Bs), z3.And(0 <= w, w < i, differ)),
                                       patterns=[z3.MultiPattern(f(s0, i, *As), f(s0, i, *Bs))]), [name], 'definitional')
    return f


def fresh_fn(prefix, *sig):
    _counter[0] += 1
    return z3.Function('%s!%d' % (prefix, _counter[0]), *sig)


def reset_names():
    _counter[0] = 0
    del FRESH_LOG[:]
    for k in list(DEFS):
        del DEFS[k]
    AXIOMS[:] = [a for a in AXIOMS if not a[0].startswith('def:')]


# ------------------------------------------------------------------------------------ spec functions
FUNCS = {}
AXIOMS = []        # (name, formula, keys:set of function names, kind)


def F(name, *sig):
    """Declare (once) and return the uninterpreted spec function `name`."""
    if name not in FUNCS:
        FUNCS[name] = z3.Function(name, *sig)
    return FUNCS[name]


def axiom(name, formula, keys, kind='definitional'):
    AXIOMS.append((name, formula, set(keys), kind))


def _vars(*specs):
    return [z3.Const(n, s) for n, s in specs]


def forall(vs, body, pats=None):
    if pats:
        return z3.ForAll(vs, body, patterns=[p if isinstance(p, z3.PatternRef) or not isinstance(p, (list, tuple))
                                             else z3.MultiPattern(*p) for p in pats])
    return z3.ForAll(vs, body)


_sym_cache = {}


def _symbols(expr):
    """Names of the uninterpreted functions/constants of expr (cached per AST node)."""
    key = expr.get_id()
    hit = _sym_cache.get(key)
    if hit is not None and hit[0] is expr.ctx_ref() or hit is not None:
        return hit[1]
    acc = set()
    seen = set()
    todo = [expr]
    while todo:
        e = todo.pop()
        eid = e.get_id()
        if eid in seen:
            continue
        seen.add(eid)
        if z3.is_quantifier(e):
            todo.append(e.body())
            for i in range(e.num_patterns()):
                todo.append(e.pattern(i))
            continue
        if z3.is_app(e):
            d = e.decl()
            if d.kind() == z3.Z3_OP_UNINTERPRETED:
                acc.add(d.name())
            todo.extend(e.children())
    res = frozenset(acc)
    _sym_cache[key] = (expr, res)       # keeping expr alive keeps the id stable
    return res


def symbols_of(expr, acc=None, seen=None):
    """Names of uninterpreted functions/constants occurring in expr."""
    if acc is None:
        acc = set()
    acc |= _symbols(expr)
    return acc


_axiom_syms = {}


def relevant_axioms(formulas):
    syms = set()
    for f in formulas:
        syms |= _symbols(f)
    chosen = []
    chosen_names = set()
    changed = True
    while changed:
        changed = False
        for name, formula, keys, kind in AXIOMS:
            if name in chosen_names:
                continue
            if keys & syms:
                chosen.append((name, formula, kind))
                chosen_names.add(name)
                fs = _axiom_syms.get(name)
                if fs is None:
                    fs = _axiom_syms[name] = _symbols(formula)
                if not fs <= syms:
                    syms |= fs
                    changed = True
    return chosen


# ------------------------------------------------------------------------------------- obligations
class Obligation:
    """One verification condition: hyps /\\ axioms |= goal."""

    def __init__(self, name, func, kind, hyps, goal, props=(), detail='', expect_sat=False, meta=None):
        self.name = name            # module.Class.func:kind[:detail]
        self.func = func
        self.kind = kind
        self.hyps = list(hyps)
        self.goal = goal
        self.props = tuple(props)
        self.detail = detail
        self.expect_sat = expect_sat    # cover / vacuity queries: satisfiable is the good answer
        self.meta = meta or {}
        self.smt2 = None
        self.axioms_used = []

    def trivial(self):
        """the goal is literally one of the hypotheses (hash-consed terms): discharged without a solver"""
        if self.expect_sat:
            return False
        g = self.goal.get_id()
        if z3.is_true(self.goal):
            return True
        return any(h.get_id() == g for h in self.hyps)

    def compile(self):
        s = z3.Solver()
        forms = list(self.hyps) + [self.goal]
        ax = relevant_axioms(forms)
        self.axioms_used = [(n, k) for n, _, k in ax]
        for _, f, _ in ax:
            s.add(f)
        for h in self.hyps:
            s.add(h)
        if self.expect_sat:
            s.add(self.goal)
        else:
            s.add(z3.Not(self.goal))
        self.smt2 = s.to_smt2()
        return self.smt2


RLIMIT_EMATCH = int(os.environ.get('PYVC_RLIMIT', 3000000))
RLIMIT_DEFAULT = RLIMIT_EMATCH // 3


Z3_CLI = os.environ.get('PYVC_Z3', '/opt/veriftools/pyvenv/bin/z3')


def _z3_check(smt2, timeout_ms, ematch_only):
    """One z3 5.1 run in a child process (hard wall-clock limit: the child is killed) with a deterministic resource
    budget.  Returns (result, seconds, model, reason)."""
    opts = ['rlimit=%d' % (RLIMIT_EMATCH if ematch_only else RLIMIT_DEFAULT)]
    if ematch_only:
        opts += ['smt.mbqi=false', 'smt.auto_config=false']
    with tempfile.NamedTemporaryFile('w', suffix='.smt2', delete=False, dir=os.environ.get('PYVC_TMP')) as f:
        f.write(smt2)
        f.write('\n(get-info :reason-unknown)\n')
        path = f.name
    t0 = time.time()
    try:
        try:
            p = subprocess.run([Z3_CLI, '-smt2', '-T:%d' % max(1, int(timeout_ms / 1000))] + opts + [path],
                               capture_output=True, text=True, timeout=timeout_ms / 1000.0 + 3)
            out = (p.stdout or '').strip().splitlines()
        except subprocess.TimeoutExpired:
            out = ['timeout']
    finally:
        os.unlink(path)
    dt = time.time() - t0
    res = out[0].strip() if out else 'unknown'
    reason = ' '.join(out[1:])[:200] if len(out) > 1 else ''
    if res not in ('sat', 'unsat'):
        if res == 'timeout':
            reason = 'timeout'
        res = 'unknown'
    return res, dt, None, reason


def solve_smt2_z3api(smt2, timeout_ms, expect_sat=False):
    """Two attempts: pure E-matching (answers at once when instantiation saturates), then z3's default
    configuration.  'unknown' with saturated instantiation is reported with reason 'saturated': the obligation is
    not provable from the axioms by instantiation and a candidate counter-model exists."""
    if expect_sat:
        # vacuity guard: is a contradiction derivable from the hypotheses?  (budget 3 s; a model is not required)
        r, dt, model, reason = _z3_check(smt2, min(timeout_ms, 3000), True)
        if r in ('unsat', 'sat'):
            return r, dt, model, reason
        return 'unknown', dt, None, 'saturated'
    # stage 1 is governed by its resource limit and normally answers within seconds; a query on which z3 spends its time
    # outside the resource accounting is handed to stage 2 after 20 s instead of waiting for the full backstop
    r, dt, model, reason = _z3_check(smt2, min(timeout_ms, 20000), True)
    if r in ('unsat', 'sat'):
        return r, dt, model, reason
    saturated = 'incomplete' in reason
    r2, dt2, model2, reason2 = _z3_check(smt2, min(timeout_ms, 4000) if saturated else timeout_ms, False)
    if r2 in ('unsat', 'sat'):
        return r2, dt + dt2, model2, reason2
    return 'unknown', dt + dt2, None, 'saturated' if saturated else (reason2 or reason)


def solve_smt2_cli(smt2, tool, timeout_s):
    """tool in {'cvc5', 'z3-old'}; returns ('sat'|'unsat'|'unknown', seconds)."""
    with tempfile.NamedTemporaryFile('w', suffix='.smt2', delete=False, dir=os.environ.get('PYVC_TMP')) as f:
        f.write(smt2)
        path = f.name
    try:
        if tool == 'cvc5':
            cmd = ['/usr/bin/cvc5', '--tlimit=%d' % int(timeout_s * 1000), '--full-saturate-quant', path]
        else:
            cmd = ['/usr/bin/z3', '-T:%d' % int(timeout_s), path]
        t0 = time.time()
        try:
            p = subprocess.run(cmd, capture_output=True, text=True, timeout=timeout_s + 5)
            out = (p.stdout or '').strip().splitlines()
            res = out[0].strip() if out else 'unknown'
        except subprocess.TimeoutExpired:
            res = 'unknown'
        if res not in ('sat', 'unsat'):
            res = 'unknown'
        return res, time.time() - t0
    finally:
        os.unlink(path)


def _worker(args):
    idx, smt2, timeout_ms, expect_sat, backends = args
    res, dt, model, reason = solve_smt2_z3api(smt2, timeout_ms, expect_sat)
    backend = 'z3-5.1(api)'
    extra = {}
    if expect_sat and res == 'unknown' and reason == 'saturated':
        pass
    elif res == 'unknown' and 'cvc5' in backends and '(lambda ' not in smt2:
        r2, dt2 = solve_smt2_cli(smt2, 'cvc5', 5.0 if reason == 'saturated' else timeout_ms / 1000.0)
        extra['cvc5'] = (r2, dt2)
        if r2 == 'unsat' or (expect_sat and r2 == 'sat'):
            res, backend, dt = r2, 'cvc5-1.0.3', dt + dt2
    elif 'crosscheck' in backends:
        r2, dt2 = solve_smt2_cli(smt2, 'cvc5', timeout_ms / 1000.0)
        extra['cvc5'] = (r2, dt2)
    return idx, res, dt, model, reason, backend, extra


def discharge(obligations, timeout_ms=20000, jobs=None, backends=('cvc5',)):
    """Discharge all obligations; returns list of result dicts aligned with `obligations`."""
    import multiprocessing as mp
    jobs = jobs or min(16, os.cpu_count() or 1)
    tasks = []
    for i, ob in enumerate(obligations):
        if ob.smt2 is None:
            ob.compile()
        tasks.append((i, ob.smt2, timeout_ms, ob.expect_sat, tuple(backends)))
    results = [None] * len(obligations)
    if jobs > 1 and len(tasks) > 1:
        with mp.get_context('fork').Pool(jobs) as pool:
            for idx, res, dt, model, reason, backend, extra in pool.imap_unordered(_worker, tasks, chunksize=1):
                results[idx] = dict(result=res, seconds=dt, model=model, reason=reason, backend=backend, extra=extra)
    else:
        for t in tasks:
            idx, res, dt, model, reason, backend, extra = _worker(t)
            results[idx] = dict(result=res, seconds=dt, model=model, reason=reason, backend=backend, extra=extra)
    for ob, r in zip(obligations, results):
        if ob.expect_sat:
            # cover queries: a saturated 'unknown' is a candidate model, good enough to show non-vacuity
            r['status'] = {'sat': 'discharged', 'unsat': 'refuted',
                           'unknown': 'discharged' if r['reason'] == 'saturated' else 'undecided'}[r['result']]
        else:
            r['status'] = {'unsat': 'discharged', 'sat': 'refuted',
                           'unknown': 'unproved' if r['reason'] == 'saturated' else 'undecided'}[r['result']]
    return results
