"""Algebraic laws of the spec functions used only by the lemma programs (C06, C20): concatenation, permutation,
shift and scale.  Each is an axiom of kind 'lemma' for the SMT back end and a theorem proved in Lean 4 / Mathlib over
the list model of the sequence sorts (lemmas/lean/SeqLaws.lean, checked by the thorough tier; LEAN maps axiom name to
theorem name).  They are keyed on symbols that occur only in lemma programs and in the history-append code of the
neighbourhood policies, so the per-function obligations of the other modules never see them.
"""
import z3
from .smt import F, Arm, ASeq, RSeq, ISeq, BSeq, Mat, Int, Real, Bool, axiom, forall
from . import theory as T
from .lib import mrows, mcols
from .libnp import radd, rshift, rscale
from . import liblinalg as LA

A_, B_, X_ = z3.Consts('A B X', Mat)
u_, v_, w_ = z3.Consts('u v w', RSeq)
m_, n_ = z3.Consts('m n', BSeq)
LEAN = {}


def law(name, formula, keys, lean):
    axiom(name, formula, keys, 'lemma')
    LEAN[name] = lean


law('msel.concat', forall([A_, B_, m_, n_], z3.Implies(
    mrows(A_) == T.blen(m_),
    LA.msel(LA.mvstack(A_, B_), T.bconcat(m_, n_)) == LA.mvstack(LA.msel(A_, m_), LA.msel(B_, n_))),
    [LA.msel(LA.mvstack(A_, B_), T.bconcat(m_, n_))]), ['mvstack'], 'msel_concat')
law('mvstack.empty.left', forall([A_, B_], z3.Implies(z3.And(mrows(A_) == 0, mcols(A_) == mcols(B_)),
                                                      LA.mvstack(A_, B_) == B_), [LA.mvstack(A_, B_)]),
    ['mvstack'], 'vstack_empty_left')
law('mvstack.empty.right', forall([A_, B_], z3.Implies(z3.And(mrows(B_) == 0, mcols(A_) == mcols(B_)),
                                                       LA.mvstack(A_, B_) == A_), [LA.mvstack(A_, B_)]),
    ['mvstack'], 'vstack_empty_right')


def gram(M):
    return LA.mdot(LA.mT(M), M)


def xty(M, y):
    return LA.matvec(LA.mT(M), y)


# X + (A;B)'(A;B) = (X + A'A) + B'B        (Gram matrix of stacked rows, folded into the accumulator)
law('gram.vstack.acc', forall([X_, A_, B_], z3.Implies(
    mcols(A_) == mcols(B_),
    LA.madd(X_, gram(LA.mvstack(A_, B_))) == LA.madd(LA.madd(X_, gram(A_)), gram(B_))),
    [LA.madd(X_, gram(LA.mvstack(A_, B_)))]), ['mvstack'], 'gram_vstack_acc')
law('xty.vstack.acc', forall([w_, A_, B_, u_, v_], z3.Implies(
    z3.And(mrows(A_) == T.rlen(u_), mcols(A_) == mcols(B_)),
    radd(w_, xty(LA.mvstack(A_, B_), T.rconcat(u_, v_))) == radd(radd(w_, xty(A_, u_)), xty(B_, v_))),
    [radd(w_, xty(LA.mvstack(A_, B_), T.rconcat(u_, v_)))]), ['mvstack'], 'xty_vstack_acc')
law('rconcat.empty.left', forall([u_, v_], z3.Implies(T.rlen(u_) == 0, T.rconcat(u_, v_) == v_), [T.rconcat(u_, v_)]),
    ['rconcat'], 'concat_empty_left')
law('rconcat.empty.right', forall([u_, v_], z3.Implies(T.rlen(v_) == 0, T.rconcat(u_, v_) == u_), [T.rconcat(u_, v_)]),
    ['rconcat'], 'concat_empty_right')

# ---- permutations of the rows (C20): perm is a permutation of 0..n-1, x[perm] is NumPy fancy indexing
from .lib import ilen      # noqa: E402
p_ = z3.Const('p', ISeq)
s_ = z3.Const('s', ASeq)
a_ = z3.Const('a', Arm)
k_ = z3.Int('k')
x_ = z3.Real('x')
isperm = F('isperm', ISeq, Int, Bool)
law('isperm.len', forall([p_, k_], z3.Implies(isperm(p_, k_), ilen(p_) == k_), [isperm(p_, k_)]), ['isperm'], 'perm_len')
# the number of rows of an arm and the sum of its rewards do not depend on the row order
law('perm.cnt', forall([s_, p_, a_], z3.Implies(
    isperm(p_, T.alen(s_)), T.bcnt(T.eqmask(LA.atake(s_, p_), a_)) == T.bcnt(T.eqmask(s_, a_))),
    [T.eqmask(LA.atake(s_, p_), a_)]), ['isperm'], 'perm_cnt_take')
law('perm.mem', forall([s_, p_, a_], z3.Implies(
    isperm(p_, T.alen(s_)), T.amem(LA.atake(s_, p_), a_) == T.amem(s_, a_)),
    [T.amem(LA.atake(s_, p_), a_)]), ['isperm'], 'perm_mem_take')
law('perm.selsum', forall([s_, u_, p_, a_], z3.Implies(
    z3.And(isperm(p_, T.alen(s_)), T.alen(s_) == T.rlen(u_)),
    T.rsum(T.rsel(LA.rtake(u_, p_), T.eqmask(LA.atake(s_, p_), a_))) == T.rsum(T.rsel(u_, T.eqmask(s_, a_)))),
    [T.rsel(LA.rtake(u_, p_), T.eqmask(LA.atake(s_, p_), a_))]), ['isperm'], 'perm_sum_take')
law('perm.gram', forall([s_, A_, p_, a_], z3.Implies(
    z3.And(isperm(p_, T.alen(s_)), T.alen(s_) == mrows(A_)),
    gram(LA.msel(LA.mtake(A_, p_), T.eqmask(LA.atake(s_, p_), a_))) == gram(LA.msel(A_, T.eqmask(s_, a_)))),
    [LA.msel(LA.mtake(A_, p_), T.eqmask(LA.atake(s_, p_), a_))]), ['isperm'], 'perm_gram_take')
law('perm.xty', forall([s_, A_, u_, p_, a_], z3.Implies(
    z3.And(isperm(p_, T.alen(s_)), T.alen(s_) == mrows(A_), T.alen(s_) == T.rlen(u_)),
    xty(LA.msel(LA.mtake(A_, p_), T.eqmask(LA.atake(s_, p_), a_)),
        T.rsel(LA.rtake(u_, p_), T.eqmask(LA.atake(s_, p_), a_))) ==
    xty(LA.msel(A_, T.eqmask(s_, a_)), T.rsel(u_, T.eqmask(s_, a_)))),
    [xty(LA.msel(LA.mtake(A_, p_), T.eqmask(LA.atake(s_, p_), a_)),
         T.rsel(LA.rtake(u_, p_), T.eqmask(LA.atake(s_, p_), a_)))]), ['isperm'], 'perm_xty_take')

# ---- reward shift and scale (C20)
# the mean of the selected rewards shifts by the constant (sum shifts by x * count, divided by the count)
law('shift.selmean', forall([u_, m_, x_], z3.Implies(
    z3.And(T.rlen(u_) == T.blen(m_), T.bcnt(m_) > 0),
    T.rsum(T.rsel(rshift(u_, x_), m_)) / z3.ToReal(T.bcnt(m_)) == T.rsum(T.rsel(u_, m_)) / z3.ToReal(T.bcnt(m_)) + x_),
    [T.rsel(rshift(u_, x_), m_)]), ['rshift'], 'shift_sel_mean')
law('scale.selsum', forall([u_, m_, x_], T.rsum(T.rsel(rscale(x_, u_), m_)) == x_ * T.rsum(T.rsel(u_, m_)),
                           [T.rsel(rscale(x_, u_), m_)]), ['rscale'], 'scale_sel_sum')
law('scale.sel', forall([u_, m_, x_], T.rsel(rscale(x_, u_), m_) == rscale(x_, T.rsel(u_, m_)),
                        [T.rsel(rscale(x_, u_), m_)]), ['rscale'], 'sel_map')
law('scale.xty', forall([A_, u_, x_], xty(A_, rscale(x_, u_)) == rscale(x_, xty(A_, u_)), [xty(A_, rscale(x_, u_))]),
    ['rscale'], 'scale_xty')
law('scale.matvec', forall([A_, u_, x_], LA.matvec(A_, rscale(x_, u_)) == rscale(x_, LA.matvec(A_, u_)),
                           [LA.matvec(A_, rscale(x_, u_))]), ['rscale'], 'scale_matvec')
law('scale.vdot', forall([u_, v_, x_], LA.vdot(u_, rscale(x_, v_)) == x_ * LA.vdot(u_, v_), [LA.vdot(u_, rscale(x_, v_))]),
    ['rscale'], 'scale_vdot')
law('scale.radd.zeros', forall([k_, u_, x_], radd(LA.zeros(k_), rscale(x_, u_)) == rscale(x_, radd(LA.zeros(k_), u_)),
                               [radd(LA.zeros(k_), rscale(x_, u_))]), ['rscale'], 'scale_add_zeros')

# definitional axioms of pyvc/theory.py and pyvc/specfns.py that are theorems of the same model
LEAN.update({'rconcat.sum': 'rconcat_sum', 'bconcat.cnt': 'bconcat_cnt', 'eqmask.concat': 'eqmask_concat',
             'rsel.concat': 'sel_concat', 'rsel.len': 'sel_len', 'binarized.concat': 'binarized_concat'})

# ---- positions of a value in a concatenated sequence (LSH tables under partial_fit, C06 / C11)
from .libnp import reqmask as _reqmask      # noqa: E402
from .specfns import hashes as _hashes      # noqa: E402
h_ = z3.Real('h')
P_ = z3.Const('P', Mat)
law('where.hashes.vstack', forall([A_, B_, P_, h_], z3.Implies(
    mcols(A_) == mcols(B_),
    LA.where(_reqmask(_hashes(LA.mvstack(A_, B_), P_), h_)) ==
    LA.iconcat(LA.where(_reqmask(_hashes(A_, P_), h_)), LA.ishift(LA.where(_reqmask(_hashes(B_, P_), h_)), mrows(A_)))),
    [LA.where(_reqmask(_hashes(LA.mvstack(A_, B_), P_), h_))]), ['lsh_hashes'], 'where_hashes_vstack')

# ---- a sequence is its prefix followed by the rest (train / test split of the simulator, C16)
t_ = z3.Int('t')
law('aslice.split', forall([s_, t_], z3.Implies(z3.And(0 <= t_, t_ <= T.alen(s_)),
                                                T.aconcat(T.aslice(s_, 0, t_), T.aslice(s_, t_, T.alen(s_))) == s_),
                           [T.aslice(s_, 0, t_)]), ['aslice'], 'take_append_drop')
law('rslice.split', forall([u_, t_], z3.Implies(z3.And(0 <= t_, t_ <= T.rlen(u_)),
                                                T.rconcat(T.rslice(u_, 0, t_), T.rslice(u_, t_, T.rlen(u_))) == u_),
                           [T.rslice(u_, 0, t_)]), ['rslice'], 'take_append_drop')
