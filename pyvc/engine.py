"""PyVC symbolic executor: runs the real AST of a function against its sidecar contract and emits VCs.

Path enumeration is by deterministic re-execution along a decision script (one straight-line run per path).
Calls to functions under contract use the contract (assert requires, havoc modifies, assume ensures); loops over
symbolic sequences are summarised functionally (map-loop rule) or through an explicit invariant.
"""
import ast
import os
import z3
from . import smt, spec as specmod
from .smt import Arm, ASeq, RSeq, ISeq, BSeq, Mat, Rng, Opaque, Int, Real, Bool, OptArm, fresh, Obligation
from .values import *     # noqa
from . import theory as T


class ReturnSignal(Exception):
    def __init__(self, value):
        self.value = value


class ContinueSignal(Exception):
    pass


class BreakSignal(Exception):
    pass


class PathCtx:
    def __init__(self, script):
        self.script = list(script)
        self.pos = 0
        self.taken = []
        self.alternatives = []

    def choice(self, n):
        if n <= 1:
            return 0
        if self.pos < len(self.script):
            d = self.script[self.pos]
        else:
            d = 0
            for alt in range(1, n):
                self.alternatives.append(self.taken + [alt])
        self.pos += 1
        self.taken.append(d)
        return d


_feas_cache = {}
QUICK_RLIMIT = int(os.environ.get('PYVC_QUICK_RLIMIT', '400000'))


def feasible(pc, timeout_ms=400):
    """Cheap pruning of infeasible paths; 'unknown' counts as feasible."""
    if not pc:
        return True
    s = z3.Solver()
    # a deterministic resource budget decides (the wall-clock limit is only a backstop), so that the set of
    # explored paths does not depend on machine load
    s.set('rlimit', QUICK_RLIMIT)
    s.set('timeout', timeout_ms * 25)
    s.set('smt.mbqi', False)
    s.set('smt.auto_config', False)
    for _, f, _ in smt.relevant_axioms(pc):
        s.add(f)
    for f in pc:
        s.add(f)
    return s.check() != z3.unsat


def to_bool_term(v):
    """Python truthiness of a symbolic value as a z3 Bool."""
    if isinstance(v, BoolV):
        return v.term
    if isinstance(v, Num):
        return v.term != 0
    if isinstance(v, NoneV):
        return z3.BoolVal(False)
    if isinstance(v, StrV):
        return z3.BoolVal(bool(v.s))
    if isinstance(v, OpaqueV):
        # an opaque value obtained from an Optional: truthiness == "is not None" (callables, strings, estimators)
        return z3.Not(T_isnone(v.term))
    if isinstance(v, (FuncRef, ClassRef, LibRef)):
        return z3.BoolVal(True)
    if isinstance(v, SeqV) and v.pylist:
        return _seq_len(v) > 0
    if isinstance(v, TupleV):
        return z3.BoolVal(len(v.items) > 0)
    if isinstance(v, RecordV):
        return z3.BoolVal(len(v.fields) > 0)
    if isinstance(v, (ArmV, OptArmV)):
        # `if arm:` / `not arm` distinguishes the labels 0, 0.0 and '' from all others (C20, MT3)
        raise Unsupported('arm-parametric: truth value of an arm label')
    raise Unsupported('truthiness of %r' % (v,))


T_isnone = smt.F('is_none', Opaque, Bool)


def _seq_len(v):
    return {'A': T.alen, 'R': T.rlen, 'B': T.blen, 'I': smt.F('ilen', ISeq, Int)}[v.kind](v.term)


class Frame:
    def __init__(self, fi, env, self_cls):
        self.fi = fi
        self.env = env
        self.self_cls = self_cls     # dynamic class of self (for super() and dispatch)


class Run:
    """One path through one function."""

    def __init__(self, engine, path):
        self.eng = engine
        self.repo = engine.repo
        self.path = path
        self.st = State()
        self.entry = None
        self.frames = []
        self.obligs = []
        self.spec_mode = 0
        self.old_state = None
        self.fname = ''
        self.label = ''
        self.depth = 0
        self.cur_props = ()

    # --------------------------------------------------------------------------------------- helpers
    @property
    def env(self):
        return self.frames[-1].env

    def branch(self, cond):
        cond = z3.simplify(cond)
        if z3.is_true(cond):
            return True
        if z3.is_false(cond):
            return False
        d = self.path.choice(2)
        c = cond if d == 0 else z3.Not(cond)
        self.st.assume(c, 'B')
        if self.eng.prune and not feasible(self.st.pc):
            raise Infeasible()
        return d == 0

    def entails(self, f, timeout_ms=500):
        """pc |= f, decided by a quick solver call (used to keep terms simple, never to discharge obligations)."""
        f = z3.simplify(f)
        if z3.is_true(f):
            return True
        if z3.is_false(f):
            return False
        s = z3.Solver()
        s.set('rlimit', QUICK_RLIMIT)
        s.set('timeout', timeout_ms * 20)
        s.set('smt.mbqi', False)
        s.set('smt.auto_config', False)
        forms = list(self.st.pc) + [z3.Not(f)]
        for _, ax, _ in smt.relevant_axioms(forms):
            s.add(ax)
        for g in forms:
            s.add(g)
        return s.check() == z3.unsat

    def truth(self, v):
        if isinstance(v, Ref):
            o = self.deref(v)
            if isinstance(o, Obj):
                ci = self.repo.classes.get(o.cls)
                if ci is not None and 'NamedTuple' in ci.bases:
                    return len(o.fields) > 0        # a namedtuple is truthy when it has fields
                return True
            if isinstance(o, ListO):
                return len(o.items) > 0
            if isinstance(o, MapO):
                return self.branch(T.alen(o.keys) > 0)
            if isinstance(o, SeqO):
                return self.branch(_seq_len(SeqV(o.skind, o.term)) > 0)
            if isinstance(o, SymListO):
                return self.branch(o.length > 0)
        return self.branch(to_bool_term(v))

    def emit(self, kind, goal, detail='', props=None, extra_hyps=(), meta=None):
        name = '%s:%s%s' % (self.label, kind, (':' + detail) if detail else '')
        ob = Obligation(name, self.fname, kind, list(self.st.pc) + list(extra_hyps), goal,
                        props=props if props is not None else self.cur_props, detail=detail, meta=meta)
        ob.path = list(self.path.taken)
        ob.branch_terms = [f for f, k in zip(self.st.pc, self.st.pck) if k == 'B'][-12:]     # printed on demand
        self.obligs.append(ob)
        return ob

    def note(self, what):
        self.st.notes.append(what)

    def explore(self, start, body):
        """Run body() from clones of `start` along every path; returns [(kind, payload, state, pathctx)].
        kind: 'ok' (payload = body's return value) | 'raise' (payload = PyRaise)."""
        saved_st, saved_path = self.st, self.path
        saved_frames = list(self.frames)
        saved_env = dict(self.frames[-1].env) if self.frames else None
        out = []
        scripts = [[]]
        try:
            while scripts:
                script = scripts.pop()
                self.st = start.clone()
                self.path = PathCtx(script)
                self.frames = list(saved_frames)
                if saved_env is not None:
                    self.frames[-1] = Frame(saved_frames[-1].fi, dict(saved_env), saved_frames[-1].self_cls)
                try:
                    r = body()
                    out.append(('ok', r, self.st, self.path, dict(self.frames[-1].env)))
                except PyRaise as e:
                    out.append(('raise', e, self.st, self.path, dict(self.frames[-1].env)))
                except Infeasible:
                    pass
                scripts.extend(self.path.alternatives)
                if len(out) > 2000:
                    raise Unsupported('path explosion')
        finally:
            self.st, self.path = saved_st, saved_path
            self.frames = saved_frames
        return out

    # ---------------------------------------------------------------------------------------- heap
    def deref(self, ref):
        return self.st.heap[ref.loc]

    def write_field(self, ref, name, val):
        o = self.st.heap[ref.loc]
        self.st.heap[ref.loc] = o.set(name, val)
        self.st.written.add((ref.loc, name))

    def set_heap(self, loc, obj, what='*'):
        self.st.heap[loc] = obj
        self.st.written.add((loc, what))

    def deepcopy(self, v, memo=None):
        memo = {} if memo is None else memo
        if isinstance(v, Ref):
            if v.loc in memo:
                return memo[v.loc]
            o = self.st.heap[v.loc]
            r = self.st.alloc(None)
            memo[v.loc] = r
            if isinstance(o, Obj):
                no = Obj(o.cls, {k: self.deepcopy(x, memo) for k, x in o.fields.items()})
            elif isinstance(o, MapO):
                no = MapO(o.keys, o.cols, o.vkinds, o.record_cls)
            elif isinstance(o, ListO):
                no = ListO([self.deepcopy(x, memo) for x in o.items])
            elif isinstance(o, SeqO):
                no = SeqO(o.skind, o.term)
            elif isinstance(o, SymListO):
                no = SymListO(o.length, o.elems, o.ekind)
            else:
                raise Unsupported('deepcopy of ' + type(o).__name__)
            self.st.heap[r.loc] = no
            return r
        if isinstance(v, EntryRef):
            return self.eng.lib.entry_to_obj(self, v)
        if isinstance(v, TupleV):
            return TupleV([self.deepcopy(x, memo) for x in v.items])
        if isinstance(v, RecordV):
            return RecordV({k: self.deepcopy(x, memo) for k, x in v.fields.items()})
        return v

    # ------------------------------------------------------------------------------------ materialise
    def mk(self, desc, name):
        """Create a symbolic value of the declared kind."""
        return self.eng.materialise(self, desc, name)

    # ------------------------------------------------------------------------------------- statements
    def exec_block(self, stmts):
        for s in stmts:
            self.exec_stmt(s)

    def exec_stmt(self, s):
        m = getattr(self, 'st_' + type(s).__name__, None)
        if m is None:
            raise Unsupported('statement %s at line %d' % (type(s).__name__, s.lineno))
        return m(s)

    def st_Pass(self, s):
        pass

    def st_Expr(self, s):
        if isinstance(s.value, ast.Constant):
            return
        self.ev(s.value)

    def st_Return(self, s):
        raise ReturnSignal(self.ev(s.value) if s.value is not None else NONE)

    def st_Continue(self, s):
        raise ContinueSignal()

    def st_Break(self, s):
        raise BreakSignal()

    def st_Assign(self, s):
        v = self.ev(s.value)
        for t in s.targets:
            self.assign(t, v)

    def st_AnnAssign(self, s):
        if s.value is not None:
            self.assign(s.target, self.ev(s.value))

    def st_AugAssign(self, s):
        if isinstance(s.target, ast.Subscript) and isinstance(s.target.slice, ast.Slice) and isinstance(s.op, ast.Add):
            base = self.ev(s.target.value)
            if isinstance(base, SeqV) and base.kind == 'I':
                from .liblinalg import iseq_slice_iadd
                new = iseq_slice_iadd(self.eng.lib, self, base, self.ev_slice(s.target.slice), self.ev(s.value))
                self.assign(s.target.value, new)
                return
        cur = self.ev(_load(s.target))
        rhs = self.ev(s.value)
        new = self.eng.lib.binop(self, type(s.op).__name__, cur, rhs, inplace=True)
        self.assign(s.target, new)

    def st_If(self, s):
        if self.truth(self.ev(s.test)):
            self.exec_block(s.body)
        else:
            self.exec_block(s.orelse)

    def st_Raise(self, s):
        et = 'Exception'
        if s.exc is not None:
            e = s.exc
            if isinstance(e, ast.Name) and e.id in self.env:
                v = self.env[e.id]          # `raise exception` with the exception object passed in (check_true)
                if isinstance(v, OpaqueV) and v.what.startswith('exc:'):
                    et = v.what[4:]
            else:
                if isinstance(e, ast.Call):
                    e = e.func
                if isinstance(e, ast.Name):
                    et = e.id
        raise PyRaise(et, 'line %d' % s.lineno)

    def st_For(self, s):
        from .loops import exec_for
        exec_for(self, s)

    def st_Try(self, s):
        from .loops import exec_try
        exec_try(self, s)

    # ------------------------------------------------------------------------------------ assignment
    def assign(self, target, v):
        if isinstance(target, ast.Name):
            self.env[target.id] = v
        elif isinstance(target, (ast.Tuple, ast.List)):
            items = self.eng.lib.unpack(self, v, len(target.elts))
            for t, x in zip(target.elts, items):
                self.assign(t, x)
        elif isinstance(target, ast.Attribute):
            base = self.ev(target.value)
            self.setattr(base, target.attr, v)
        elif isinstance(target, ast.Subscript):
            base = self.ev(target.value)
            key = self.ev_slice(target.slice)
            newbase = self.eng.lib.setitem(self, base, key, v)
            if newbase is not None:
                # value types (ndarray treated as immutable value): rebind the base expression
                self.assign(target.value, newbase)
        else:
            raise Unsupported('assignment target %s' % type(target).__name__)

    def setattr(self, base, attr, v):
        if not self.spec_mode and isinstance(v, Lazy) and v.kind in ('lambda', 'genexp'):
            # C19: what a bandit stores must survive copy.deepcopy and pickle (no lambdas, generators, local functions)
            raise Unsupported('copy-universe: attribute %s is assigned a %s, which cannot be pickled' % (attr, v.kind))
        if isinstance(base, Ref):
            o = self.deref(base)
            if isinstance(o, Obj):
                self.write_field(base, attr, v)
                return
        if isinstance(base, EntryRef):
            m = self.st.heap[base.loc]
            self.eng.lib.entry_set(self, base, attr, v)
            return
        if isinstance(base, OpaqueV):
            # attribute store on an opaque library object (e.g. tree.rng = rng): no effect on any view
            self.note('opaque-attr-store:' + attr)
            return
        raise Unsupported('attribute store on %r' % (base,))

    # ------------------------------------------------------------------------------------ expressions
    def ev(self, n):
        m = getattr(self, 'ex_' + type(n).__name__, None)
        if m is None:
            raise Unsupported('expression %s at line %d' % (type(n).__name__, getattr(n, 'lineno', 0)))
        return m(n)

    def ev_slice(self, sl):
        if isinstance(sl, ast.Slice):
            return ('slice', self.ev(sl.lower) if sl.lower else None, self.ev(sl.upper) if sl.upper else None,
                    self.ev(sl.step) if sl.step else None)
        if isinstance(sl, ast.Tuple):
            return ('tuple', [self.ev_slice(e) for e in sl.elts])
        return self.ev(sl)

    def ex_Constant(self, n):
        return const_val(n.value)

    def ex_Name(self, n):
        name = n.id
        if name in self.env:
            return self.env[name]
        return self.eng.resolve_global(self, self.frames[-1].fi.module if self.frames[-1].fi else None, name)

    def ex_Attribute(self, n):
        base = self.ev(n.value)
        return self.getattr(base, n.attr, n)

    def getattr(self, base, attr, node=None):
        if isinstance(base, Ref):
            o = self.deref(base)
            if isinstance(o, Obj):
                if attr.startswith('__') and not attr.endswith('__'):
                    pass
                if attr in o.fields:
                    return o.fields[attr]
                if o.cls in self.eng.lib_classes:
                    return LibRef(o.cls + '.' + attr, base)
                # name-mangled private attribute / method
                cands = [attr]
                if attr.startswith('__') and not attr.endswith('__') and self.frames[-1].fi and self.frames[-1].fi.cls:
                    cands.append('_%s%s' % (self.frames[-1].fi.cls.split('.')[-1], attr))
                for a in cands:
                    fi = self.repo.lookup_method(o.cls, a) or self.repo.lookup_method(o.cls, attr)
                    if fi is not None:
                        if fi.is_property:
                            return self.call_user(fi, base, [], {}, dyn_cls=o.cls)
                        if fi.is_static:
                            return FuncRef(fi.qual, None)
                        return FuncRef(fi.qual, base)
                ca, _ = self.repo.lookup_class_attr(o.cls, attr)
                if ca is not None:
                    return self.eng.class_attr_value(self, o.cls, attr)
                if self.spec_mode:
                    raise Unsupported('spec reads undeclared field %s.%s' % (o.cls, attr))
                if o.cls in specmod.CLASSES and attr not in specmod.class_fields(self.repo, o.cls):
                    if attr in self.repo.assigned_attrs(o.cls):
                        # a field the code assigns but the contracts do not describe (e.g. a cache added by an edit):
                        # no invariant constrains it, so it holds an arbitrary value -- None or anything else
                        if self.path.choice(2) == 0:
                            v = NONE
                        else:
                            v = OpaqueV(fresh('unk_' + attr, Opaque), 'unknown')
                        self.st.heap[base.loc] = o.set(attr, v)
                        return v
                    raise PyRaise('AttributeError', "'%s' object has no attribute '%s'" % (o.cls, attr))
                raise Unsupported('attribute %s of %s object (undeclared field?)' % (attr, o.cls))
            return self.eng.lib.getattr(self, base, o, attr)
        if isinstance(base, ClassRef):
            ci = self.repo.classes.get(base.name)
            if ci is not None:
                if (base.name + '.' + attr) in self.repo.classes:
                    return ClassRef(base.name + '.' + attr)
                fi = self.repo.lookup_method(base.name, attr)
                if fi is not None:
                    return FuncRef(fi.qual, None, static_cls=base.name)
                ca, _ = self.repo.lookup_class_attr(base.name, attr)
                if ca is not None:
                    return self.eng.class_attr_value(self, base.name, attr)
            raise Unsupported('class attribute %s.%s' % (base.name, attr))
        if isinstance(base, SuperRef):
            fi = self.repo.lookup_method(self.deref(base.self_val).cls, attr, after=base.cls)
            if fi is None:
                raise Unsupported('super().%s' % attr)
            return FuncRef(fi.qual, base.self_val)
        return self.eng.lib.getattr(self, base, None, attr)

    def ex_Subscript(self, n):
        base = self.ev(n.value)
        key = self.ev_slice(n.slice)
        return self.eng.lib.getitem(self, base, key)

    def ex_Call(self, n):
        # joblib idiom: Parallel(...)(delayed(f)(args) for x in xs)
        if isinstance(n.func, ast.Call) and isinstance(n.func.func, ast.Name) and n.func.func.id == 'Parallel':
            from .loops import exec_parallel
            return exec_parallel(self, n)
        if self.spec_mode and isinstance(n.func, ast.Name):
            from . import specfns
            if n.func.id in specfns.FORMS and n.func.id not in self.env:
                return specfns.FORMS[n.func.id](self, n)
        if isinstance(n.func, ast.Name) and n.func.id == 'super' and not n.args:
            fr = self.frames[-1]
            return SuperRef(fr.env['self'], fr.fi.cls)
        f = self.ev(n.func)
        args = []
        for a in n.args:
            if isinstance(a, ast.Starred):
                raise Unsupported('*args call')
            if isinstance(a, ast.GeneratorExp):
                args.append(Lazy('genexp', a, dict(self.env)))
            else:
                args.append(self.ev(a))
        kwargs = {}
        for k in n.keywords:
            if k.arg is None:
                kwargs['**'] = self.ev(k.value)
            else:
                kwargs[k.arg] = self.ev(k.value)
        return self.call(f, args, kwargs, n)

    def call(self, f, args, kwargs, node=None):
        if isinstance(f, FuncRef):
            fi = self.repo.funcs[f.qual]
            dyn = None
            if f.self_val is not None and isinstance(f.self_val, Ref):
                dyn = self.deref(f.self_val).cls
            return self.call_user(fi, f.self_val, args, kwargs, dyn_cls=dyn)
        if isinstance(f, ClassRef):
            return self.eng.construct(self, f.name, args, kwargs)
        if isinstance(f, LibRef):
            return self.eng.lib.call(self, f.name, f.recv, args, kwargs, node)
        if isinstance(f, Lazy) and f.kind == 'specfn':
            return f.payload(self, *args, **kwargs)
        if isinstance(f, OpaqueV):
            return self.eng.lib.call_opaque(self, f, args, kwargs)
        raise Unsupported('call of %r' % (f,))

    # ------------------------------------------------------------------------------------ user calls
    def bind_params(self, fi, self_val, args, kwargs):
        params = fi.params()
        env = {}
        names = [p for p, _ in params]
        pos = list(args)
        if not fi.is_static and fi.cls is not None:
            if self_val is None:
                # unbound call Class.method(self, ...)
                self_val = pos.pop(0)
            env[names[0]] = self_val
            names = names[1:]
            params = params[1:]
        for nm, dflt in params:
            if pos:
                env[nm] = pos.pop(0)
            elif nm in kwargs:
                env[nm] = kwargs[nm]
            elif dflt is not None:
                env[nm] = self.eng.eval_default(self, fi, dflt)
            else:
                raise Unsupported('missing argument %s of %s' % (nm, fi.qual))
        extra = set(kwargs) - set(names)
        if pos or extra:
            raise Unsupported('too many arguments for %s' % fi.qual)
        return env

    def call_user(self, fi, self_val, args, kwargs, dyn_cls=None):
        if dyn_cls is None and self_val is not None and isinstance(self_val, Ref) and \
                isinstance(self.deref(self_val), Obj):
            dyn_cls = self.deref(self_val).cls
        sp = self.eng.spec_for(fi.qual, dyn_cls)
        env = self.bind_params(fi, self_val, args, kwargs)
        if sp is not None and not sp.inline and not self.spec_mode:
            from .contracts import apply_contract
            return apply_contract(self, fi, sp, env, dyn_cls)
        if sp is not None and self.spec_mode and (sp.pure or sp.functional) and sp.result:
            # a pure function named inside a clause: its contract's result (no obligations in specifications)
            from .contracts import apply_contract
            return apply_contract(self, fi, sp, env, dyn_cls, silent=True)
        if sp is None and not self.spec_mode and not self.eng.allow_inline(fi):
            raise Unsupported('call to %s which has no contract' % fi.qual)
        return self.inline_call(fi, env, dyn_cls)

    def inline_call(self, fi, env, dyn_cls):
        if self.depth > 12:
            raise Unsupported('inline depth exceeded at ' + fi.qual)
        self.frames.append(Frame(fi, env, dyn_cls))
        self.depth += 1
        try:
            try:
                self.exec_block(fi.body())
                return NONE
            except ReturnSignal as r:
                return r.value
        finally:
            self.depth -= 1
            self.frames.pop()

    # ------------------------------------------------------------------------------------ operators
    def ex_BinOp(self, n):
        return self.eng.lib.binop(self, type(n.op).__name__, self.ev(n.left), self.ev(n.right))

    def ex_UnaryOp(self, n):
        v = self.ev(n.operand)
        op = type(n.op).__name__
        if op == 'Not':
            if isinstance(v, Ref):
                return BoolV(not self.truth(v))
            return BoolV(z3.Not(to_bool_term(v)))
        return self.eng.lib.unop(self, op, v)

    def ex_BoolOp(self, n):
        # short-circuit with Python value semantics
        is_and = isinstance(n.op, ast.And)
        if self.spec_mode:
            vals = []
            for e in n.values:
                try:
                    v = self.ev(e)
                except (Unsupported, AttributeError, KeyError, TypeError, z3.Z3Exception):
                    # this operand only makes sense under the earlier ones (e.g. `is_predict or val(result, ..)`):
                    # the path condition must decide the operands seen so far
                    sofar = [to_bool_term(x) for x in vals]
                    if sofar and is_and and self.entails(z3.Not(z3.And(*sofar))):
                        return BoolV(False)
                    if sofar and (not is_and) and self.entails(z3.Or(*sofar)):
                        return BoolV(True)
                    raise
                ct = z3.simplify(to_bool_term(v))
                if is_and and z3.is_false(ct):
                    return BoolV(False)
                if (not is_and) and z3.is_true(ct):
                    return BoolV(True)
                vals.append(v)
            terms = [to_bool_term(v) for v in vals]
            return BoolV(z3.And(*terms) if is_and else z3.Or(*terms))
        for i, e in enumerate(n.values):
            v = self.ev(e)
            if i == len(n.values) - 1:
                return v
            t = self.truth(v)
            if is_and and not t:
                return v
            if (not is_and) and t:
                return v

    def ex_Compare(self, n):
        left = self.ev(n.left)
        res = None
        for op, rn in zip(n.ops, n.comparators):
            right = self.ev(rn)
            r = self.eng.lib.compare(self, type(op).__name__, left, right)
            if res is None:
                res = r
            else:
                if not (isinstance(res, BoolV) and isinstance(r, BoolV)):
                    raise Unsupported('chained comparison of non-scalars')
                res = BoolV(z3.And(res.term, r.term))
            left = right
        return res

    def ex_IfExp(self, n):
        c = self.ev(n.test)
        if self.spec_mode:
            ct = z3.simplify(to_bool_term(c))
            if z3.is_true(ct):
                return self.ev(n.body)
            if z3.is_false(ct):
                return self.ev(n.orelse)
            try:
                a, b = self.ev(n.body), self.ev(n.orelse)
                return self.eng.lib.ite(self, ct, a, b)
            except (Unsupported, AttributeError, KeyError, TypeError, z3.Z3Exception):
                # one alternative does not make sense on this path: the path condition must select the other
                if self.entails(ct):
                    return self.ev(n.body)
                if self.entails(z3.Not(ct)):
                    return self.ev(n.orelse)
                raise
        if self.truth(c):
            return self.ev(n.body)
        return self.ev(n.orelse)

    def ex_Tuple(self, n):
        return TupleV([self.ev(e) for e in n.elts])

    def ex_List(self, n):
        items = [self.ev(e) for e in n.elts]
        return self.st.alloc(ListO(items))

    def ex_Dict(self, n):
        return self.eng.lib.dict_literal(self, [(self.ev(k), self.ev(v)) for k, v in zip(n.keys, n.values)])

    def ex_ListComp(self, n):
        from .loops import eval_comprehension
        return eval_comprehension(self, n, 'list')

    def ex_DictComp(self, n):
        from .loops import eval_comprehension
        return eval_comprehension(self, n, 'dict')

    def ex_GeneratorExp(self, n):
        return Lazy('genexp', n, dict(self.env))

    def ex_Lambda(self, n):
        return Lazy('lambda', n, dict(self.env))

    def ex_JoinedStr(self, n):
        return OpaqueV(fresh('str', Opaque), 'str')

    def ex_Starred(self, n):
        raise Unsupported('starred expression')


def _load(target):
    t = ast.parse(ast.unparse(target), mode='eval').body
    return t


def const_val(c):
    if c is None:
        return NONE
    if isinstance(c, bool):
        return BoolV(c)
    if isinstance(c, int):
        return Num(c)
    if isinstance(c, float):
        return Num(c)
    if isinstance(c, str):
        return StrV(c)
    if c is Ellipsis:
        return StrV('...')
    raise Unsupported('constant %r' % (c,))
