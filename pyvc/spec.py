"""Sidecar contract registry (DESIGN.md 2.3).  Spec files under /verif/specs call klass(), fn(), loop()."""
import re

CLASSES = {}
FUNCS = {}
ALL_PROPS = ['C%02d' % i for i in range(1, 21)]


class Clause:
    def __init__(self, text, props=None, name=None):
        m = re.match(r'^\s*\[([^\]]*)\]\s*(.*)$', text, re.S)
        if m:
            head = m.group(1)
            text = m.group(2)
            parts = [p.strip() for p in head.split(',') if p.strip()]
            ps = [p for p in parts if re.match(r'^C\d+$', p)]
            nm = [p for p in parts if not re.match(r'^C\d+$', p)]
            if ps:
                props = ps
            if nm:
                name = nm[0]
        self.text = text.strip()
        self.props = tuple(props) if props else None
        self.name = name

    def __repr__(self):
        return 'Clause(%r)' % self.text


def _clauses(lst, default_props=None):
    out = []
    for c in lst or []:
        if isinstance(c, Clause):
            out.append(c)
        else:
            out.append(Clause(c, default_props))
    return out


class ClassSpec:
    setup = None        # optional callable(run, st, ref): finishes a freshly materialised symbolic instance

    def __init__(self, name, fields, inv, bases, views):
        self.name = name
        self.fields = dict(fields)
        self.inv = _clauses(inv)
        self.bases = bases
        self.views = views or []


class FnSpec:
    def __init__(self, qual, **kw):
        self.qual = qual
        self.props = tuple((kw.get('props') or '').split())
        self.params = dict(kw.get('params') or {})
        self.requires = _clauses(kw.get('requires'), self.props)
        self.ensures = _clauses(kw.get('ensures'), self.props)
        self.modifies = list(kw.get('modifies') or [])
        self.raises = kw.get('raises')          # None: may not raise (beyond declared); list of allowed types
        self.ensures_raises = _clauses(kw.get('ensures_raises'), self.props)
        self.raises_iff = kw.get('raises_iff')     # the call is rejected exactly when this holds in the pre-state
        self.raises_only_if = kw.get('raises_only_if')   # a necessary condition for rejection (weaker than raises_iff)
        self.raises_modifies = list(kw.get('raises_modifies') or [])   # what a rejected call may still have changed
        self.inline = kw.get('inline', False)   # no contract of its own: callers execute the body
        self.trusted = kw.get('trusted', False)  # contract assumed, body not verified (listed in evidence)
        self.splits = kw.get('splits') or {}    # name -> list of alternatives (polymorphic fields / optional params)
        self.loops = kw.get('loops') or {}
        self.result = kw.get('result')          # declared kind of the result (for havoc at call sites)
        self.pure = kw.get('pure', False)
        self.telescope = kw.get('telescope')    # local variable holding chunk boundaries (hint for flattening)
        self.functional = kw.get('functional', False)   # result is a function of `reads` (+ scalar args): canonical term
        self.functional_props = tuple((kw.get('functional_props') or '').split())
        self.varies = list(kw.get('varies') or [])      # objects whose learned state must not influence the result
        self.reads = kw.get('reads')            # read set of a pure method (its result is a function of it)
        self.self_cls = kw.get('self_cls')      # verify the body for these receiver classes (default: defining class)
        self.note = kw.get('note', '')
        self.public = kw.get('public', False)
        self.callee_rejects = list(kw.get('callee_rejects') or [])   # implementor methods that may reject the call (abstraction of the implementors not under contract)
        self.twins = kw.get('twins')            # lemma programs over two objects of one class: split both alike
        self.chain = kw.get('chain', False)     # lemma programs: each ensures clause may use the ones before it


def klass(name, fields=None, inv=None, bases=None, views=None, setup=None):
    CLASSES[name] = ClassSpec(name, fields or {}, inv or [], bases, views)
    CLASSES[name].setup = setup
    return CLASSES[name]


def fn(qual, cls=None, **kw):
    """Contract of function `qual`; cls=... gives the contract that holds when the receiver is of that class
    (inherited methods whose behaviour depends on dynamic dispatch)."""
    sp = FnSpec(qual, **kw)
    sp.cls = cls
    FUNCS[(qual, cls)] = sp
    return sp


def lookup(repo, qual, dyn_cls=None):
    if dyn_cls is not None:
        for c in repo.mro(dyn_cls):
            if (qual, c) in FUNCS:
                return FUNCS[(qual, c)]
    return FUNCS.get((qual, None))


def class_fields(repo, clsname):
    """Declared fields of clsname including those of its bases (most derived wins)."""
    out = {}
    for c in reversed(repo.mro(clsname)):
        if c in CLASSES:
            out.update(CLASSES[c].fields)
    return out


def class_inv(repo, clsname, prefix=None, exclude=None):
    """Invariant clauses of clsname: those of its bases, a named clause of a subclass replacing the base's."""
    out = []
    for c in reversed(repo.mro(clsname)):
        if c in CLASSES:
            for cl in CLASSES[c].inv:
                if cl.name:
                    out = [o for o in out if o.name != cl.name]
                out.append(cl)
    if prefix:
        out = [o for o in out if o.name and o.name.startswith(prefix)]
    if exclude:
        exs = exclude if isinstance(exclude, (list, tuple)) else [exclude]
        out = [o for o in out if not (o.name and any(o.name.startswith(e) for e in exs))]
    return out
