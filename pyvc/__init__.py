"""PyVC - verification-condition generator for the Python subset mabwiser is written in.

The verified text is the AST of /repo/mabwiser/*.py, re-read on every run (see DESIGN.md section 2).
"""
