"""Bounded runtime leg (DESIGN 8): the executable forms of the properties (rt/props.py) run against the real code under
/venv/bin/python on the same tree the obligations were generated from.  Two uses:

  * replay_obligation: a failed obligation is turned into a concrete failing input where the bounded search finds one
    (scopes restricted to the policy module of the failed function);
  * bounded_leg: stand-in for the modules the deductive leg cannot reach (approximate.py, clusters.py, treebandit.py and
    NumPy dtype effects); reported in the evidence under `bounded`, never counted as proved.

A failure found here is a concrete input on which the real code disagrees with the property, so reporting it as a
violation is sound; finding nothing proves nothing.
"""
import json
import os
import subprocess
import sys
import tempfile

ROOT = os.path.dirname(os.path.dirname(os.path.abspath(__file__)))
RT_PYTHON = os.environ.get('PYVC_RT_PYTHON', '/venv/bin/python')
OUT_OF_REACH = 'approximate,clusters,treebandit'
BOUNDED_ONLY = {'C12', 'C15'}      # no contract within reach of the prover: decided by the bounded leg only
HAS_RT = {'C15', 'C16', 'C01', 'C02', 'C03', 'C04', 'C05', 'C06', 'C07', 'C08', 'C09', 'C10', 'C11', 'C12', 'C13', 'C14', 'C17', 'C18',
          'C19', 'C20'}


def run_rt(tree, prop, focus=None, budget=60, seed=0, tier='quick', keep_going=False):
    """one run of rt.run in a child interpreter; returns its JSON result (with 'error' on a harness crash)"""
    with tempfile.NamedTemporaryFile('r', suffix='.json', delete=False) as f:
        out = f.name
    env = dict(os.environ)
    env['PYTHONPATH'] = tree + os.pathsep + ROOT
    env.setdefault('OMP_NUM_THREADS', '1')
    env.setdefault('OPENBLAS_NUM_THREADS', '1')
    env.setdefault('MKL_NUM_THREADS', '1')
    env['PYTHONDONTWRITEBYTECODE'] = '1'
    cmd = [RT_PYTHON, '-m', 'rt.run', '--prop', prop, '--budget', str(budget), '--seed', str(seed), '--tier', tier,
           '--out', out]
    if focus:
        cmd += ['--focus', focus]
    if keep_going:
        cmd += ['--all']
    try:
        p = subprocess.run(cmd, cwd=ROOT, env=env, capture_output=True, text=True, timeout=budget * 4 + 120)
        try:
            res = json.load(open(out))
        except Exception:       # noqa
            res = {'property': prop, 'cases': 0, 'failures': [], 'error': (p.stderr or p.stdout or '')[-2000:]}
    except subprocess.TimeoutExpired:
        res = {'property': prop, 'cases': 0, 'failures': [], 'error': 'timeout', 'exhausted': False}
    finally:
        try:
            os.unlink(out)
        except OSError:
            pass
    res['cmd'] = 'PYTHONPATH=<tree>:/verif %s' % ' '.join(cmd[:-2])
    return res


def module_of(func):
    return (func or '').split('.')[0]


def known_rt(known, prop, failure):
    """the known finding (if any) that lists this runtime failure: same property, same policy combination"""
    c = failure.get('case') or {}
    lp = (c.get('lp') or [None])[0]
    nbh = (c.get('np') or [None])[0] if c.get('np') else None
    for f in known.get('findings', []):
        for pat in f.get('rt', []):
            if pat.get('property') not in (None, prop):
                continue
            if pat.get('lp') not in (None, lp) or ('np' in pat and pat.get('np') != nbh):
                continue
            if pat.get('what') and pat['what'] not in failure.get('what', ''):
                continue
            return f
    return None


_REPLAY_CACHE = {}


def replay_obligation(eng, prop, record, seed):
    """bounded search for a failing input of `prop` in the module of the failed obligation (one search per property and
    module per run: further failed obligations of the same module share its outcome)"""
    if prop not in HAS_RT:
        return None
    mod = module_of(record.get('func'))
    focus = None if mod in ('mab', 'base_mab', 'utils', '') or mod.startswith('lemma_') else mod
    key = (prop, focus)
    if key in _REPLAY_CACHE:
        return _REPLAY_CACHE[key]
    _REPLAY_CACHE[key] = None
    res = run_rt(eng.repo.root, prop, focus=focus, budget=int(os.environ.get('PYVC_REPLAY_BUDGET', '90')), seed=seed,
                 keep_going=True)
    known = _known()
    for f in res.get('failures', []):
        if known_rt(known, prop, f) is None:
            f['replay'] = 'PYTHONPATH=<tree>:/verif %s -m rt.replay <this file>' % RT_PYTHON
            f['searched'] = {'cases': res.get('cases'), 'focus': focus, 'seconds': res.get('seconds')}
            _REPLAY_CACHE[key] = f
            return f
    return None


def _known():
    try:
        return json.load(open(os.path.join(ROOT, 'known_findings.json')))
    except Exception:       # noqa
        return {'findings': []}


def bounded_leg(eng, prop, tier, seed):
    """returns (summary for the evidence, new failures, [(finding, failure)] known hits, harness error or None)"""
    if prop not in HAS_RT:
        return None, [], [], None
    quick = tier != 'thorough'
    focus = None        # every policy module: the enumeration is cheap, and dtype / container effects are out of the
    #                     prover's reach in every module (A1, A4)
    budget = int(os.environ.get('PYVC_RT_BUDGET', '90' if quick else '360'))
    res = run_rt(eng.repo.root, prop, focus=focus, budget=budget, seed=seed, tier=tier, keep_going=True)
    known = _known()
    new, hits = [], []
    for f in res.get('failures', []):
        k = known_rt(known, prop, f)
        if k is None:
            new.append(f)
        else:
            hits.append((k, f))
    summary = {'function': 'public API over ' + (focus or 'every policy module') + ' (rt/props.py check_%s)' % prop,
               'bound': 'enumerated small scopes: 3-5 arms, <= 12 rows per batch, <= 3 batches, integer grid contexts in '
                        '[-3,3]^2, the listed policy combinations, seed %d; wall budget %ds%s'
                        % (seed, budget, '' if res.get('exhausted', True) else ' (budget reached before the enumeration ended)'),
               'cases': res.get('cases', 0), 'distinct_cases': res.get('distinct_cases', 0),
               'samples': res.get('samples', []), 'seconds': res.get('seconds'), 'failures': len(res.get('failures', [])),
               'label': 'bounded', 'cmd': res.get('cmd')}
    return summary, new, hits, res.get('error')
