"""Runtime-contract leg: the sidecar clauses evaluated on the real objects under /venv/bin/python (bounded)."""


def replay_obligation(eng, prop, record, seed):
    return None
