"""Contracts for mabwiser/rand.py (_Random): ignores the data, expectations are uniform draws."""
from pyvc.spec import klass, fn
from specs.base_mab import (FIT_PARAMS, INIT_PARAMS, status_fresh, forall_arms, S0, M_ROWS as M, N_ARMS as N,
                            arm_change_contracts, predict_contracts)

klass('_Random', fields={}, inv=[])

fn('rand._Random.__init__', props='C01 C04 C08', inline=True,
   params=INIT_PARAMS, requires=['distinct(arms)', 'n_jobs != 0'], modifies=['self.**'],
   ensures=['[alias.arms] same(self.arms, arms)', '[alias.rng] same(self.rng, rng)', 'INV'])
# C01: Random ignores the data -- fit and partial_fit have an empty frame
fn('rand._Random.fit', props='C01 C06 C07', params=FIT_PARAMS, requires=['INV'], modifies=[], ensures=['INV'])
fn('rand._Random.partial_fit', props='C01 C06', params=FIT_PARAMS, requires=['INV'], modifies=[], ensures=['INV'])
E1 = 'mat_at(draw_um(%s, 1, %s), 0, pos(self.arms, a))' % (S0, N)
EM = 'mat_at(draw_um(%s, %s, %s), j, pos(self.arms, a))' % (S0, M, N)
predict_contracts('rand', '_Random', E1, EM, 'next_um(%s, 1, %s)' % (S0, N), 'next_um(%s, %s, %s)' % (S0, M, N))
arm_change_contracts('_Random', ['arm_to_expectation'], 'val(self.arm_to_expectation, arm) == 0')
