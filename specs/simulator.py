"""Contracts for mabwiser/simulator.py (C16): the train / test split.

Only Simulator._run_train_test_split is under contract.  For an ordered simulation it is proved to cut the rows at
train_size = int(n * (1 - test_size)): the test rows are the last n - train_size rows, test_indices lists exactly their
positions in order, train and test slices of the three columns use the same cut.  The random split is scikit-learn's
train_test_split (A5: it returns a partition of the index list and the matching rows), modelled by an abstract
permutation.  The drivers, the statistics and the evaluator are exercised by the bounded leg only (DESIGN 12.6).
"""
from pyvc.spec import klass, fn

klass('Simulator',
      fields={'decisions': 'aseq', 'rewards': 'rseq', 'contexts': 'opt:mat', 'test_size': 'real const',
              'is_ordered': 'bool const', 'seed': 'int const', 'max_n_jobs': 'int const', 'test_indices': 'ilist', 'arms': 'list:arm',
              '_chunk_size': 'int', 'logger': 'opaque'},
      inv=['[C16,sim.aligned] slen(self.decisions) == slen(self.rewards) and '
           '(is_none(self.contexts) or rows(self.contexts) == slen(self.decisions))',
           '[C16,sim.size] 0 < self.test_size and self.test_size < 1 and self.max_n_jobs >= 1'])

N = 'slen(self.decisions)'
T_ = 'floor_int(%s * (1 - self.test_size))' % N
fn('simulator.Simulator._run_train_test_split', props='C16 C15',
   requires=['INV', 'self.is_ordered'],
   modifies=['self.test_indices', 'self._chunk_size'], result='split6',
   ensures=['[C16,split.cut] 0 <= %s and %s <= %s' % (T_, T_, N),
            # C16: the test rows are the last rows, in order; the training rows are the rows before them
            '[C16,split.train] component(result, 0) == aslice(self.decisions, 0, %s) and component(result, 1) == rslice(self.rewards, 0, %s)'
            % (T_, T_),
            '[C16,split.test] component(result, 3) == aslice(self.decisions, %s, %s) and component(result, 4) == rslice(self.rewards, %s, %s)'
            % (T_, N, T_, N),
            '[C16,split.ctx] is_none(self.contexts) or (component(result, 2) == mslice(self.contexts, 0, %s) and '
            'component(result, 5) == mslice(self.contexts, %s, %s))' % (T_, T_, N),
            '[C16,split.indices] slen(self.test_indices) == %s - %s and forall_int(lambda i: implies(0 <= i and i < %s - %s, '
            'ival(self.test_indices, i) == %s + i), lambda i: ival(self.test_indices, i))' % (N, T_, N, T_, T_),
            '[C16,split.chunk] self._chunk_size <= %s - %s' % (N, T_)])

fn('simulator.Simulator.get_stats', props='C16',
   params={'rewards': 'rseq'}, requires=['slen(rewards) > 0'], modifies=[], result='record:count,sum,min,max,mean,std',
   ensures=['[C16,stats.count] field(result, "count") == slen(rewards)', '[C16,stats.sum] field(result, "sum") == ssum(rewards)',
            '[C16,stats.min] field(result, "min") == smin(rewards)', '[C16,stats.max] field(result, "max") == smax(rewards)',
            '[C16,stats.order] field(result, "min") <= field(result, "mean") and field(result, "mean") <= field(result, "max")'])

fn('simulator.Simulator.get_arm_stats', props='C16',
   params={'decisions': 'aseq', 'rewards': 'rseq'},
   requires=['slen(decisions) == slen(rewards)', 'distinct(self.arms)'], modifies=[], result='map:stats',
   # C16: per arm, the statistics of exactly the rewards of the rows whose decision is that arm (zeros when there are none)
   ensures=['[C16,armstats.keys] keys(result) == self.arms',
            '[C16,armstats.count] forall_arm(lambda a: implies(mem(self.arms, a), val(result, a, "count") == cnt(decisions, a)))',
            '[C16,armstats.sum] forall_arm(lambda a: implies(mem(self.arms, a), val(result, a, "sum") == '
            '(ssum(sel(rewards, decisions, a)) if cnt(decisions, a) > 0 else 0)))',
            '[C16,armstats.min] forall_arm(lambda a: implies(mem(self.arms, a), val(result, a, "min") == '
            '(smin(sel(rewards, decisions, a)) if cnt(decisions, a) > 0 else 0)))',
            '[C16,armstats.max] forall_arm(lambda a: implies(mem(self.arms, a), val(result, a, "max") == '
            '(smax(sel(rewards, decisions, a)) if cnt(decisions, a) > 0 else 0)))',
            '[C16,armstats.none] forall_arm(lambda a: implies(mem(self.arms, a) and cnt(decisions, a) == 0, '
            'val(result, a, "mean") == 0 and val(result, a, "std") == 0))'])
