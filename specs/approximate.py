"""Contracts for mabwiser/approximate.py (LSHNearest): the hashing function (C11).

Only the pure leaf is under contract so far: get_context_hash computes, row by row, the code
sum_{t < n_dimensions} 2^t * [x . plane_t > 0] of the sign pattern of the projections (strictly positive projections
count as 1).  The hash tables (int- and float-keyed dictionaries of index lists) are outside the value model
(DESIGN 12.6); the functions that maintain them are checked by the bounded leg only.
"""
from pyvc.spec import klass, fn

fn('approximate._LSHNearest.get_context_hash', props='C11 C05',
   params={'contexts': 'mat', 'plane': 'mat'},
   requires=['cols(contexts) == rows(plane)', 'cols(plane) >= 0'],
   modifies=[], result='rseq',
   loops={0: ['unfold_signcode(contexts, plane, i)', 'slen(hash_values) == rows(contexts)',
              'forall_int(lambda r: implies(0 <= r and r < rows(contexts), '
              'at(hash_values, r) == signcode(row(contexts, r), plane, i)), lambda r: at(hash_values, r))']},
   ensures=['[C11,hash.len] slen(result) == rows(contexts)',
            # C11: the hash of a row is the binary code of its sign pattern under the hyperplanes (strict > 0)
            '[C11,C05,hash.code] forall_int(lambda r: implies(0 <= r and r < rows(contexts), '
            'at(result, r) == signcode(row(contexts, r), plane, cols(plane))), lambda r: at(result, r))'])
