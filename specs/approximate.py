"""Contracts for mabwiser/approximate.py (LSHNearest): the hashing function (C11).

Only the pure leaf is under contract so far: get_context_hash computes, row by row, the code
sum_{t < n_dimensions} 2^t * [x . plane_t > 0] of the sign pattern of the projections (strictly positive projections
count as 1).  The hash tables (int- and float-keyed dictionaries of index lists) are outside the value model
(DESIGN 12.6); the functions that maintain them are checked by the bounded leg only.
"""
from pyvc.spec import klass, fn

fn('approximate._LSHNearest.get_context_hash', props='C11 C05',
   params={'contexts': 'mat', 'plane': 'mat'},
   requires=['cols(contexts) == rows(plane)', 'cols(plane) >= 0'],
   modifies=[], result='rseq',
   loops={0: ['unfold_signcode(contexts, plane, i)', 'slen(hash_values) == rows(contexts)',
              'forall_int(lambda r: implies(0 <= r and r < rows(contexts), '
              'at(hash_values, r) == signcode(row(contexts, r), plane, i)), lambda r: at(hash_values, r))']},
   ensures=['[C11,hash.len] slen(result) == rows(contexts)',
            # C11: the hash of a row is the binary code of its sign pattern under the hyperplanes (strict > 0)
            '[C11,C05,hash.code] forall_int(lambda r: implies(0 <= r and r < rows(contexts), '
            'at(result, r) == signcode(row(contexts, r), plane, cols(plane))), lambda r: at(result, r))'])

# ------------------------------------------------------------------------------------------ the hash tables
# table_to_plane: {k: hyperplane matrix} and table_to_hash_to_index: {k: defaultdict(list) keyed by the hash value},
# both keyed by range(n_tables).  Abstractly: plane(P, k) and bucket(T, k, h), a total function (missing key = []).
klass('_ApproximateNeighbors', fields={}, inv=[])
TAB = 'self.table_to_hash_to_index'
PLN = 'self.table_to_plane'
fn('approximate._LSHNearest._add_neighbors', props='C11 C05 C06',
   params={'hash_values': 'rseq', 'k': 'int', 'h': 'real', 'context_start': 'int'},
   requires=['0 <= k and k < ntables(%s)' % TAB, 'context_start >= 0'],
   modifies=[TAB + '[*]'],
   # C11 / C06: the positions of the rows hashed to h, offset by the number of rows stored before this batch, are
   # appended to bucket (k, h); no other bucket changes
   ensures=['[C11,C06,add.bucket] bucket(%s, k, h) == iconcat(old(bucket(%s, k, h)), '
            'shifted(where_eq(hash_values, h), context_start))' % (TAB, TAB),
            '[C11,C05,add.others] forall_int(lambda k2: forall_real(lambda h2: implies(not (k2 == k and h2 == h), '
            'bucket(%s, k2, h2) == old(bucket(%s, k2, h2)))))' % (TAB, TAB),
            '[C11,add.keys] ntables(%s) == old(ntables(%s))' % (TAB, TAB)])

fn('approximate._LSHNearest._get_neighbors', props='C11 C05 C10',
   params={'row_2d': 'mat'},
   requires=['INV.lsh', 'INV.hist', 'not is_none(self.decisions)', 'rows(row_2d) == 1', 'cols(row_2d) == cols(self.contexts)'],
   modifies=[], result='ilist', pure=True, reads=[TAB, PLN],
   loops={0: ['unfold_collides(%s, %s, row(row_2d, 0), k)' % (TAB, PLN),
              'forall_int(lambda j: imem(indices, j) == lsh_collides(%s, %s, row(row_2d, 0), j, k), '
              'lambda j: imem(indices, j))' % (TAB, PLN),
              'indices_in_range(indices, slen(self.decisions))']},
   # C11: exactly the stored rows that share the query's sign pattern in at least one table (union over the tables;
   # duplicates are possible and are removed by the caller)
   ensures=['[C11,C05,neighbors.union] forall_int(lambda j: imem(result, j) == '
            'lsh_collides(%s, %s, row(row_2d, 0), j, self.n_tables), lambda j: imem(result, j))' % (TAB, PLN),
            '[C11,C03,neighbors.range] indices_in_range(result, slen(self.decisions))'])

# ------------------------------------------------------------------------------------------ training
from specs.neighbors import NB_FIT, STORED_R, TS_IN      # noqa: E402

# C11: bucket (k, h) lists, in ascending order, exactly the stored rows whose hash under plane k is h
LSH_DEF = ('forall_int(lambda k: forall_real(lambda h: implies(0 <= k and k < self.n_tables, bucket(%s, k, h) == '
           'where_eq(lsh_hashes(self.contexts, plane(%s, k)), h))))' % (TAB, PLN))
LSH_SHAPE = ('forall_int(lambda k: implies(0 <= k and k < self.n_tables, rows(plane(%s, k)) == cols(self.contexts) and '
             'cols(plane(%s, k)) == self.n_dimensions))' % (PLN, PLN))
klass('_LSHNearest',
      fields={'n_dimensions': 'int const', 'n_tables': 'int const', 'buckets': 'int const',
              'table_to_hash_to_index': 'imap:hashtab', 'table_to_plane': 'imap:mat'},
      inv=['[C11,lsh.tables] ntables(%s) == self.n_tables and ntables(%s) == self.n_tables and self.n_tables >= 0 and '
           'self.n_dimensions >= 0' % (TAB, PLN),
           '[C11,lsh.def] is_none(self.decisions) or (%s)' % LSH_DEF,
           '[C11,lsh.shape] is_none(self.decisions) or (%s)' % LSH_SHAPE])

# _fit_operation (joblib maps over chunks and over np.unique of the hash values, with writes into the nested
# dictionaries) is outside PyVC's reach: its contract is ASSUMED here and exercised by the bounded leg (rt C11, C05, C06,
# C07); it is listed as trusted in the evidence
fn('approximate._LSHNearest._initialize', props='C11 C07 C04',
   params={'n_cols': 'int'},
   requires=['INV.lsh.tables', 'n_cols >= 0'],
   modifies=[PLN, TAB, 'self.rng.rng.state'],         # both dictionaries are replaced by new objects
   ensures=['INV.lsh.tables',
            '[C11,init.shape] forall_int(lambda k: implies(0 <= k and k < self.n_tables, rows(plane(%s, k)) == n_cols and '
            'cols(plane(%s, k)) == self.n_dimensions))' % (PLN, PLN),
            # C07: nothing of an earlier fit survives in the tables
            '[C07,init.empty] forall_int(lambda k: forall_real(lambda h: slen(bucket(%s, k, h)) == 0))' % TAB])
fn('approximate._LSHNearest._fit_operation', props='C11 C05 C06', trusted=True,
   params={'contexts': 'mat', 'context_start': 'int'},
   requires=['INV.lsh.tables', 'context_start >= 0'],
   modifies=[TAB + '[*]'],
   ensures=['INV.lsh.tables',
            '[C11,C06,fitop.append] forall_int(lambda k: forall_real(lambda h: implies(0 <= k and k < self.n_tables, '
            'bucket(%s, k, h) == iconcat(old(bucket(%s, k, h)), shifted(where_eq(lsh_hashes(contexts, plane(%s, k)), h), '
            'context_start)))))' % (TAB, TAB, PLN)],
   note='trusted: joblib maps over chunks and over np.unique(hash values); _add_neighbors and get_context_hash, which it '
        'calls, are verified')

for _q, _kind in (('fit', 'fit'), ('partial_fit', 'partial_fit')):
    pass

fn('neighbors._Neighbors.fit', cls='_LSHNearest', props='C03 C06 C07 C14 C17',
   params=NB_FIT,
   requires=['INV~hist~lsh', 'INV.lsh.tables', 'slen(decisions) == slen(rewards)', 'rows(contexts) == slen(decisions)',
             'cols(contexts) >= 1', TS_IN],
   modifies=['self.decisions', 'self.contexts', 'self.rewards', 'self.lp.is_contextual_binarized?'],
   ensures=['INV~lsh', 'INV.lsh.tables', '[C03,C07,hist.d] self.decisions == decisions', '[C03,C07,hist.x] self.contexts == contexts',
            '[C03,C07,C14,hist.r] same_elems(self.rewards, %s)' % STORED_R])
fn('neighbors._Neighbors.partial_fit', cls='_LSHNearest', props='C03 C06 C14 C17',
   params=NB_FIT,
   requires=['INV~lsh', 'INV.lsh.tables', 'not is_none(self.decisions)', 'slen(decisions) == slen(rewards)',
             'rows(contexts) == slen(decisions)', TS_IN],
   raises=['ValueError'], raises_iff='cols(contexts) != cols(self.contexts)',
   modifies=['self.decisions', 'self.contexts', 'self.rewards', 'self.lp.is_contextual_binarized?'],
   ensures=['INV~lsh', 'INV.lsh.tables', '[C03,C06,hist.d] self.decisions == concat(old(self.decisions), decisions)',
            '[C03,C06,hist.x] self.contexts == vstack(old(self.contexts), contexts)',
            '[C03,C06,C14,hist.r] same_elems(self.rewards, concat(old(self.rewards), %s))' % STORED_R])

fn('approximate._ApproximateNeighbors.fit', cls='_LSHNearest', props='C03 C06 C07 C11 C14 C17',
   params=NB_FIT,
   requires=['INV~hist~lsh', 'INV.lsh.tables', 'slen(decisions) == slen(rewards)', 'rows(contexts) == slen(decisions)',
             'cols(contexts) >= 1', TS_IN],
   modifies=['self.decisions', 'self.contexts', 'self.rewards', 'self.lp.is_contextual_binarized?', PLN, TAB, TAB + '[*]',
             'self.rng.rng.state'],
   # C07 / C11: after fit the tables list exactly the rows of the new history
   ensures=['INV', '[C03,C07,hist.d] self.decisions == decisions', '[C03,C07,hist.x] self.contexts == contexts',
            '[C03,C07,C14,hist.r] same_elems(self.rewards, %s)' % STORED_R])
fn('approximate._ApproximateNeighbors.partial_fit', cls='_LSHNearest', props='C03 C06 C11 C14 C17',
   params=NB_FIT,
   requires=['INV', 'not is_none(self.decisions)', 'slen(decisions) == slen(rewards)', 'rows(contexts) == slen(decisions)', TS_IN],
   raises=['ValueError'], raises_iff='cols(contexts) != cols(self.contexts)',
   modifies=['self.decisions', 'self.contexts', 'self.rewards', 'self.lp.is_contextual_binarized?', TAB + '[*]'],
   # C06 / C11: the new rows are hashed with the same planes and filed under their position in the accumulated history
   ensures=['INV', '[C03,C06,hist.d] self.decisions == concat(old(self.decisions), decisions)',
            '[C03,C06,hist.x] self.contexts == vstack(old(self.contexts), contexts)',
            '[C03,C06,C14,hist.r] same_elems(self.rewards, concat(old(self.rewards), %s))' % STORED_R,
            '[C11,planes.kept] forall_int(lambda k: implies(0 <= k and k < self.n_tables, plane(%s, k) == old(plane(%s, k))))'
            % (PLN, PLN)])

# ------------------------------------------------------------------------------------------ prediction
from specs.neighbors import PC_PARAMS, PC_REQ, ROW, SEEDED, LOOP_INV, parallel_predict_contract      # noqa: E402

LSH_RANGE = ('forall_int(lambda k: forall_real(lambda h: implies(0 <= k and k < self.n_tables, '
             'indices_in_range(bucket(%s, k, h), slen(self.decisions)))))' % TAB)
NEIGH = 'idedup(self._get_neighbors(%s))' % ROW
LSH_ROW = ('(self._get_nhood_predictions(%s, %s, %s, is_predict) if n_indices(%s) > 0 '
           'else self._get_no_nhood_predictions(%s, is_predict))' % (SEEDED, NEIGH, ROW, NEIGH, SEEDED))
fn('approximate._ApproximateNeighbors._predict_contexts', cls='_LSHNearest', props='C03 C05 C08 C09 C10 C11',
   params=PC_PARAMS, requires=PC_REQ, modifies=[], loops=LOOP_INV, result='list:pv',
   # C11 / C05: row j is answered from exactly the de-duplicated collision set of the query by a private, freshly
   # seeded copy of the learning policy (NaN / the configured distribution when the set is empty)
   ensures=['[C05,C08,len] slen(result) == rows(contexts)',
            '[C03,C05,C10,C11,rowlocal] forall_int(lambda j: implies(0 <= j and j < rows(contexts), '
            'same_item(result, j, %s)))' % LSH_ROW])

# BaseMAB._parallel_predict is verified for Radius / KNearest receivers (same code); with the LSH row term the chunk
# flattening obligation (post:rows) is beyond the solver's resource limit, so for the LSH receiver the same contract is
# ASSUMED (trusted, listed in the evidence): row locality *within* a chunk is the contract above, independence of the
# chunking for LSH is exercised by the bounded leg.  The assumed contract lets the MAB facade be verified over LSH.
parallel_predict_contract('_LSHNearest', LSH_ROW, trusted=True,
                          note='trusted: same code as for Radius / KNearest receivers (proved there); the flattening '
                               'obligation with the LSH row term exceeds the resource limit')

