"""Contracts of the lemma programs under /verif/lemmas/py (C06, C20): corollaries over the callees' contracts.

A lemma program is verification-side client code; PyVC executes it like any other function, but every call in it
is a call of a function under contract, so what is proved is a statement about the contracts: "whatever code
satisfies the contracts of fit and partial_fit trains incrementally as it trains in one batch".  The real bodies are
tied in by the per-function obligations of the callees (tagged C06 / C20 as well).
"""
from pyvc.spec import fn

SEQ = {'d1': 'aseq', 'r1': 'rseq', 'd2': 'aseq', 'r2': 'rseq'}
SEQC = {'d1': 'aseq', 'r1': 'rseq', 'c1': 'mat', 'd2': 'aseq', 'r2': 'rseq', 'c2': 'mat'}
STATUS = ('is_trained', 'is_warm', 'warm_started_by')


def both(body, trig=None):
    if trig:
        return 'forall_arm(lambda x: implies(mem(p.arms, x), %s), lambda x: %s)' % (body, trig)
    return 'forall_arm(lambda x: implies(mem(p.arms, x), %s))' % body


def same(maps, status=True):
    parts = ['val(p.%s, x) == val(q.%s, x)' % (m, m) for m in maps]
    if status:
        parts += ['val(p.arm_to_status, x, "%s") == val(q.arm_to_status, x, "%s")' % (c, c) for c in STATUS]
    return ' and '.join(parts)


TWIN_REQ = ['INV(p)', 'INV(q)', 'p.arms == q.arms', 'slen(p.arms) > 0', 'slen(d1) == slen(r1)', 'slen(d2) == slen(r2)']


def twins(cls, maps, cfg=(), extra_req=(), extra_ens=(), scalars=(), mid=None):
    fn('lemma_incremental.c06_split', cls=cls, props='C06',
       params={'p': 'obj:' + cls, 'q': 'obj:' + cls, **SEQ},
       requires=TWIN_REQ + ['p.%s == q.%s' % (c, c) for c in cfg] + list(extra_req),
       modifies=['p.**', 'q.**'], chain=True, twins=('p', 'q'),
       ensures=['[C06,same.%s] p.%s == q.%s' % (s, s, s) for s in scalars] +
               [c for m in maps for c in ([(mid or {})[m]] if m in (mid or {}) else []) +
                ['[C06,same.%s] ' % m + both('val(p.%s, x) == val(q.%s, x)' % (m, m))]] +
               ['[C06,same.status] ' + both(same([]))] + list(extra_ens))


twins('_EpsilonGreedy', ['arm_to_sum', 'arm_to_count', 'arm_to_expectation'], cfg=['epsilon'])
twins('_UCB1', ['arm_to_sum', 'arm_to_count', 'arm_to_mean', 'arm_to_expectation'], cfg=['alpha'],
      scalars=['total_count'])
# Softmax: the learned statistics (sum, count, mean) are compared by the split lemma; that the derived exponents and
# shares then agree is a statement about the invariant alone (derived_same), kept apart so that the solver is not
# handed the concatenation facts it does not need
twins('_Softmax', ['arm_to_sum', 'arm_to_count', 'arm_to_mean'], cfg=['tau'])
fn('lemma_incremental.derived_same', cls='_Softmax', props='C06 C20',
   params={'p': 'obj:_Softmax', 'q': 'obj:_Softmax'},
   requires=['INV(p)', 'INV(q)', 'p.arms == q.arms', 'slen(p.arms) > 0', 'p.tau == q.tau',
             both('val(p.arm_to_mean, x) == val(q.arm_to_mean, x)')],
   modifies=[], chain=True, twins=('p', 'q'),
   ensures=['[C06,C20,derived.max] mmax(p.arm_to_mean) == mmax(q.arm_to_mean)',
            '[C06,C20,derived.exponent] ' + both('val(p.arm_to_exponent, x) == val(q.arm_to_exponent, x)'),
            '[C06,C20,derived.total] msum(p.arm_to_exponent) == msum(q.arm_to_exponent)',
            '[C06,C20,derived.share] ' + both('val(p.arm_to_expectation, x) == val(q.arm_to_expectation, x)')])
twins('_Popularity', ['arm_to_sum', 'arm_to_count', 'arm_to_expectation'], cfg=[])
BQ = lambda d, r: ('binary(binarized(p.binarizer, %s, %s) if (not is_none(p.binarizer) and '     # noqa: E731
                   'not p.is_contextual_binarized) else %s)' % (d, r, r))
twins('_ThompsonSampling', ['arm_to_success_count', 'arm_to_fail_count'],
      cfg=['binarizer', 'is_contextual_binarized'], extra_req=[BQ('d1', 'r1'), BQ('d2', 'r2')])

# ---- linear policies (scale=False as the statement says): the normal equations accumulate
MVP = lambda f, o: 'val(%s.arm_to_model, x, "%s")' % (o, f)      # noqa: E731
CTX_REQ = ['INV(p)', 'INV(q)', 'p.arms == q.arms', 'slen(p.arms) > 0', 'slen(d1) == slen(r1)', 'slen(d2) == slen(r2)',
           'rows(c1) == slen(d1)', 'rows(c2) == slen(d2)', 'cols(c1) == cols(c2)', 'cols(c1) >= 1']
fn('lemma_incremental.c06_split_ctx', cls='_Linear', props='C06',
   params={'p': 'obj:_Linear', 'q': 'obj:_Linear', **SEQC},
   requires=CTX_REQ + ['p.l2_lambda == q.l2_lambda', 'p.alpha == q.alpha', 'p.epsilon == q.epsilon',
                       'p.regression == q.regression', 'not p.scale', 'not q.scale'],
   modifies=['p.**', 'q.**'], chain=True, twins=('p', 'q'),
   ensures=['[C06,same.d] p.num_features == q.num_features'] +
           ['[C06,same.%s] ' % f + both('%s == %s' % (MVP(f, 'p'), MVP(f, 'q'))) for f in ('A', 'Xty', 'A_inv', 'beta')] +
           ['[C06,same.status] ' + both(same([]))])

# ---- Radius / KNearest: the stored history after fit + partial_fit is the concatenated history
for _cls in ('_Radius',):      # _KNearest inherits the same fit / partial_fit (one contract, no per-class variant)
    fn('lemma_incremental.c06_split_ctx', cls=_cls, props='C06',
       params={'p': 'obj:' + _cls, 'q': 'obj:' + _cls, **SEQC},
       requires=['INV(p)~hist', 'INV(q)~hist', 'p.arms == q.arms', 'slen(d1) == slen(r1)', 'slen(d2) == slen(r2)',
                 'rows(c1) == slen(d1)', 'rows(c2) == slen(d2)', 'cols(c1) == cols(c2)', 'cols(c1) >= 1',
                 'isinstance(p.lp, _ThompsonSampling) == isinstance(q.lp, _ThompsonSampling)',
                 # Thompson Sampling underneath: same binarizer, or binary rewards when there is none
                 '(not isinstance(p.lp, _ThompsonSampling)) or (p.lp.binarizer == q.lp.binarizer and '
                 '(not is_none(p.lp.binarizer) or (binary(r1) and binary(r2))))'],
       modifies=['p.**', 'q.**'], chain=True, twins=('p', 'q'),
       ensures=['[C06,same.hist.d] p.decisions == q.decisions', '[C06,same.hist.x] p.contexts == q.contexts',
                '[C06,same.hist.r] same_elems(p.rewards, q.rewards)'])

# ============================================================================ C20: row order, shift, scale
ROWS = {'d': 'aseq', 'r': 'rseq', 'perm': 'iseq'}
ROW_REQ = ['INV(p)', 'INV(q)', 'p.arms == q.arms', 'slen(p.arms) > 0', 'slen(d) == slen(r)', 'isperm(perm, slen(d))']


def rows_lemma(cls, maps, cfg=(), extra_req=(), scalars=(), mid=None):
    fn('lemma_invariance.c20_rows', cls=cls, props='C20',
       params={'p': 'obj:' + cls, 'q': 'obj:' + cls, **ROWS},
       requires=ROW_REQ + ['p.%s == q.%s' % (c, c) for c in cfg] + list(extra_req),
       modifies=['p.**', 'q.**'], chain=True, twins=('p', 'q'),
       ensures=['[C20,rows.%s] p.%s == q.%s' % (s, s, s) for s in scalars] +
               [c for m in maps for c in ([(mid or {})[m]] if m in (mid or {}) else []) +
                ['[C20,rows.%s] ' % m + both('val(p.%s, x) == val(q.%s, x)' % (m, m))]] +
               ['[C20,rows.status] ' + both(same([]))])


rows_lemma('_EpsilonGreedy', ['arm_to_sum', 'arm_to_count', 'arm_to_expectation'], cfg=['epsilon'])
rows_lemma('_UCB1', ['arm_to_sum', 'arm_to_count', 'arm_to_mean', 'arm_to_expectation'], cfg=['alpha'],
           scalars=['total_count'])
rows_lemma('_Softmax', ['arm_to_sum', 'arm_to_count', 'arm_to_mean', 'arm_to_exponent', 'arm_to_expectation'], cfg=['tau'],
           mid={'arm_to_exponent': '[C20,rows.max] mmax(p.arm_to_mean) == mmax(q.arm_to_mean)'})
rows_lemma('_Popularity', ['arm_to_sum', 'arm_to_count', 'arm_to_expectation'])
# Thompson Sampling without a binarizer (binary rewards): the counts are sums over the arm's rewards
rows_lemma('_ThompsonSampling', ['arm_to_success_count', 'arm_to_fail_count'],
           cfg=['is_contextual_binarized'],
           extra_req=['is_none(p.binarizer)', 'is_none(q.binarizer)', 'binary(r)', 'binary(take(r, perm))'])

fn('lemma_invariance.c20_rows_ctx', cls='_Linear', props='C20',
   params={'p': 'obj:_Linear', 'q': 'obj:_Linear', 'd': 'aseq', 'r': 'rseq', 'c': 'mat', 'perm': 'iseq'},
   requires=ROW_REQ + ['rows(c) == slen(d)', 'cols(c) >= 1', 'p.l2_lambda == q.l2_lambda', 'p.alpha == q.alpha',
                       'p.epsilon == q.epsilon', 'p.regression == q.regression', 'not p.scale', 'not q.scale'],
   modifies=['p.**', 'q.**'], chain=True, twins=('p', 'q'),
   ensures=['[C20,rows.d] p.num_features == q.num_features'] +
           ['[C20,rows.%s] ' % f + both('%s == %s' % (MVP(f, 'p'), MVP(f, 'q'))) for f in ('A', 'Xty', 'A_inv', 'beta')] +
           ['[C20,rows.status] ' + both(same([]))])

# ---- adding a constant to all rewards: greedy / UCB1 expectations shift by it, Softmax is unchanged
SHIFT_REQ = ['INV(p)', 'INV(q)', 'p.arms == q.arms', 'slen(p.arms) > 0', 'slen(d) == slen(r)',
             # "for histories in which every arm has been observed"
             'forall_arm(lambda x: implies(mem(p.arms, x), cnt(d, x) > 0))']
SHIFT_PARAMS = {'d': 'aseq', 'r': 'rseq', 'shift': 'real'}
for _cls, _cfg, _mean in (('_EpsilonGreedy', 'epsilon', 'arm_to_expectation'), ('_UCB1', 'alpha', 'arm_to_mean')):
    fn('lemma_invariance.c20_shift', cls=_cls, props='C20',
       params={'p': 'obj:' + _cls, 'q': 'obj:' + _cls, **SHIFT_PARAMS},
       requires=SHIFT_REQ + ['p.%s == q.%s' % (_cfg, _cfg)],
       modifies=['p.**', 'q.**'], chain=True, twins=('p', 'q'),
       ensures=['[C20,shift.count] ' + both('val(p.arm_to_count, x) == val(q.arm_to_count, x) and val(q.arm_to_count, x) > 0'),
                '[C20,shift.mean] ' + both('val(p.%s, x) == val(q.%s, x) + shift' % (_mean, _mean))] +
               (['[C20,shift.total] p.total_count == q.total_count',
                 '[C20,shift.ucb] ' + both('val(p.arm_to_expectation, x) == val(q.arm_to_expectation, x) + shift')]
                if _cls == '_UCB1' else []))
fn('lemma_invariance.c20_shift', cls='_Softmax', props='C20',
   params={'p': 'obj:_Softmax', 'q': 'obj:_Softmax', **SHIFT_PARAMS},
   requires=SHIFT_REQ + ['p.tau == q.tau'],
   modifies=['p.**', 'q.**'], chain=True, twins=('p', 'q'),
   ensures=['[C20,shift.count] ' + both('val(p.arm_to_count, x) == val(q.arm_to_count, x) and val(q.arm_to_count, x) > 0'),
            '[C20,shift.mean] ' + both('val(p.arm_to_mean, x) == val(q.arm_to_mean, x) + shift'),
            '[C20,shift.max] mmax(p.arm_to_mean) == mmax(q.arm_to_mean) + shift',
            '[C20,shift.exponent] ' + both('val(p.arm_to_exponent, x) == val(q.arm_to_exponent, x)'),
            '[C20,shift.softmax] ' + both('val(p.arm_to_expectation, x) == val(q.arm_to_expectation, x)')])

# ---- scaling all rewards scales LinGreedy (ridge) expectations accordingly
fn('lemma_invariance.c20_scale_ctx', cls='_Linear', props='C20',
   params={'p': 'obj:_Linear', 'q': 'obj:_Linear', 'd': 'aseq', 'r': 'rseq', 'c': 'mat', 'k': 'real'},
   requires=['INV(p)', 'INV(q)', 'p.arms == q.arms', 'slen(p.arms) > 0', 'slen(d) == slen(r)', 'rows(c) == slen(d)',
             'cols(c) >= 1', 'p.l2_lambda == q.l2_lambda', 'p.alpha == q.alpha', 'p.epsilon == q.epsilon',
             'p.regression == "ridge"', 'q.regression == "ridge"', 'not p.scale', 'not q.scale',
             'forall_arm(lambda x: implies(mem(p.arms, x), cnt(d, x) > 0))'],
   modifies=['p.**', 'q.**'], chain=True, twins=('p', 'q'),
   ensures=['[C20,scale.A] ' + both('%s == %s' % (MVP('A', 'p'), MVP('A', 'q'))),
            '[C20,scale.Ainv] ' + both('%s == %s' % (MVP('A_inv', 'p'), MVP('A_inv', 'q'))),
            '[C20,scale.Xty] ' + both('%s == rscaled(k, %s)' % (MVP('Xty', 'p'), MVP('Xty', 'q'))),
            '[C20,scale.beta] ' + both('%s == rscaled(k, %s)' % (MVP('beta', 'p'), MVP('beta', 'q')))])

# ============================================================================ C16: train + test statistics = totals
fn('lemma_simulator.c16_totals', cls='Simulator', props='C16',
   params={'sim': 'obj:Simulator'},
   requires=['INV(sim)', 'sim.is_ordered', 'distinct(sim.arms)'],
   modifies=['sim.test_indices', 'sim._chunk_size'], chain=True,
   ensures=['[C16,totals.count] forall_arm(lambda x: implies(mem(sim.arms, x), val(component(result, 1), x, "count") + '
            'val(component(result, 2), x, "count") == val(component(result, 0), x, "count")))',
            '[C16,totals.sum] forall_arm(lambda x: implies(mem(sim.arms, x), val(component(result, 1), x, "sum") + '
            'val(component(result, 2), x, "sum") == val(component(result, 0), x, "sum")))'])
