"""Contracts for mabwiser/mab.py: the public facade MAB (C04, C06, C08, C14, C17, C18)."""
from pyvc.spec import klass, fn

IMPS = '{_EpsilonGreedy|_UCB1|_Softmax|_ThompsonSampling|_Popularity|_Random|_Linear|_Radius|_KNearest}'
# (LSHNearest, Clusters and TreeBandit receivers are not under contract yet: see DESIGN.md)

CONTEXTUAL = ('(isinstance(self._imp, _Linear) or isinstance(self._imp, _Radius) or isinstance(self._imp, _KNearest))')
klass('MAB',
      fields={'arms': 'list:arm', 'seed': 'int const', 'n_jobs': 'int const', 'backend': 'optopaque const',
              '_rng': 'rng', '_is_initial_fit': 'bool', 'is_contextual': 'bool const', '_imp': 'obj:' + IMPS},
      # the facade, its implementor (and the learning policy inside a neighbourhood policy) share one arm list and one generator
      views=[('arms', '_imp.arms'), ('_rng', '_imp.rng')],
      inv=['INV(self._imp)~soft~pop',
           '[C08,mab.contextual] self.is_contextual == %s' % CONTEXTUAL,
           '[C08,mab.fitted] (not self._is_initial_fit) or fitted(self._imp)'])

ARM_OK = 'not arm_is_none(arm) and not arm_is_nan(arm) and not arm_is_inf(arm)'
fn('mab.MAB.add_arm', props='C08 C14 C17 C18', public=True,
   params={'arm': 'arm', 'binarizer': 'opt:binarizer'},
   requires=['INV'], raises='*',
   modifies=['self.arms[*]', 'self._imp.**'],
   # C08: the new arm is present immediately, at the end of the arm list; C17: a rejected call changes nothing
   ensures=['INV', '[C08,arms] self.arms == appended(old(self.arms), arm)', '[C08,new] not old(mem(self.arms, arm))',
            '[C17,valid] ' + ARM_OK])
fn('mab.MAB.remove_arm', props='C08 C17 C18', public=True,
   params={'arm': 'arm'},
   requires=['INV', 'slen(self.arms) > 1'], raises='*',
   modifies=['self.arms[*]', 'self._imp.**'],
   ensures=['INV', '[C08,arms] self.arms == removed(old(self.arms), arm)', '[C08,was] old(mem(self.arms, arm))'])
