"""Contracts for mabwiser/mab.py: the public facade MAB (C04, C06, C08, C14, C17, C18)."""
from pyvc.spec import klass, fn

IMPS = '{_EpsilonGreedy|_UCB1|_Softmax|_ThompsonSampling|_Popularity|_Random|_Linear|_Radius|_KNearest|_LSHNearest}'
# (Clusters and TreeBandit receivers are not under contract: see DESIGN.md)
NBH = '(isinstance(self._imp, _Radius) or isinstance(self._imp, _KNearest) or isinstance(self._imp, _LSHNearest))'

CONTEXTUAL = '(isinstance(self._imp, _Linear) or %s)' % NBH
klass('MAB',
      fields={'arms': 'list:arm', 'seed': 'int const', 'n_jobs': 'int const', 'backend': 'optopaque const',
              '_rng': 'rng', '_is_initial_fit': 'bool', 'is_contextual': 'bool const', '_imp': 'obj:' + IMPS},
      # the facade, its implementor (and the learning policy inside a neighbourhood policy) share one arm list and one generator
      views=[('arms', '_imp.arms'), ('_rng', '_imp.rng')],
      inv=['INV(self._imp)~soft~pop',
           '[C08,mab.contextual] self.is_contextual == %s' % CONTEXTUAL,
           '[C08,mab.fitted] (not self._is_initial_fit) or fitted(self._imp)',
           # C14: only a neighbourhood policy converts rewards ahead of its learning policy
           '[C14,mab.ts] (not isinstance(self._imp, _ThompsonSampling)) or not self._imp.is_contextual_binarized'])

ARM_OK = 'not arm_is_none(arm) and not arm_is_nan(arm) and not arm_is_inf(arm)'
fn('mab.MAB.add_arm', props='C08 C14 C17 C18', public=True,
   params={'arm': 'arm', 'binarizer': 'opt:binarizer'},
   requires=['INV'], raises='*',
   modifies=['self.arms[*]', 'self._imp.**'],
   # C08: the new arm is present immediately, at the end of the arm list; C17: a rejected call changes nothing
   ensures=['INV', '[C08,arms] self.arms == appended(old(self.arms), arm)', '[C08,new] not old(mem(self.arms, arm))',
            '[C17,valid] ' + ARM_OK])
fn('mab.MAB.remove_arm', props='C08 C17 C18', public=True,
   params={'arm': 'arm'},
   requires=['INV', 'slen(self.arms) > 1'], raises='*',
   modifies=['self.arms[*]', 'self._imp.**'],
   ensures=['INV', '[C08,arms] self.arms == removed(old(self.arms), arm)', '[C08,was] old(mem(self.arms, arm))'])

# ------------------------------------------------------------------------- containers (C18) and validation (C17)
AL_D = 'arraylike:A'
AL_R = 'arraylike:R'
AL_X = 'arraylike:M'
ACCEPTED_1D = '(al_is_list(%s) or al_is_ndarray(%s) or al_is_series(%s))'


def converted_kind(run, env):
    v = env['array_like']
    return {'A': 'aseq', 'R': 'rseq', 'M': 'mat'}[v.what.split(':')[1]] if hasattr(v, 'what') and ':' in v.what else 'aseq'


fn('mab.MAB._convert_array', props='C18', pure=True, functional=True, reads=[],
   params={'array_like': AL_D},
   raises=['NotImplementedError'], raises_iff='not ' + ACCEPTED_1D % (('array_like',) * 3),
   # C18: whatever the container (list, ndarray, Series), the implementor receives an ndarray with the same elements
   ensures=['[C18,same.elements] content_of(result) == content_of(array_like)'], result=converted_kind)

ACCEPTED_2D = '(al_is_ndarray(contexts) or al_is_list(contexts) or al_is_dataframe(contexts) or al_is_series(contexts))'
IS_LIN_LP = ('(isinstance(self._imp, _Linear) or (' + NBH + ' and '
             'isinstance(self._imp.lp, _Linear)))')
NUMF = ('(slen(val(self._imp.arm_to_model, at(self.arms, 0), "beta")) if isinstance(self._imp, _Linear) else '
        'cols(self._imp.contexts))')
SERIES_AS_COLUMN = '((slen(decisions) > 1) if not is_none(decisions) else (%s == 1))' % NUMF


def ctx_kind(run, env):
    from pyvc.values import NoneV
    return 'none' if isinstance(env['contexts'], NoneV) else 'mat'


fn('mab.MAB.__convert_context', props='C18', pure=True,
   params={'contexts': 'opt:arraylike:M', 'decisions': 'opt:aseq'},
   requires=['INV', 'slen(self.arms) > 0',
             # predict-time disambiguation of a Series reads the fitted model
             'is_none(contexts) or not al_is_series(contexts) or not is_none(decisions) or (self._is_initial_fit and '
             'self.is_contextual)'],
   raises=['NotImplementedError'], raises_iff='not is_none(contexts) and not ' + ACCEPTED_2D,
   modifies=[], result=ctx_kind,
   # C18: every accepted container yields the same C-ordered matrix; a Series is a column of single-feature rows or one row
   ensures=['[C18,none] is_none(result) == is_none(contexts)',
            '[C18,same.elements] is_none(contexts) or al_is_series(contexts) or matrix_of(result) == matrix_of(contexts)',
            '[C18,series] is_none(contexts) or not al_is_series(contexts) or matrix_of(result) == '
            '(as_column(reals_of(contexts)) if %s else as_row(reals_of(contexts)))' % SERIES_AS_COLUMN])

# ----------------------------------------------------------------------------------------- training
MAB_FIT = {'decisions': AL_D, 'rewards': AL_R, 'contexts': 'opt:arraylike:M'}
NONEMPTY = 'slen(content_of(decisions)) >= 1'      # training on an empty batch is outside the statements
WIDTH_OK = ('is_none(contexts) or (cols(matrix_of(contexts)) >= 1 if not al_is_series(contexts) else '
            'slen(reals_of(contexts)) >= 1)')
fn('mab.MAB.fit', props='C06 C07 C08 C17 C18', public=True,
   params=MAB_FIT,
   requires=['INV', 'slen(self.arms) > 0', WIDTH_OK, NONEMPTY],
   raises='*', callee_rejects=['fit'],
   modifies=['self._imp.**', 'self._is_initial_fit', 'self._rng.rng.state'],      # LSHNearest draws its hyperplanes in fit
   # C17: every rejection happens before the first write;  C18: the implementor is given the converted arrays only
   ensures=['INV', '[C07,C08,fitted] self._is_initial_fit'])
fn('mab.MAB.partial_fit', props='C06 C08 C17 C18', public=True,
   params=MAB_FIT,
   requires=['INV', 'slen(self.arms) > 0', WIDTH_OK, NONEMPTY],
   raises='*',
   modifies=['self._imp.**', 'self._is_initial_fit', 'self._rng.rng.state'],
   # C06: the first partial_fit of an unfitted bandit is a fit
   ensures=['INV', '[C06,C08,fitted] self._is_initial_fit'])

OK1D = lambda v: ACCEPTED_1D % ((v,) * 3)     # noqa: E731
CTX_TYPE_OK = ('((al_is_ndarray(contexts) and al_ndim(contexts) == 2) or (al_is_list(contexts) and al_ndim(contexts) == 2) or '
               '((not al_is_ndarray(contexts)) and (not al_is_list(contexts)) and (al_is_series(contexts) or '
               'al_is_dataframe(contexts))))')
LEN_OK = ('(al_len(decisions) == al_len(contexts) or (al_len(decisions) == 1 and al_is_series(contexts)))')
IS_TS_NOBIN = ('((isinstance(self._imp, _ThompsonSampling) and is_none(self._imp.binarizer)) or '
               '(' + NBH + ' and '
               'isinstance(self._imp.lp, _ThompsonSampling) and is_none(self._imp.lp.binarizer)))')
VALID_FIT = ('(%s and %s and ((%s and self.is_contextual and %s) if not is_none(contexts) else (not self.is_contextual)) and '
             'al_len(decisions) == al_len(rewards) and ((not %s) or binary(reals_of(rewards))))'
             % (OK1D('decisions'), OK1D('rewards'), CTX_TYPE_OK, LEN_OK, IS_TS_NOBIN))
fn('mab.MAB._validate_fit_args', props='C17 C18', pure=True,
   params=MAB_FIT, requires=['INV'],
   raises='*', raises_iff='not ' + VALID_FIT, modifies=[],
   # C17: the documented invalid arguments are exactly the rejected ones, and nothing is touched
   ensures=['[C17,valid] ' + VALID_FIT])

# ---------------------------------------------------------------------------------------- prediction
def mab_pred_result(is_predict):
    def f(run, env):
        from pyvc.values import NoneV, OpaqueV
        from specs.base_mab import pe_result, pred_result
        from pyvc import libarraylike as AL
        # the implementor sees the converted contexts: one result for no contexts or a single row, else a list
        ctx = env.get('contexts')
        env2 = dict(env)
        if isinstance(ctx, OpaqueV):
            from pyvc.values import MatV
            env2['contexts'] = MatV(AL.as_mat(ctx.term))
        return (pred_result if is_predict else pe_result)(run, env2)
    return f


PRED_REQ = ['INV', 'slen(self.arms) > 0',
            # the query has the width the model was trained with (not validated by the library: NumPy would raise inside)
            'is_none(contexts) or al_is_series(contexts) or (not self.is_contextual) or (not self._is_initial_fit) or '
            'cols(matrix_of(contexts)) == %s' % NUMF,
            'is_none(contexts) or al_is_series(contexts) or al_len(contexts) >= 1',
            'is_none(contexts) or not al_is_series(contexts)',      # Series queries: see __convert_context
            '(not isinstance(self._imp, _KNearest)) or (not self._is_initial_fit) or self._imp.k <= slen(self._imp.decisions)']
for _name, _isp in (('predict', True), ('predict_expectations', False)):
    fn('mab.MAB.' + _name, props='C08 C09 C10 C17 C18', public=True,
       params={'contexts': 'opt:arraylike:M'},
       requires=PRED_REQ, raises='*',
       modifies=['self._rng.rng.state', 'self._imp.**'],
       # C10 / C17: nothing the bandit has learned changes; what the implementor's own contract says is returned
       ensures=['INV', '[C17,fitted] old(self._is_initial_fit)',
                '[C17,contexts] (not self.is_contextual) or not is_none(contexts)'])

fn('mab.MAB.warm_start', props='C13 C17 C18', public=True,
   params={'arm_to_features': 'map:rseq', 'distance_quantile': 'real'},
   requires=['INV', 'slen(self.arms) > 0', 'distinct(keys(arm_to_features))'], raises='*',
   modifies=['self._imp.**'],
   ensures=['INV', '[C17,quantile] 0 <= distance_quantile and distance_quantile <= 1',
            '[C17,features] forall_arm(lambda a: mem(self.arms, a) == inkeys(arm_to_features, a))'])
fn('mab.MAB.cold_arms', props='C13', public=True, pure=True,
   requires=['INV'], modifies=[],
   # C13: exactly the arms that are neither observed nor warm-started (none is reported under a neighbourhood policy)
   ensures=['[C13,cold] forall_arm(lambda a: mem(result, a) == ((not ' + NBH + ') and mem(self.arms, a) and '
            'not val(self._imp.arm_to_status, a, "is_trained") '
            'and not val(self._imp.arm_to_status, a, "is_warm")))'],
   result='alist')

# --------------------------------------------------------------------------------------- construction
for _c, _f in (('LearningPolicy.EpsilonGreedy', {'epsilon': 'real'}),
               ('LearningPolicy.LinGreedy', {'epsilon': 'real', 'l2_lambda': 'real', 'scale': 'bool'}),
               ('LearningPolicy.LinTS', {'alpha': 'real', 'l2_lambda': 'real', 'scale': 'bool'}),
               ('LearningPolicy.LinUCB', {'alpha': 'real', 'l2_lambda': 'real', 'scale': 'bool'}),
               ('LearningPolicy.Popularity', {}), ('LearningPolicy.Random', {}),
               ('LearningPolicy.Softmax', {'tau': 'real'}),
               ('LearningPolicy.ThompsonSampling', {'binarizer': 'optbinarizer'}),
               ('LearningPolicy.UCB1', {'alpha': 'real'}),
               ('NeighborhoodPolicy.Radius', {'radius': 'real', 'metric': 'str', 'no_nhood_prob_of_arm': 'optrlist'}),
               ('NeighborhoodPolicy.KNearest', {'k': 'int', 'metric': 'str'}),
               ('NeighborhoodPolicy.LSHNearest', {'n_dimensions': 'int', 'n_tables': 'int', 'no_nhood_prob_of_arm': 'optrlist'})):
    klass(_c, fields=_f)
LPOL = ('{LearningPolicy.EpsilonGreedy|LearningPolicy.LinGreedy|LearningPolicy.LinTS|LearningPolicy.LinUCB|'
        'LearningPolicy.Popularity|LearningPolicy.Random|LearningPolicy.Softmax|LearningPolicy.ThompsonSampling|'
        'LearningPolicy.UCB1}')
NPOL = '{NeighborhoodPolicy.Radius|NeighborhoodPolicy.KNearest|NeighborhoodPolicy.LSHNearest}'
fn('mab.MAB.__init__', props='C04 C08 C17 C18', public=True,
   params={'arms': 'list:arm', 'learning_policy': 'obj:' + LPOL, 'neighborhood_policy': 'opt:obj:' + NPOL, 'seed': 'int',
           'n_jobs': 'int', 'backend': 'optopaque'},
   requires=[  # the library does not check these (they surface later as NumPy errors): documented preconditions
       'is_none(neighborhood_policy) or not (isinstance(neighborhood_policy, NeighborhoodPolicy.Radius) or '
       'isinstance(neighborhood_policy, NeighborhoodPolicy.LSHNearest)) or '
       'is_none(neighborhood_policy.no_nhood_prob_of_arm) or slen(neighborhood_policy.no_nhood_prob_of_arm) == slen(arms)',
       # l2_lambda = 0 is accepted by the validation of LinGreedy / LinUCB but makes the initial model singular
       '(not (isinstance(learning_policy, LearningPolicy.LinGreedy) or isinstance(learning_policy, LearningPolicy.LinUCB))) '
       'or learning_policy.l2_lambda > 0'],
   raises='*', modifies=['self.**'],
   ensures=['INV',
            # C04: all randomness of the bandit flows from one generator created from the seed
            '[C04,seed] rngstate(self._rng) == rng_init_of(seed)', '[C04,fresh.rng] self.seed == seed',
            # C18: the bandit's arm list is an independent copy of the caller's list
            '[C04,C08,C18,arms.copy] not same(self.arms, arms)', '[C08,C18,arms.equal] self.arms == arms',
            '[C07,unfitted] not self._is_initial_fit'])
