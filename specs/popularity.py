"""Contracts for mabwiser/popularity.py (_Popularity, a subclass of _EpsilonGreedy with epsilon = 0)."""
from pyvc.spec import klass, fn
from specs.base_mab import (FIT_PARAMS, INIT_PARAMS, status_fresh, forall_arms, S0, M_ROWS as M, N_ARMS as N,
                            STATUS_AFTER_FIT, STATUS_AFTER_PARTIAL, arm_change_contracts, predict_contracts)

MEAN = '(val(self.arm_to_sum, %s) / val(self.arm_to_count, %s) if val(self.arm_to_count, %s) > 0 else 0)'
MEAN_A = MEAN % ('a', 'a', 'a')
TOTAL = 'msum_over(keys(self.arm_to_expectation), lambda b: %s)' % (MEAN % ('b', 'b', 'b'))
POP_SHARE = 'implies(%s != 0, %s)' % (TOTAL, forall_arms('val(self.arm_to_expectation, a) == %s / %s' % (MEAN_A, TOTAL)))
klass('_Popularity', fields={},
      # C01: the arm means normalised to sum to one (whenever some mean is non-zero)
      inv=['[stat.mean] True',        # replaces the greedy clause: a Popularity expectation is a share, not a mean
           '[C01,C06,pop.share] implies(%s != 0, %s)' % (TOTAL, forall_arms('val(self.arm_to_expectation, a) == %s / %s'
                                                                           % (MEAN_A, TOTAL)))])

fn('popularity._Popularity.__init__', props='C01 C04 C08', inline=True,
   params=INIT_PARAMS, requires=['distinct(arms)', 'n_jobs != 0'], modifies=['self.**'],
   ensures=['[alias.arms] same(self.arms, arms)', '[alias.rng] same(self.rng, rng)', 'self.epsilon == 0', 'INV',
            '[neutral] ' + forall_arms('val(self.arm_to_sum, a) == 0 and val(self.arm_to_count, a) == 0 and '
                                       'val(self.arm_to_expectation, a) == 0 and ' + status_fresh())])

# the inherited greedy steps, as they behave on a Popularity object: they leave *raw* means behind
RAW = forall_arms('val(self.arm_to_expectation, a) == ' + MEAN_A)
SHAPE = ['INV.keys', 'INV.arms', '[C01,stat.count] ' + forall_arms('val(self.arm_to_count, a) >= 0')]
GMODS = ['self.arm_to_sum[*]', 'self.arm_to_count[*]', 'self.arm_to_expectation[*]']
FRESH = ['[C01,C07,fresh.sum] ' + forall_arms('val(self.arm_to_sum, a) == ssum(sel(rewards, decisions, a))'),
         '[C01,C07,fresh.count] ' + forall_arms('val(self.arm_to_count, a) == cnt(decisions, a)'),
         '[C07,C13,fresh.status] ' + STATUS_AFTER_FIT]
ACC = ['[C01,C06,acc.sum] ' + forall_arms('val(self.arm_to_sum, a) == old(val(self.arm_to_sum, a)) + '
                                          'ssum(sel(rewards, decisions, a))'),
       '[C01,C06,acc.count] ' + forall_arms('val(self.arm_to_count, a) == old(val(self.arm_to_count, a)) + '
                                            'cnt(decisions, a)'),
       '[C13,acc.status] ' + STATUS_AFTER_PARTIAL]
fn('greedy._EpsilonGreedy.fit', cls='_Popularity', props='C01 C06 C07 C08',
   params=FIT_PARAMS,
   requires=['INV.keys', 'INV.arms', 'slen(decisions) == slen(rewards)', 'slen(self.arms) > 0'],
   modifies=GMODS + ['self.arm_to_status'],
   ensures=SHAPE + ['[raw] ' + RAW] + FRESH)
fn('greedy._EpsilonGreedy.partial_fit', cls='_Popularity', props='C01 C06 C08',
   params=FIT_PARAMS,
   requires=SHAPE + ['slen(decisions) == slen(rewards)', 'slen(self.arms) > 0'],
   modifies=GMODS + ['self.arm_to_status[*]'],
   ensures=SHAPE + ACC +
   ['[touched] ' + forall_arms('val(self.arm_to_expectation, a) == (%s if cnt(decisions, a) > 0 else '
                               'old(val(self.arm_to_expectation, a)))' % MEAN_A)])

fn('popularity._Popularity._normalize_expectations', props='C01 C06 C07',
   requires=['INV.arms', 'distinct(keys(self.arm_to_expectation))', 'slen(self.arms) > 0'],
   modifies=['self.arm_to_expectation[*]'],
   ensures=['[share] implies(old(msum(self.arm_to_expectation)) != 0, ' +
            forall_arms('val(self.arm_to_expectation, a) == old(val(self.arm_to_expectation, a)) / '
                        'old(msum(self.arm_to_expectation))') + ')',
            '[uniform] implies(old(msum(self.arm_to_expectation)) == 0, ' +
            forall_arms('val(self.arm_to_expectation, a) == 1 / slen(self.arms)') + ')'])

fn('popularity._Popularity.fit', props='C01 C06 C07 C08 C20',
   params=FIT_PARAMS,
   requires=['INV.keys', 'INV.arms', 'slen(decisions) == slen(rewards)', 'slen(self.arms) > 0'],
   modifies=GMODS + ['self.arm_to_status'],
   ensures=['INV'] + FRESH +
   ['[C01,uniform] implies(%s == 0, %s)' % (TOTAL, forall_arms('val(self.arm_to_expectation, a) == 1 / slen(self.arms)'))])

fn('popularity._Popularity.partial_fit', props='C01 C06 C08 C20',
   params=FIT_PARAMS,
   requires=['INV~pop', 'slen(decisions) == slen(rewards)', 'slen(self.arms) > 0'],
   modifies=GMODS + ['self.arm_to_status[*]'],
   ensures=['INV'] + ACC +
   ['[C01,C06,uniform] implies(%s == 0, %s)' % (TOTAL, forall_arms('val(self.arm_to_expectation, a) == 1 / slen(self.arms)'))])

ALPHA = 'shifted_values(old(self.arm_to_expectation), EPS())'
E1 = 'mat_at(draw_dirichlet(%s, %s, 1), 0, pos(self.arms, a))' % (S0, ALPHA)
EM = 'mat_at(draw_dirichlet(%s, %s, %s), j, pos(self.arms, a))' % (S0, ALPHA, M)
predict_contracts('popularity', '_Popularity', E1, EM,
                  'next_dirichlet(%s, %s, 1)' % (S0, ALPHA), 'next_dirichlet(%s, %s, %s)' % (S0, ALPHA, M),
                  requires=('INV.keys', 'INV.arms'))

# add_arm: the new arm holds 0, the shares of the others are untouched.  remove_arm re-normalises the remaining shares;
# its arithmetic (a sum over the remaining keys of already normalised values) is not within reach of the axioms for
# msum, so only the key structure is claimed for remove_arm.
arm_change_contracts('_Popularity', ['arm_to_sum', 'arm_to_count', 'arm_to_expectation'],
                     'val(self.arm_to_sum, arm) == 0 and val(self.arm_to_count, arm) == 0 and '
                     'val(self.arm_to_expectation, arm) == 0', other_maps=['arm_to_sum', 'arm_to_count'],
                     props='C01 C08', rem_req=['slen(self.arms) > 0'], rem_inv='INV~pop', pre_inv='INV~arms~pop',
                     add_inv='INV~pop',
                     # the shares of the other arms are untouched, the new arm's share is 0: still the normalised means
                     add_ens=['[C01,pop.keep] implies(old(%s), %s)' % (POP_SHARE, POP_SHARE)])

# warm start copies the (normalised) share of the warm arm along with its sum and count: the shares no longer sum to
# one afterwards (C01 does not quantify over warm_start histories; C13's "exact copy" is what is claimed)
from specs.base_mab import warm_start_contracts
warm_start_contracts('popularity', '_Popularity', ['arm_to_sum', 'arm_to_count', 'arm_to_expectation'], inv='INV~pop',
                     copy_qual='greedy._EpsilonGreedy._copy_arms')
