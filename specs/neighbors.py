"""Contracts for mabwiser/neighbors.py: _Neighbors, _Radius, _KNearest (C03, C05, C06, C07, C10, C14, C17)."""
import re
from pyvc.spec import klass, fn
from specs.base_mab import (INIT_PARAMS, forall_arms, pe_result, pred_result, status_fresh, ADD_REQ, REM_REQ)

LPS = '{_EpsilonGreedy|_UCB1|_Softmax|_ThompsonSampling|_Popularity|_Random|_Linear}'


def _history_setup(run, st, ref):
    """before the first fit the three history columns are None (together)"""
    from pyvc.values import NONE
    if run.path.choice(2) == 1:
        o = st.heap[ref.loc]
        for f in ('decisions', 'rewards', 'contexts'):
            o = o.set(f, NONE)
        st.heap[ref.loc] = o
        run.choices = getattr(run, 'choices', []) + ['unfitted']


IS_TS = 'isinstance(self.lp, _ThompsonSampling)'
klass('_Neighbors',
      fields={'lp': 'obj:' + LPS, 'metric': 'str const', 'no_nhood_prob_of_arm': 'optrlist',
              'decisions': 'aseq', 'rewards': 'rseq', 'contexts': 'mat', 'arm_to_features': 'none',
              'distance_quantile': 'none'},
      views=[('lp.arms', 'arms'), ('lp.rng', 'rng')], setup=_history_setup,
      inv=['INV(self.lp)~soft~pop',
           # C03: the stored history is row-aligned
           '[C03,C17,hist.aligned] is_none(self.decisions) or (slen(self.decisions) == slen(self.rewards) and '
           'rows(self.contexts) == slen(self.decisions) and cols(self.contexts) >= 1)',
           '[C03,hist.together] is_none(self.decisions) == is_none(self.contexts) and '
           'is_none(self.decisions) == is_none(self.rewards)',
           # C03: with an empty neighbourhood every arm's expectation is NaN
           '[C03,C11,nan.exp] ' + forall_arms('isnan(val(self.arm_to_expectation, a))'),
           # C03: the empty-neighbourhood distribution covers the arms (broken by add_arm / remove_arm: known finding D13)
           '[C03,C08,arms.nhood.plen] is_none(self.no_nhood_prob_of_arm) or slen(self.no_nhood_prob_of_arm) == slen(self.arms)',
           # C14: once the neighbourhood policy has converted the rewards, the learning policy must not convert again
           '[C14,ts.flag] (not %s) or is_none(self.lp.binarizer) or is_none(self.decisions) or '
           'self.lp.is_contextual_binarized' % IS_TS,
           '[C14,ts.binary] (not %s) or is_none(self.rewards) or binary(self.rewards)' % IS_TS])

NB_FIT = {'decisions': 'aseq', 'rewards': 'rseq', 'contexts': 'mat'}
STORED_R = ('(binarized(self.lp.binarizer, decisions, rewards) if (%s and not is_none(self.lp.binarizer)) else rewards)'
            % IS_TS)
TS_IN = '(not %s) or (not is_none(self.lp.binarizer)) or binary(rewards)' % IS_TS
fn('neighbors._Neighbors.fit', props='C03 C06 C07 C14 C17',
   params=NB_FIT,
   requires=['INV~hist', 'slen(decisions) == slen(rewards)', 'rows(contexts) == slen(decisions)', 'cols(contexts) >= 1', TS_IN],
   modifies=['self.decisions', 'self.contexts', 'self.rewards', 'self.lp.is_contextual_binarized?'],
   # C07: the history is replaced; C14: Thompson rewards are converted exactly once, here
   ensures=['INV', '[C03,C07,hist.d] self.decisions == decisions', '[C03,C07,hist.x] self.contexts == contexts',
            '[C03,C07,C14,hist.r] same_elems(self.rewards, %s)' % STORED_R])
fn('neighbors._Neighbors.partial_fit', props='C03 C06 C14 C17',
   params=NB_FIT,
   requires=['INV', 'not is_none(self.decisions)', 'slen(decisions) == slen(rewards)', 'rows(contexts) == slen(decisions)',
             TS_IN],
   raises=['ValueError'], raises_iff='cols(contexts) != cols(self.contexts)',
   modifies=['self.decisions', 'self.contexts', 'self.rewards', 'self.lp.is_contextual_binarized?'],
   # C03 / C06: the rows of every partial_fit are appended, in order, to all three columns
   ensures=['INV', '[C03,C06,hist.d] self.decisions == concat(old(self.decisions), decisions)',
            '[C03,C06,hist.x] self.contexts == vstack(old(self.contexts), contexts)',
            '[C03,C06,C14,hist.r] same_elems(self.rewards, concat(old(self.rewards), %s))' % STORED_R])


# ----------------------------------------------------------------------------------------- prediction
def nh_result(run, env):
    """an arm for predict, a dict of expectations for predict_expectations"""
    from pyvc.engine import to_bool_term
    return 'arm' if run.branch(to_bool_term(env['is_predict'])) else 'map:real'


def idx_param(run, name):
    pass


LP_READY = ['INV(lp)~soft~pop', 'lp.arms == self.arms', 'slen(self.arms) > 0']
HIST = ['not is_none(self.decisions)', 'INV.hist', 'INV.ts']
# The value a row gets from a non-empty neighbourhood: the learning policy lp (a private copy, freshly seeded) is
# trained from scratch on exactly the selected rows and then asked.  The contract is *functional*: the value is a
# function of lp's configuration, its generator state, the selected rows and the query -- not of anything lp
# learned before (checked by self-composition; this is where a learning policy whose fit() left a residue, or
# that draws from a generator the row seed does not reach, is caught).
fn('neighbors._Neighbors._get_nhood_predictions', props='C03 C05 C07 C09 C10 C11 C12',
   params={'lp': 'like:self.lp', 'indices': 'indices', 'row_2d': 'mat', 'is_predict': 'flag'},
   requires=HIST + LP_READY + ['rows(row_2d) == 1', 'cols(row_2d) == cols(self.contexts)',
                              'indices_in_range(indices, slen(self.decisions))', 'n_indices(indices) > 0',
                              '(not isinstance(lp, _ThompsonSampling)) or is_none(lp.binarizer) or lp.is_contextual_binarized'],
   modifies=['lp.**', 'lp.rng.rng.state'],
   functional=True, varies=['lp'], result=nh_result, functional_props='C03 C05 C07',
   reads=['lp:config', 'rngstate(lp.rng)', 'lp.binarizer?', 'lp.is_contextual_binarized?', 'self.arms', 'self.decisions',
          'self.rewards', 'self.contexts'],
   ensures=['[C08,member] mem(self.arms, result) if is_predict else keys(result) == self.arms',
            # lp is left in a consistent (freshly trained) state
            'INV(lp)~soft~pop', 'lp.arms == self.arms',
            '(not isinstance(lp, _ThompsonSampling)) or is_none(lp.binarizer) or lp.is_contextual_binarized',
            '(not isinstance(lp, _ThompsonSampling)) or (lp.binarizer == old(lp.binarizer) and '
            'lp.is_contextual_binarized == old(lp.is_contextual_binarized))'])

fn('neighbors._Neighbors._get_no_nhood_predictions', props='C03 C08 C09',
   params={'lp': 'like:self.lp', 'is_predict': 'flag'},
   requires=['INV.arms', 'INV.keys', 'INV.nan', 'slen(self.arms) > 0'],
   modifies=['lp.rng.rng.state'], result=nh_result,
   functional=True, reads=['rngstate(lp.rng)', 'self.arms', 'self.no_nhood_prob_of_arm'],
   # C03: NaN for every arm; predict draws an arm from the configured distribution, never one with probability zero
   ensures=['[C03,C08,empty] (mem(self.arms, result) and (is_none(self.no_nhood_prob_of_arm) or '
            'at(self.no_nhood_prob_of_arm, pos(self.arms, result)) > 0)) if is_predict else '
            '(keys(result) == self.arms and forall_arm(lambda a: implies(mem(self.arms, a), isnan(val(result, a)))))'])

PC_PARAMS = {'contexts': 'mat', 'is_predict': 'flag', 'seeds': 'iseq', 'start_index': 'int'}
PC_REQ = ['INV', 'not is_none(self.decisions)', 'slen(self.arms) > 0', 'cols(contexts) == cols(self.contexts)',
          'slen(seeds) == rows(contexts)']
ROW = 'row2d(contexts, j)'
SEEDED = 'seeded(self.lp, ival(seeds, j))'
DIST = 'dists(self.contexts, %s, self.metric)' % ROW
RADIUS_ROW = ('(self._get_nhood_predictions(%s, within(%s, self.radius), %s, is_predict) if n_within(%s, self.radius) > 0 '
              'else self._get_no_nhood_predictions(%s, is_predict))' % (SEEDED, DIST, ROW, DIST, SEEDED))
KNN_ROW = 'self._get_nhood_predictions(%s, k_smallest(%s, self.k), %s, is_predict)' % (SEEDED, DIST, ROW)
LOOP_INV = {0: ['INV(lp)~soft~pop', 'lp.arms == self.arms',
                '(not isinstance(lp, _ThompsonSampling)) or is_none(lp.binarizer) or lp.is_contextual_binarized',
                '(not isinstance(lp, _ThompsonSampling)) or (lp.binarizer == self.lp.binarizer and '
                'lp.is_contextual_binarized == self.lp.is_contextual_binarized)']}
klass('_Radius', fields={'radius': 'real const'}, inv=[])
klass('_KNearest', fields={'k': 'int const'}, inv=['[C03,knn.k] self.k >= 1'])
fn('neighbors._Radius._predict_contexts', props='C03 C05 C08 C09 C10',
   params=PC_PARAMS, requires=PC_REQ, modifies=[], loops=LOOP_INV, result='list:pv',
   # C03 / C05: row j is answered from exactly the stored rows within the radius (boundary included) by a private,
   # freshly seeded copy of the learning policy; nothing depends on the other rows of the batch (row locality)
   ensures=['[C05,C08,len] slen(result) == rows(contexts)',
            '[C03,C05,C10,rowlocal] forall_int(lambda j: implies(0 <= j and j < rows(contexts), '
            'same_item(result, j, %s)))' % RADIUS_ROW])
fn('neighbors._KNearest._predict_contexts', props='C03 C05 C08 C09 C10',
   params=PC_PARAMS, requires=PC_REQ + ['self.k <= slen(self.decisions)'], modifies=[], loops=LOOP_INV, result='list:pv',
   ensures=['[C05,C08,len] slen(result) == rows(contexts)',
            '[C03,C05,C10,rowlocal] forall_int(lambda j: implies(0 <= j and j < rows(contexts), '
            'same_item(result, j, %s)))' % KNN_ROW])

NB_INIT = {**INIT_PARAMS, 'lp': 'obj:' + LPS, 'metric': 'str'}
NB_INIT_REQ = ['distinct(arms)', 'n_jobs != 0', 'INV(lp)~soft~pop', 'same(lp.arms, arms)', 'same(lp.rng, rng)',
               '(not isinstance(lp, _ThompsonSampling)) or not lp.is_contextual_binarized']
NB_INIT_ENS = ['[alias.arms] same(self.arms, arms)', '[alias.rng] same(self.rng, rng)', 'same(self.lp, lp)',
               'is_none(self.decisions)', 'INV']
fn('neighbors._Radius.__init__', props='C03 C04 C08', inline=True,
   params={**NB_INIT, 'radius': 'real', 'no_nhood_prob_of_arm': 'optrlist'},
   requires=NB_INIT_REQ + ['is_none(no_nhood_prob_of_arm) or slen(no_nhood_prob_of_arm) == slen(arms)'],
   modifies=['self.**'], ensures=NB_INIT_ENS + ['self.radius == radius'])
fn('neighbors._KNearest.__init__', props='C03 C04 C08', inline=True,
   params={**NB_INIT, 'k': 'int'}, requires=NB_INIT_REQ + ['k >= 1'],
   modifies=['self.**'], ensures=NB_INIT_ENS + ['self.k == k', 'is_none(self.no_nhood_prob_of_arm)'])


# ---------------------------------------------------------------- _parallel_predict with a neighbourhood receiver (C05)
INT32MAX = '2147483647'
SEEDS = 'draw_integers(%s, %s, rows(contexts))' % ('old(rngstate(self.rng))', INT32MAX)


def batch_row(row_term):
    """the row clause of _predict_contexts, read on the whole batch with the seeds drawn once up front"""
    return row_term.replace('ival(seeds, j)', 'ival(%s, j)' % SEEDS)


def parallel_predict_contract(cls, row_term, extra_req=(), trusted=False, note=''):
    fn('base_mab.BaseMAB._parallel_predict', cls=cls, props='C03 C05 C08 C09 C10', trusted=trusted, note=note,
       params={'contexts': 'mat', 'is_predict': 'flag'},
       requires=['INV', 'not is_none(self.decisions)', 'slen(self.arms) > 0', 'cols(contexts) == cols(self.contexts)',
                 'rows(contexts) >= 1'] + list(extra_req),
       modifies=['self.rng.rng.state'], result='parallel_result', telescope='starts',
       # C05: whatever the number of jobs and however the rows are split into chunks, row j of the answer is the
       # row-local value for (row j, seed j), the seeds being drawn once, before partitioning, from the bandit's generator
       ensures=['[C05,C08,shape] is_list_result(result) == (rows(contexts) > 1)',
                '[C05,C08,len] (slen(result) == rows(contexts)) if rows(contexts) > 1 else True',
                '[C03,C05,rows] (forall_int(lambda j: implies(0 <= j and j < rows(contexts), same_item(result, j, %s)))) '
                'if is_list_result(result) else same_item(as_list(result), 0, %s)'
                % (batch_row(row_term), re.sub(r'\bj\b', '0', batch_row(row_term))),
                '[C05,C10,stream] rngstate(self.rng) == next_integers(old(rngstate(self.rng)), %s, rows(contexts))' % INT32MAX])


parallel_predict_contract('_Radius', RADIUS_ROW)
parallel_predict_contract('_KNearest', KNN_ROW, ['self.k <= slen(self.decisions)'])


# ------------------------------------------------------------------------------------ arm changes (C03, C08)
NB_MODS = ['self.arm_to_expectation{}', 'self.arm_to_status{}', 'self.lp.**']
fn('base_mab.BaseMAB.add_arm', cls='_Neighbors', props='C03 C08 C11 C14',
   params={'arm': 'arm', 'binarizer': 'opt:binarizer'},
   requires=['INV~arms', 'self.arms == appended(keys(self.arm_to_expectation), arm)',
             'not inkeys(self.arm_to_expectation, arm)',
             'keys(self.lp.arm_to_expectation) == keys(self.arm_to_expectation)'],
   modifies=NB_MODS,
   # INV includes nhood.plen: a configured empty-neighbourhood distribution no longer matches the arms (known finding D13)
   ensures=['INV', '[C03,C08,C11,neutral] isnan(val(self.arm_to_expectation, arm)) and ' + status_fresh('arm'),
            '[C03,hist] self.decisions == old(self.decisions) and self.rewards == old(self.rewards) and '
            'self.contexts == old(self.contexts)'])
fn('base_mab.BaseMAB.remove_arm', cls='_Neighbors', props='C03 C08 C11',
   params={'arm': 'arm'},
   requires=['INV~arms', 'self.arms == removed(keys(self.arm_to_expectation), arm)', 'inkeys(self.arm_to_expectation, arm)',
             'keys(self.lp.arm_to_expectation) == keys(self.arm_to_expectation)',
             # removing the only arm of a Softmax / Popularity learning policy raises after the arm list was changed
             'slen(self.arms) > 0'],
   modifies=NB_MODS,
   ensures=['INV', '[C03,hist] self.decisions == old(self.decisions) and self.rewards == old(self.rewards) and '
            'self.contexts == old(self.contexts)'])
