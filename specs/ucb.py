"""Contracts for mabwiser/ucb.py (_UCB1)."""
from pyvc.spec import klass, fn
from specs.base_mab import (FIT_PARAMS, INIT_PARAMS, status_fresh, forall_arms, S0, STATUS_AFTER_FIT,
                            STATUS_AFTER_PARTIAL, arm_change_contracts, predict_contracts)

MEAN = '(val(self.arm_to_sum, a) / val(self.arm_to_count, a) if val(self.arm_to_count, a) > 0 else 0)'
# C01: mean + alpha * sqrt(2 ln(N) / n), N = all observations since the most recent fit; 0 for an unobserved arm
UCB = ('(val(self.arm_to_mean, a) + self.alpha * sqrt(2 * ln(self.total_count) / val(self.arm_to_count, a)) '
       'if val(self.arm_to_count, a) > 0 else 0)')
klass('_UCB1',
      fields={'alpha': 'real const', 'total_count': 'int', 'arm_to_sum': 'map:real', 'arm_to_count': 'map:real',
              'arm_to_mean': 'map:real'},
      inv=['[C08,keys.sum] keys(self.arm_to_sum) == keys(self.arm_to_expectation)',
           '[C08,keys.count] keys(self.arm_to_count) == keys(self.arm_to_expectation)',
           '[C08,keys.mean] keys(self.arm_to_mean) == keys(self.arm_to_expectation)',
           '[C01,stat.count] ' + forall_arms('val(self.arm_to_count, a) >= 0 and '
                                             'implies(val(self.arm_to_count, a) > 0, self.total_count >= 1)'),
           '[C01,stat.total] self.total_count >= 0',
           '[C01,C06,stat.mean] ' + forall_arms('val(self.arm_to_mean, a) == ' + MEAN),
           '[C01,C06,stat.ucb] ' + forall_arms('val(self.arm_to_expectation, a) == ' + UCB)])

fn('ucb._UCB1.__init__', props='C01 C04 C08', inline=True,
   params={**INIT_PARAMS, 'alpha': 'real'},
   requires=['distinct(arms)', 'n_jobs != 0'],
   modifies=['self.**'],
   ensures=['[alias.arms] same(self.arms, arms)', '[alias.rng] same(self.rng, rng)', 'self.alpha == alpha',
            'self.total_count == 0', 'INV',
            '[neutral] ' + forall_arms('val(self.arm_to_sum, a) == 0 and val(self.arm_to_count, a) == 0 and '
                                       'val(self.arm_to_mean, a) == 0 and val(self.arm_to_expectation, a) == 0 and '
                                       + status_fresh())])

fn('ucb._UCB1._get_ucb', props='C01',
   params={'arm_mean': 'real', 'alpha': 'real', 'total_count': 'int', 'arm_count': 'real'},
   requires=['total_count >= 1', 'arm_count > 0'],
   ensures=['[formula] result == arm_mean + alpha * sqrt(2 * ln(total_count) / arm_count)'],
   result='real')

fn('ucb._UCB1._fit_arm', props='C01 C05 C06 C07 C20',
   params={'arm': 'arm', **FIT_PARAMS},
   requires=['INV.keys', 'INV.arms', 'mem(self.arms, arm)', 'slen(decisions) == slen(rewards)',
             'val(self.arm_to_count, arm) >= 0',
             'implies(val(self.arm_to_count, arm) > 0 or cnt(decisions, arm) > 0, self.total_count >= 1)'],
   modifies=['self.arm_to_sum[arm]', 'self.arm_to_count[arm]', 'self.arm_to_mean[arm]',
             'self.arm_to_expectation[arm]'],
   ensures=['[sum] self.arm_to_sum[arm] == old(self.arm_to_sum[arm]) + ssum(sel(rewards, decisions, arm))',
            '[count] self.arm_to_count[arm] == old(self.arm_to_count[arm]) + cnt(decisions, arm)',
            '[mean] self.arm_to_mean[arm] == (self.arm_to_sum[arm] / self.arm_to_count[arm] '
            'if cnt(decisions, arm) > 0 else old(self.arm_to_mean[arm]))',
            '[ucb] self.arm_to_expectation[arm] == (self.arm_to_mean[arm] + self.alpha * '
            'sqrt(2 * ln(self.total_count) / self.arm_to_count[arm]) if self.arm_to_count[arm] > 0 '
            'else old(self.arm_to_expectation[arm]))'])

MODS = ['self.arm_to_sum[*]', 'self.arm_to_count[*]', 'self.arm_to_mean[*]', 'self.arm_to_expectation[*]',
        'self.total_count']
fn('ucb._UCB1.fit', props='C01 C06 C07 C08 C20',
   params=FIT_PARAMS,
   requires=['INV.keys', 'INV.arms', 'slen(decisions) == slen(rewards)', 'slen(self.arms) > 0'],
   modifies=MODS + ['self.arm_to_status'],
   ensures=['INV',
            '[C01,C07,fresh.total] self.total_count == slen(decisions)',
            '[C01,C07,fresh.sum] ' + forall_arms('val(self.arm_to_sum, a) == ssum(sel(rewards, decisions, a))'),
            '[C01,C07,fresh.count] ' + forall_arms('val(self.arm_to_count, a) == cnt(decisions, a)'),
            '[C07,C13,fresh.status] ' + STATUS_AFTER_FIT])

fn('ucb._UCB1.partial_fit', props='C01 C06 C08 C20',
   params=FIT_PARAMS,
   requires=['INV', 'slen(decisions) == slen(rewards)', 'slen(self.arms) > 0'],
   modifies=MODS + ['self.arm_to_status[*]'],
   ensures=['INV',
            '[C01,C06,acc.total] self.total_count == old(self.total_count) + slen(decisions)',
            '[C01,C06,acc.sum] ' + forall_arms('val(self.arm_to_sum, a) == old(val(self.arm_to_sum, a)) + '
                                               'ssum(sel(rewards, decisions, a))'),
            '[C01,C06,acc.count] ' + forall_arms('val(self.arm_to_count, a) == old(val(self.arm_to_count, a)) + '
                                                 'cnt(decisions, a)'),
            '[C13,acc.status] ' + STATUS_AFTER_PARTIAL])

E = 'val(self.arm_to_expectation, a)'
predict_contracts('ucb', '_UCB1', E, E, S0, S0, modifies=())

UCB_MAPS = ['arm_to_sum', 'arm_to_count', 'arm_to_mean', 'arm_to_expectation']
arm_change_contracts('_UCB1', UCB_MAPS,
                     'val(self.arm_to_sum, arm) == 0 and val(self.arm_to_count, arm) == 0 and '
                     'val(self.arm_to_mean, arm) == 0 and val(self.arm_to_expectation, arm) == 0')

from specs.base_mab import warm_start_contracts
warm_start_contracts('ucb', '_UCB1', UCB_MAPS)
