"""Contracts for mabwiser/greedy.py (_EpsilonGreedy)."""
from pyvc.spec import klass, fn
from specs.base_mab import FIT_PARAMS, ARM_PARAMS

klass('_EpsilonGreedy',
      fields={'epsilon': 'real const', 'arm_to_sum': 'map:real', 'arm_to_count': 'map:real'},
      inv=['[C08,keys.sum] keys(self.arm_to_sum) == self.arms',
           '[C08,keys.count] keys(self.arm_to_count) == self.arms',
           '[C01,stat.count] forall_arm(lambda a: implies(mem(self.arms, a), val(self.arm_to_count, a) >= 0))',
           # C01: the exploit value is the running mean of the arm's rewards, 0 for an arm without observations
           '[C01,C06,stat.mean] forall_arm(lambda a: implies(mem(self.arms, a), val(self.arm_to_expectation, a) == '
           '(val(self.arm_to_sum, a) / val(self.arm_to_count, a) if val(self.arm_to_count, a) > 0 else 0)))'])

fn('greedy._EpsilonGreedy._fit_arm', props='C01 C05 C06 C07 C20',
   params={'arm': 'arm', **FIT_PARAMS},
   requires=['INV.keys', 'mem(self.arms, arm)', 'slen(decisions) == slen(rewards)',
             'val(self.arm_to_count, arm) >= 0'],
   modifies=['self.arm_to_sum[arm]', 'self.arm_to_count[arm]', 'self.arm_to_expectation[arm]'],
   ensures=['[sum] self.arm_to_sum[arm] == old(self.arm_to_sum[arm]) + ssum(sel(rewards, decisions, arm))',
            '[count] self.arm_to_count[arm] == old(self.arm_to_count[arm]) + cnt(decisions, arm)',
            '[mean] self.arm_to_expectation[arm] == (self.arm_to_sum[arm] / self.arm_to_count[arm] '
            'if cnt(decisions, arm) > 0 else old(self.arm_to_expectation[arm]))'])
