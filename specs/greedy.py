"""Contracts for mabwiser/greedy.py (_EpsilonGreedy)."""
from pyvc.spec import klass, fn
from specs.base_mab import (FIT_PARAMS, INIT_PARAMS, status_fresh, forall_arms, S0, M_ROWS as M, N_ARMS as N,
                            STATUS_AFTER_FIT, STATUS_AFTER_PARTIAL, arm_change_contracts, predict_contracts)

klass('_EpsilonGreedy',
      fields={'epsilon': 'real const', 'arm_to_sum': 'map:real', 'arm_to_count': 'map:real'},
      inv=['[C08,keys.sum] keys(self.arm_to_sum) == keys(self.arm_to_expectation)',
           '[C08,keys.count] keys(self.arm_to_count) == keys(self.arm_to_expectation)',
           '[C01,stat.count] ' + forall_arms('val(self.arm_to_count, a) >= 0'),
           # C01: the exploit value is the running mean of the arm's rewards, 0 for an arm without observations
           '[C01,C06,stat.mean] ' + forall_arms('val(self.arm_to_expectation, a) == (val(self.arm_to_sum, a) / '
                                               'val(self.arm_to_count, a) if val(self.arm_to_count, a) > 0 else 0)')])

fn('greedy._EpsilonGreedy.__init__', props='C01 C04 C08', inline=True,
   params={**INIT_PARAMS, 'epsilon': 'real'},
   requires=['distinct(arms)', 'n_jobs != 0'],
   modifies=['self.**'],
   ensures=['[alias.arms] same(self.arms, arms)', '[alias.rng] same(self.rng, rng)', 'self.epsilon == epsilon',
            'self.n_jobs == n_jobs', 'INV',
            '[neutral] ' + forall_arms('val(self.arm_to_sum, a) == 0 and val(self.arm_to_count, a) == 0 and '
                                       'val(self.arm_to_expectation, a) == 0 and ' + status_fresh())])

fn('greedy._EpsilonGreedy._fit_arm', props='C01 C05 C06 C07 C20',
   params={'arm': 'arm', **FIT_PARAMS},
   requires=['INV.keys', 'INV.arms', 'mem(self.arms, arm)', 'slen(decisions) == slen(rewards)',
             'val(self.arm_to_count, arm) >= 0'],
   modifies=['self.arm_to_sum[arm]', 'self.arm_to_count[arm]', 'self.arm_to_expectation[arm]'],
   ensures=['[sum] self.arm_to_sum[arm] == old(self.arm_to_sum[arm]) + ssum(sel(rewards, decisions, arm))',
            '[count] self.arm_to_count[arm] == old(self.arm_to_count[arm]) + cnt(decisions, arm)',
            '[mean] self.arm_to_expectation[arm] == (self.arm_to_sum[arm] / self.arm_to_count[arm] '
            'if cnt(decisions, arm) > 0 else old(self.arm_to_expectation[arm]))'])

fn('greedy._EpsilonGreedy.fit', props='C01 C06 C07 C08 C20',
   params=FIT_PARAMS,
   requires=['INV.keys', 'INV.arms', 'slen(decisions) == slen(rewards)', 'slen(self.arms) > 0'],
   modifies=['self.arm_to_sum[*]', 'self.arm_to_count[*]', 'self.arm_to_expectation[*]', 'self.arm_to_status'],
   ensures=['INV',
            # C07: every learned quantity is a function of the new data only (no old(...) on the right-hand side)
            '[C01,C07,fresh.sum] ' + forall_arms('val(self.arm_to_sum, a) == ssum(sel(rewards, decisions, a))'),
            '[C01,C07,fresh.count] ' + forall_arms('val(self.arm_to_count, a) == cnt(decisions, a)'),
            '[C07,C13,fresh.status] ' + STATUS_AFTER_FIT])

fn('greedy._EpsilonGreedy.partial_fit', props='C01 C06 C08 C20',
   params=FIT_PARAMS,
   requires=['INV', 'slen(decisions) == slen(rewards)', 'slen(self.arms) > 0'],
   modifies=['self.arm_to_sum[*]', 'self.arm_to_count[*]', 'self.arm_to_expectation[*]', 'self.arm_to_status[*]'],
   ensures=['INV',
            '[C01,C06,acc.sum] ' + forall_arms('val(self.arm_to_sum, a) == old(val(self.arm_to_sum, a)) + '
                                               'ssum(sel(rewards, decisions, a))'),
            '[C01,C06,acc.count] ' + forall_arms('val(self.arm_to_count, a) == old(val(self.arm_to_count, a)) + '
                                                 'cnt(decisions, a)'),
            '[C13,acc.status] ' + STATUS_AFTER_PARTIAL])

# expectation reported for arm a when there is no context / one row: with probability epsilon a fresh uniform draw
# per arm (in arm order), otherwise the stored mean.  S0 is the stream state at entry.
E1 = ('(draw_u(unext(next_u(%s), pos(self.arms, a))) if draw_u(%s) < self.epsilon else val(self.arm_to_expectation, a))'
      % (S0, S0))
EM = ('(mat_at(draw_um(next_uv(%s, %s), %s, %s), j, pos(self.arms, a)) if at(draw_uv(%s, %s), j) < self.epsilon '
      'else val(self.arm_to_expectation, a))' % (S0, M, M, N, S0, M))
predict_contracts('greedy', '_EpsilonGreedy', E1, EM,
                  '(unext(next_u(%s), %s) if draw_u(%s) < self.epsilon else next_u(%s))' % (S0, N, S0, S0),
                  'next_um(next_uv(%s, %s), %s, %s)' % (S0, M, M, N))

GREEDY_MAPS = ['arm_to_sum', 'arm_to_count', 'arm_to_expectation']
arm_change_contracts('_EpsilonGreedy', GREEDY_MAPS,
                     'val(self.arm_to_sum, arm) == 0 and val(self.arm_to_count, arm) == 0 and '
                     'val(self.arm_to_expectation, arm) == 0')

from specs.base_mab import warm_start_contracts
warm_start_contracts('greedy', '_EpsilonGreedy', GREEDY_MAPS)
