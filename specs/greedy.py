"""Contracts for mabwiser/greedy.py (_EpsilonGreedy)."""
from pyvc.spec import klass, fn
from specs.base_mab import (FIT_PARAMS, ARM_PARAMS, INIT_PARAMS, PRED_PARAMS, status_fresh, forall_arms, pe_result,
                            pred_result, SINGLE)

klass('_EpsilonGreedy',
      fields={'epsilon': 'real const', 'arm_to_sum': 'map:real', 'arm_to_count': 'map:real'},
      inv=['[C08,keys.sum] keys(self.arm_to_sum) == keys(self.arm_to_expectation)',
           '[C08,keys.count] keys(self.arm_to_count) == keys(self.arm_to_expectation)',
           '[C01,stat.count] ' + forall_arms('val(self.arm_to_count, a) >= 0'),
           # C01: the exploit value is the running mean of the arm's rewards, 0 for an arm without observations
           '[C01,C06,stat.mean] ' + forall_arms('val(self.arm_to_expectation, a) == (val(self.arm_to_sum, a) / '
                                               'val(self.arm_to_count, a) if val(self.arm_to_count, a) > 0 else 0)')])

fn('greedy._EpsilonGreedy.__init__', props='C01 C04 C08', inline=True,
   params={**INIT_PARAMS, 'epsilon': 'real'},
   requires=['distinct(arms)', 'n_jobs != 0'],
   modifies=['self.**'],
   ensures=['[alias.arms] same(self.arms, arms)', '[alias.rng] same(self.rng, rng)', 'self.epsilon == epsilon',
            'self.n_jobs == n_jobs', 'INV',
            '[neutral] ' + forall_arms('val(self.arm_to_sum, a) == 0 and val(self.arm_to_count, a) == 0 and '
                                       'val(self.arm_to_expectation, a) == 0 and ' + status_fresh())])

fn('greedy._EpsilonGreedy._fit_arm', props='C01 C05 C06 C07 C20',
   params={'arm': 'arm', **FIT_PARAMS},
   requires=['INV.keys', 'INV.arms', 'mem(self.arms, arm)', 'slen(decisions) == slen(rewards)',
             'val(self.arm_to_count, arm) >= 0'],
   modifies=['self.arm_to_sum[arm]', 'self.arm_to_count[arm]', 'self.arm_to_expectation[arm]'],
   ensures=['[sum] self.arm_to_sum[arm] == old(self.arm_to_sum[arm]) + ssum(sel(rewards, decisions, arm))',
            '[count] self.arm_to_count[arm] == old(self.arm_to_count[arm]) + cnt(decisions, arm)',
            '[mean] self.arm_to_expectation[arm] == (self.arm_to_sum[arm] / self.arm_to_count[arm] '
            'if cnt(decisions, arm) > 0 else old(self.arm_to_expectation[arm]))'])

STATUS_AFTER_FIT = forall_arms('val(self.arm_to_status, a, "is_trained") == (cnt(decisions, a) > 0) and '
                               'not val(self.arm_to_status, a, "is_warm") and '
                               'val(self.arm_to_status, a, "warm_started_by") == NONE_ARM()')
STATUS_AFTER_PARTIAL = forall_arms(
    'val(self.arm_to_status, a, "is_trained") == (old(val(self.arm_to_status, a, "is_trained")) or cnt(decisions, a) > 0) '
    'and val(self.arm_to_status, a, "is_warm") == old(val(self.arm_to_status, a, "is_warm")) and '
    'val(self.arm_to_status, a, "warm_started_by") == old(val(self.arm_to_status, a, "warm_started_by"))')

fn('greedy._EpsilonGreedy.fit', props='C01 C06 C07 C08 C20',
   params=FIT_PARAMS,
   requires=['INV.keys', 'INV.arms', 'slen(decisions) == slen(rewards)', 'slen(self.arms) > 0'],
   modifies=['self.arm_to_sum[*]', 'self.arm_to_count[*]', 'self.arm_to_expectation[*]', 'self.arm_to_status'],
   ensures=['INV',
            # C07: every learned quantity is a function of the new data only (no old(...) on the right-hand side)
            '[C01,C07,fresh.sum] ' + forall_arms('val(self.arm_to_sum, a) == ssum(sel(rewards, decisions, a))'),
            '[C01,C07,fresh.count] ' + forall_arms('val(self.arm_to_count, a) == cnt(decisions, a)'),
            '[C07,C13,fresh.status] ' + STATUS_AFTER_FIT])

fn('greedy._EpsilonGreedy.partial_fit', props='C01 C06 C08 C20',
   params=FIT_PARAMS,
   requires=['INV', 'slen(decisions) == slen(rewards)', 'slen(self.arms) > 0'],
   modifies=['self.arm_to_sum[*]', 'self.arm_to_count[*]', 'self.arm_to_expectation[*]', 'self.arm_to_status[*]'],
   ensures=['INV',
            '[C01,C06,acc.sum] ' + forall_arms('val(self.arm_to_sum, a) == old(val(self.arm_to_sum, a)) + '
                                               'ssum(sel(rewards, decisions, a))'),
            '[C01,C06,acc.count] ' + forall_arms('val(self.arm_to_count, a) == old(val(self.arm_to_count, a)) + '
                                                 'cnt(decisions, a)'),
            '[C13,acc.status] ' + STATUS_AFTER_PARTIAL])

# expectation reported for arm a when there is no context / one row: with probability epsilon a fresh uniform draw
# per arm (in arm order), otherwise the stored mean.  s0 is the stream state at entry.
S0 = 'old(rngstate(self.rng))'
E1 = ('(draw_u(unext(next_u(%s), pos(self.arms, a))) if draw_u(%s) < self.epsilon else val(self.arm_to_expectation, a))'
      % (S0, S0))
M = 'rows(contexts)'
N = 'slen(self.arms)'
EM = ('(mat_at(draw_um(next_uv(%s, %s), %s, %s), j, pos(self.arms, a)) if at(draw_uv(%s, %s), j) < self.epsilon '
      'else val(self.arm_to_expectation, a))' % (S0, M, M, N, S0, M))

fn('greedy._EpsilonGreedy.predict_expectations', props='C01 C08 C09 C10',
   params=PRED_PARAMS, result=pe_result,
   requires=['INV'],
   modifies=['self.rng.rng.state'],
   ensures=['[C08,shape] is_dict(result) == %s' % SINGLE,
            '[C08,keys] (keys(result) == self.arms) if is_dict(result) else (slen(result) == rows(contexts) and '
            'forall_int(lambda j: implies(0 <= j and j < rows(contexts), keys(item(result, j)) == self.arms)))',
            '[C01,C09,values] (forall_arm(lambda a: implies(mem(self.arms, a), val(result, a) == %s))) '
            'if is_dict(result) else forall_int(lambda j: implies(0 <= j and j < rows(contexts), '
            'forall_arm(lambda a: implies(mem(self.arms, a), val(item(result, j), a) == %s))))' % (E1, EM),
            '[C10,stream] rngstate(self.rng) == ((unext(next_u(%s), %s) if draw_u(%s) < self.epsilon else next_u(%s)) '
            'if is_dict(result) else next_um(next_uv(%s, %s), %s, %s))' % (S0, N, S0, S0, S0, M, M, N)])

fn('greedy._EpsilonGreedy.predict', props='C08 C09 C10',
   params=PRED_PARAMS, result=pred_result,
   requires=['INV', 'slen(self.arms) > 0'],
   modifies=['self.rng.rng.state'],
   ensures=['[C08,shape] is_list(result) == (not %s)' % SINGLE,
            # C09: the first arm attaining the maximum of the expectations predict_expectations returns
            '[C09,argmax] (result == argmax_over(self.arms, lambda a: %s)) if not is_list(result) else '
            '(slen(result) == rows(contexts) and forall_int(lambda j: implies(0 <= j and j < rows(contexts), '
            'at(result, j) == argmax_over(self.arms, lambda a: %s))))' % (E1, EM),
            '[C08,member] mem(self.arms, result) if not is_list(result) else '
            'forall_int(lambda j: implies(0 <= j and j < rows(contexts), mem(self.arms, at(result, j))))',
            '[C10,stream] rngstate(self.rng) == ((unext(next_u(%s), %s) if draw_u(%s) < self.epsilon else next_u(%s)) '
            'if not is_list(result) else next_um(next_uv(%s, %s), %s, %s))' % (S0, N, S0, S0, S0, M, M, N)])

# ---- arm changes (BaseMAB.add_arm / remove_arm with this class's hooks).  MAB has already appended / removed
# the label in the shared arm list when these run.
ADD_REQ = ['INV~arms', 'self.arms == appended(keys(self.arm_to_expectation), arm)',
           'not inkeys(self.arm_to_expectation, arm)']
REM_REQ = ['INV~arms', 'self.arms == removed(keys(self.arm_to_expectation), arm)',
           'inkeys(self.arm_to_expectation, arm)']


def unchanged(maps, status=True):
    parts = ['val(self.%s, a) == old(val(self.%s, a))' % (m, m) for m in maps]
    if status:
        parts += ['val(self.arm_to_status, a, "%s") == old(val(self.arm_to_status, a, "%s"))' % (c, c)
                  for c in ('is_trained', 'is_warm', 'warm_started_by')]
    return ' and '.join(parts)


GREEDY_MAPS = ['arm_to_sum', 'arm_to_count', 'arm_to_expectation']
fn('base_mab.BaseMAB.add_arm', cls='_EpsilonGreedy', props='C01 C08',
   params={'arm': 'arm', 'binarizer': 'opt:callable'},
   requires=ADD_REQ,
   modifies=['self.arm_to_sum{}', 'self.arm_to_count{}', 'self.arm_to_expectation{}', 'self.arm_to_status{}'],
   ensures=['INV',
            '[C01,neutral] val(self.arm_to_sum, arm) == 0 and val(self.arm_to_count, arm) == 0 and '
            'val(self.arm_to_expectation, arm) == 0 and ' + status_fresh('arm'),
            '[C01,others] forall_arm(lambda a: implies(old(inkeys(self.arm_to_expectation, a)), %s))'
            % unchanged(GREEDY_MAPS)])
fn('base_mab.BaseMAB.remove_arm', cls='_EpsilonGreedy', props='C01 C08',
   params={'arm': 'arm'},
   requires=REM_REQ,
   modifies=['self.arm_to_sum{}', 'self.arm_to_count{}', 'self.arm_to_expectation{}', 'self.arm_to_status{}'],
   ensures=['INV',
            '[C01,others] forall_arm(lambda a: implies(inkeys(self.arm_to_expectation, a), %s))'
            % unchanged(GREEDY_MAPS)])
