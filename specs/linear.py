"""Contracts for mabwiser/linear.py: _RidgeRegression, _LinTS, _LinUCB, _Linear (C02)."""
from pyvc.spec import klass, fn
from specs.base_mab import (FIT_PARAMS, INIT_PARAMS, status_fresh, forall_arms, S0, STATUS_AFTER_FIT,
                            STATUS_AFTER_PARTIAL)

MODEL_FIELDS = {'rng': 'rng', 'alpha': 'real const', 'l2_lambda': 'real const', 'scale': 'bool const',
                'beta': 'rseq', 'A': 'mat', 'A_inv': 'mat', 'Xty': 'rseq', 'scaler': 'opt:scaler'}
for c in ('_RidgeRegression', '_LinTS', '_LinUCB'):
    klass(c, fields=MODEL_FIELDS if c == '_RidgeRegression' else {},
          inv=['[shape.beta] slen(self.beta) == cols(self.A)', '[shape.A] rows(self.A) == cols(self.A)',
               '[shape.Ainv] rows(self.A_inv) == cols(self.A) and cols(self.A_inv) == cols(self.A)',
               '[shape.Xty] slen(self.Xty) == cols(self.A)', '[shape.lambda] self.l2_lambda > 0',
               '[shape.scaler] is_none(self.scaler) == (not self.scale)'] if c == '_RidgeRegression' else [])

fn('linear._RidgeRegression.__init__', props='C02 C04', inline=True,
   params={'rng': 'rng', 'alpha': 'real', 'l2_lambda': 'real', 'scale': 'bool'},
   modifies=['self.**'],
   ensures=['same(self.rng, rng)', 'self.alpha == alpha', 'self.l2_lambda == l2_lambda', 'self.scale == scale',
            'is_none(self.beta) and is_none(self.A) and is_none(self.A_inv) and is_none(self.Xty) and is_none(self.scaler)'])

# ---- initial model (C02: zero coefficients and covariance I / lambda for an arm never observed; C07: nothing survives)
fn('linear._RidgeRegression.init', props='C02 C07',
   params={'num_features': 'int'},
   requires=['num_features >= 1', 'self.l2_lambda > 0'],
   modifies=['self.Xty', 'self.A', 'self.A_inv', 'self.beta', 'self.scaler'],
   ensures=['[C02,C07,init.A] self.A == smul(self.l2_lambda, ident(num_features))',
            '[C02,C07,init.Xty] self.Xty == zeros(num_features)',
            '[C02,C07,init.beta] self.beta == zeros(num_features)',
            # the statement demands the covariance I / lambda; the code stores lambda * I (known finding D2)
            '[C02,init.Ainv] self.A_inv == smul(1 / self.l2_lambda, ident(num_features))',
            # residual of the known finding: for lambda = 1 the two coincide
            '[C02,C07,init.Ainv.unit] implies(self.l2_lambda == 1, self.A_inv == smul(1, ident(num_features)))',
            '[C07,init.Ainv.code] self.A_inv == smul(self.l2_lambda, ident(num_features))',
            '[C07,init.scaler] (scaler_state(self.scaler) == UNFITTED()) if self.scale else is_none(self.scaler)',
            'INV.shape'])

# X as the regression sees it: standardised by the (updated) scaler when scale=True
SC1 = ('scaler_fix(scaler_partial_fit(old(scaler_state(self.scaler)), X) if scaler_fitted(old(scaler_state(self.scaler))) '
       'else scaler_fit(X))')
XS = '(X if is_none(self.scaler) else scaler_transform(%s, X))' % SC1
fn('linear.fix_small_variance', props='C02', trusted=True,
   params={'scaler': 'scaler'},
   modifies=['scaler.state'],
   ensures=['scaler_state(scaler) == scaler_fix(old(scaler_state(scaler)))'],
   note='trusted: masks and in-place edits of scikit-learn attributes (scale_, var_) are outside the subset; '
        'checked by the bounded runtime leg')

fn('linear._RidgeRegression.fit', props='C02 C06 C20',
   params={'X': 'mat', 'y': 'rseq'},
   requires=['INV.shape', 'rows(X) == slen(y)'],
   raises=['ValueError'],          # feature-count mismatch surfaces as a NumPy shape error
   raises_iff='cols(X) != cols(self.A)',
   raises_modifies=['self.scaler.state'],    # _Linear._fit_arm works on a private copy of the model (C17)
   modifies=['self.A', 'self.A_inv', 'self.Xty', 'self.beta', 'self.scaler.state'],
   # C02: incremental normal equations  A += X'X,  Xty += X'y,  beta = A^-1 Xty
   ensures=['[C02,C06,fit.A] self.A == madd(old(self.A), gram(%s))' % XS,
            '[C02,fit.Ainv] self.A_inv == minv(self.A)',
            '[C02,C06,fit.Xty] self.Xty == vadd(old(self.Xty), xty(%s, y))' % XS,
            '[C02,fit.beta] self.beta == matvec(self.A_inv, self.Xty)',
            '[C02,fit.scaler] is_none(self.scaler) or scaler_state(self.scaler) == %s' % SC1,
            'INV.shape', '[shape.same] cols(self.A) == old(cols(self.A))'])

XP = ('(x if (is_none(self.scaler) or not scaler_fitted(scaler_state(self.scaler))) else '
      'scaler_transform(scaler_state(self.scaler), x))')
PRED_REQ = ['INV.shape', 'cols(x) == cols(self.A)']
fn('linear._RidgeRegression.predict', props='C02 C09 C10',
   params={'x': 'mat'}, requires=PRED_REQ, modifies=[],
   ensures=['[C02,ridge] result == matvec(%s, self.beta)' % XP, 'slen(result) == rows(x)'], result='rseq')
fn('linear._LinUCB.predict', props='C02 C09 C10',
   params={'x': 'mat'}, requires=PRED_REQ + ['self.alpha >= 0'], modifies=[],
   # C02: x.beta + alpha * sqrt(x' A^-1 x), row by row
   ensures=['slen(result) == rows(x)',
            '[C02,ucb] forall_int(lambda i: implies(0 <= i and i < rows(x), at(result, i) == '
            'vdot(row(%s, i), self.beta) + self.alpha * sqrt(vdot(vecmat(row(%s, i), self.A_inv), row(%s, i)))), '
            'lambda i: at(result, i))' % (XP, XP, XP)],
   result='rseq')
COV = 'smul(self.alpha * self.alpha, self.A_inv)'
SAMPLES = 'draw_mvn(%s, self.beta, %s, rows(x))' % (S0, COV)
fn('linear._LinTS.predict', props='C02 C09 C10',
   params={'x': 'mat'}, requires=PRED_REQ, modifies=['self.rng.rng.state'],
   # C02: a draw centred on x.beta: row i uses the i-th sampled coefficient vector
   ensures=['[C02,C08,ts.len] slen(result) == rows(x)',
            '[C02,ts.rowwise] forall_int(lambda i: implies(0 <= i and i < rows(x), at(result, i) == '
            'vdot(row(%s, i), row(%s, i))), lambda i: at(result, i))' % (XP, SAMPLES),
            '[C10,ts.stream] rngstate(self.rng) == next_mvn(%s, self.beta, %s, rows(x))' % (S0, COV)],
   result='rseq')


# ------------------------------------------------------------------------------------------ _Linear
def _linear_setup(run, st, ref):
    """arm_to_model: one regression object per arm, of the class chosen by `regression`; their generators are the
    bandit's generator or private copies (symbolic per arm)."""
    o = st.heap[ref.loc]
    reg = o.fields['regression'].s
    cls = {'ts': '_LinTS', 'ucb': '_LinUCB', 'ridge': '_RidgeRegression'}[reg]
    m = run.eng.record_map(run, st, 'self_arm_to_model', cls, shared_rng=o.fields['rng'].loc)
    st.heap[ref.loc] = o.set('arm_to_model', m)


def MV(f, a='a'):
    return 'val(self.arm_to_model, %s, "%s")' % (a, f)


MODEL_SHAPE = ('slen(%s) == self.num_features and rows(%s) == self.num_features and cols(%s) == self.num_features and '
               'rows(%s) == self.num_features and cols(%s) == self.num_features and slen(%s) == self.num_features'
               % (MV('beta'), MV('A'), MV('A'), MV('A_inv'), MV('A_inv'), MV('Xty')))
klass('_Linear',
      fields={'alpha': 'real const', 'epsilon': 'real const', 'l2_lambda': 'real const',
              'regression': 'str:{ts|ucb|ridge} const', 'scale': 'bool const', 'num_features': 'opt:int'},
      setup=_linear_setup,
      inv=['[C08,keys.model] keys(self.arm_to_model) == keys(self.arm_to_expectation)',
           '[C02,keys.lambda] self.l2_lambda > 0 and self.alpha >= 0',
           '[C02,cfg.model] ' + forall_arms('%s == self.l2_lambda and %s == self.alpha and %s == self.scale'
                                            % (MV('l2_lambda'), MV('alpha'), MV('scale'))),
           # once fitted, every model is initialised for the current number of features
           '[C02,shape.model] is_none(self.num_features) or (self.num_features >= 1 and %s)' % forall_arms(MODEL_SHAPE),
           '[C02,shape.scaler] is_none(self.num_features) or ' +
           forall_arms('is_none(%s) == (not self.scale)' % MV('scaler'))])

fn('linear._Linear.__init__', props='C02 C04 C08', inline=True,
   params={**INIT_PARAMS, 'alpha': 'real', 'epsilon': 'real', 'l2_lambda': 'real', 'regression': 'str:{ts|ucb|ridge}',
           'scale': 'bool'},
   requires=['distinct(arms)', 'n_jobs != 0', 'l2_lambda > 0', 'alpha >= 0'],
   modifies=['self.**'],
   ensures=['[alias.arms] same(self.arms, arms)', '[alias.rng] same(self.rng, rng)', 'is_none(self.num_features)', 'INV',
            '[C04,C07,rng.shared] ' + forall_arms(MV('#rng_shared'))])

SELX = 'selrows(contexts, decisions, arm)'
SELY = 'sel(rewards, decisions, arm)'
# the scaler a model ends up with after being fit on rows X, and the rows as the regression then sees them
SCA = ('scaler_fix(scaler_partial_fit(old(%s), %s) if scaler_fitted(old(%s)) else scaler_fit(%s))'
       % (MV('scaler', 'arm'), SELX, MV('scaler', 'arm'), SELX))
XSA = '(%s if not self.scale else scaler_transform(%s, %s))' % (SELX, SCA, SELX)
OWN = lambda t: t.replace('val(self.arm_to_model, a,', 'val(self.arm_to_model, arm,')     # noqa: E731
FITTED_REQ = ['INV.keys', 'INV.arms', 'not is_none(self.num_features)', 'self.num_features >= 1',
              'rows(contexts) == slen(decisions)', 'slen(decisions) == slen(rewards)',
              # the model of this arm (the other arms' models may be in the middle of their own update)
              OWN('%s == self.l2_lambda and %s == self.alpha and %s == self.scale'
                  % (MV('l2_lambda'), MV('alpha'), MV('scale'))),
              OWN(MODEL_SHAPE), OWN('is_none(%s) == (not self.scale)' % MV('scaler'))]
fn('linear._Linear._fit_arm', props='C02 C05 C06 C17 C20',
   params={'arm': 'arm', 'decisions': 'aseq', 'rewards': 'rseq', 'contexts': 'mat'},
   requires=FITTED_REQ + ['mem(self.arms, arm)'],
   raises=['ValueError'],                    # wrong number of feature columns: nothing has been published yet (C17)
   raises_iff='cnt(decisions, arm) > 0 and cols(contexts) != self.num_features',
   modifies=['self.arm_to_model[arm]'],
   ensures=['[C02,unobserved] implies(cnt(decisions, arm) == 0, %s)'
            % ' and '.join('%s == old(%s)' % (MV(f, 'arm'), MV(f, 'arm'))
                           for f in ('A', 'A_inv', 'Xty', 'beta', 'scaler', '#rng_shared', '#rng_state')),
            # C02: the arm's model is updated with exactly the rows whose decision is that arm
            '[C02,C06,arm.A] implies(cnt(decisions, arm) > 0, %s == madd(old(%s), gram(%s)))' % (MV('A', 'arm'), MV('A', 'arm'), XSA),
            '[C02,arm.Ainv] implies(cnt(decisions, arm) > 0, %s == minv(%s))' % (MV('A_inv', 'arm'), MV('A', 'arm')),
            '[C02,C06,arm.Xty] implies(cnt(decisions, arm) > 0, %s == vadd(old(%s), xty(%s, %s)))'
            % (MV('Xty', 'arm'), MV('Xty', 'arm'), XSA, SELY),
            '[C02,arm.beta] implies(cnt(decisions, arm) > 0, %s == matvec(%s, %s))'
            % (MV('beta', 'arm'), MV('A_inv', 'arm'), MV('Xty', 'arm')),
            '[cfg] %s == self.l2_lambda and %s == self.alpha and %s == self.scale'
            % (MV('l2_lambda', 'arm'), MV('alpha', 'arm'), MV('scale', 'arm')),
            '[shape] ' + MODEL_SHAPE.replace('"), ', '"), ').replace("val(self.arm_to_model, a,", "val(self.arm_to_model, arm,"),
            '[scaler] is_none(%s) == (not self.scale)' % MV('scaler', 'arm'),
            '[C02,arm.scaler] implies(cnt(decisions, arm) > 0 and self.scale, %s == %s)' % (MV('scaler', 'arm'), SCA),
            # a model that has seen data owns a private copy of its generator (deepcopy of the model)
            '[C05,C07,rng.private] implies(cnt(decisions, arm) > 0, not %s)' % MV('#rng_shared', 'arm')])

LIN_FIT_PARAMS = {'decisions': 'aseq', 'rewards': 'rseq', 'contexts': 'mat'}
SELXA = 'selrows(contexts, decisions, a)'
SELYA = 'sel(rewards, decisions, a)'
D_ = 'cols(contexts)'
# a model fitted from scratch on the rows of arm a (C02: (X'X + lambda I)^-1 X'y; C07: a function of the new data only)
SC0 = 'scaler_fix(scaler_fit(%s))' % SELXA
XS0 = '(%s if not self.scale else scaler_transform(%s, %s))' % (SELXA, SC0, SELXA)
A0 = 'madd(smul(self.l2_lambda, ident(%s)), gram(%s))' % (D_, XS0)
XTY0 = 'vadd(zeros(%s), xty(%s, %s))' % (D_, XS0, SELYA)
fn('linear._Linear.fit', props='C02 C06 C07 C08 C20',
   params=LIN_FIT_PARAMS,
   requires=['INV.keys', 'INV.arms', 'INV.cfg', 'rows(contexts) == slen(decisions)', 'slen(decisions) == slen(rewards)',
             'cols(contexts) >= 1', 'slen(self.arms) > 0'],
   modifies=['self.num_features', 'self.arm_to_model[*]', 'self.arm_to_status'],
   ensures=['INV', '[C07,fresh.d] self.num_features == cols(contexts)',
            '[C02,C07,fresh.unobserved] ' + forall_arms(
                'implies(cnt(decisions, a) == 0, %s == smul(self.l2_lambda, ident(%s)) and %s == zeros(%s) and %s == zeros(%s))'
                % (MV('A'), D_, MV('Xty'), D_, MV('beta'), D_)),
            '[C02,C07,fresh.A] ' + forall_arms('implies(cnt(decisions, a) > 0, %s == %s)' % (MV('A'), A0)),
            '[C02,C07,fresh.Xty] ' + forall_arms('implies(cnt(decisions, a) > 0, %s == %s)' % (MV('Xty'), XTY0)),
            '[C02,C07,fresh.solution] ' + forall_arms('implies(cnt(decisions, a) > 0, %s == minv(%s) and %s == matvec(%s, %s))'
                                                      % (MV('A_inv'), MV('A'), MV('beta'), MV('A_inv'), MV('Xty'))),
            '[C02,C07,fresh.Ainv0] ' + forall_arms('implies(cnt(decisions, a) == 0, %s == smul(self.l2_lambda, ident(%s)))'
                                                   % (MV('A_inv'), D_)),
            '[C02,C07,fresh.scaler] ' + forall_arms('%s == ((%s if cnt(decisions, a) > 0 else UNFITTED()) if self.scale '
                                                    'else none_scaler())' % (MV('scaler'), SC0)),
            '[C07,C13,fresh.status] ' + STATUS_AFTER_FIT,
            # C07 for LinTS: which generator a model draws from must not depend on earlier fits (known finding D6)
            '[C07,fresh.rng] implies(self.regression == "ts", ' +
            forall_arms('%s == (cnt(decisions, a) == 0)' % MV('#rng_shared')) + ')'])

SCP = ('scaler_fix(scaler_partial_fit(old(%s), %s) if scaler_fitted(old(%s)) else scaler_fit(%s))'
       % (MV('scaler'), SELXA, MV('scaler'), SELXA))
XSP = '(%s if not self.scale else scaler_transform(%s, %s))' % (SELXA, SCP, SELXA)
fn('linear._Linear.partial_fit', props='C02 C06 C08 C17 C20',
   params=LIN_FIT_PARAMS,
   requires=['INV', 'not is_none(self.num_features)', 'rows(contexts) == slen(decisions)',
             'slen(decisions) == slen(rewards)', 'slen(self.arms) > 0'],
   raises=['ValueError'],
   raises_only_if='cols(contexts) != self.num_features',      # a batch of the trained width is never rejected
   modifies=['self.arm_to_model[*]', 'self.arm_to_status[*]'],
   ensures=['INV',
            '[C02,C06,acc.unobserved] ' + forall_arms('implies(cnt(decisions, a) == 0, %s)' % ' and '.join(
                '%s == old(%s)' % (MV(f), MV(f)) for f in ('A', 'A_inv', 'Xty', 'beta', 'scaler', '#rng_shared', '#rng_state'))),
            '[C02,C06,acc.A] ' + forall_arms('implies(cnt(decisions, a) > 0, %s == madd(old(%s), gram(%s)))'
                                             % (MV('A'), MV('A'), XSP)),
            '[C02,C06,acc.Xty] ' + forall_arms('implies(cnt(decisions, a) > 0, %s == vadd(old(%s), xty(%s, %s)))'
                                               % (MV('Xty'), MV('Xty'), XSP, SELYA)),
            '[C02,C06,acc.solution] ' + forall_arms('implies(cnt(decisions, a) > 0, %s == minv(%s) and %s == matvec(%s, %s))'
                                                    % (MV('A_inv'), MV('A'), MV('beta'), MV('A_inv'), MV('Xty'))),
            '[C13,acc.status] ' + STATUS_AFTER_PARTIAL])


def vec_result(run, env):
    from pyvc.engine import to_bool_term
    from specs.base_mab import pe_result, pred_result
    if run.branch(to_bool_term(env['is_predict'])):
        return pred_result(run, env)
    return pe_result(run, env)


P_ = 'draw_uv(%s, rows(contexts))' % S0            # one uniform draw per row decides exploration
NONE_RANDOM = 'forall_int(lambda i: implies(0 <= i and i < rows(contexts), at(%s, i) >= self.epsilon))' % P_
# what the model of arm a predicts for row i (deterministic variants)
XPA = ('(contexts if (is_none(%s) or not scaler_fitted(%s)) else scaler_transform(%s, contexts))'
       % (MV('scaler'), MV('scaler'), MV('scaler')))
RIDGE_IA = 'vdot(row(%s, i), %s)' % (XPA, MV('beta'))
UCB_IA = ('(vdot(row(%s, i), %s) + self.alpha * sqrt(vdot(vecmat(row(%s, i), %s), row(%s, i))))'
          % (XPA, MV('beta'), XPA, MV('A_inv'), XPA))
DET_IA = '(%s if self.regression == "ridge" else %s)' % (RIDGE_IA, UCB_IA)
EXP_ROW = '(result if is_dict(result) else item(result, i))'


def AT0(t):
    """the clause for the single row of a one-row query: row index 0"""
    import re as _re
    return _re.sub(r'\bi\b', '0', t)


MASK = 'lt_mask(%s, self.epsilon)' % P_
RANDOM = 'draw_um(next_uv(%s, rows(contexts)), n_true(%s), slen(self.arms))' % (S0, MASK)
ANY_IA = '(mat_at(%s, rank_true(%s, i), pos(self.arms, a)) if at(%s, i) < self.epsilon else %s)' % (RANDOM, MASK, P_, DET_IA)
fn('linear._Linear._vectorized_predict_context', props='C02 C08 C09 C10',
   params={'contexts': 'mat', 'is_predict': 'flag'}, result=vec_result,
   requires=['INV', 'not is_none(self.num_features)', 'cols(contexts) == self.num_features', 'rows(contexts) >= 1',
             'slen(self.arms) > 0'],
   modifies=['self.rng.rng.state', 'self.arm_to_model[*]'],
   ensures=['[C08,shape] (is_list(result) == (rows(contexts) > 1)) if is_predict else (is_dict(result) == (rows(contexts) == 1))',
            '[C08,len] (slen(result) == rows(contexts)) if rows(contexts) > 1 else True',
            '[C08,keys] is_predict or ((keys(result) == self.arms) if is_dict(result) else '
            'forall_int(lambda j: implies(0 <= j and j < rows(contexts), keys(item(result, j)) == self.arms)))',
            '[C08,member] (not is_predict) or (mem(self.arms, result) if not is_list(result) else '
            'forall_int(lambda j: implies(0 <= j and j < rows(contexts), mem(self.arms, at(result, j)))))',
            # C02: with no exploring row (always the case for epsilon = 0) every expectation is the model's prediction
            '[C02,exploit] is_predict or self.regression == "ts" or implies(%s, forall_int(lambda i: implies(0 <= i and '
            'i < rows(contexts), forall_arm(lambda a: implies(mem(self.arms, a), val(%s, a) == %s), '
            'lambda a: val(%s, a)))))' % (NONE_RANDOM, EXP_ROW, DET_IA, EXP_ROW),
            # ... and an exploring row holds its own row of uniform draws: every expectation of every row is determined
            '[C02,C05,rows] is_predict or self.regression == "ts" or (%s if is_dict(result) else %s)'
            % ('forall_arm(lambda a: implies(mem(self.arms, a), val(result, a) == %s), lambda a: val(result, a))' % AT0(ANY_IA),
               'forall_int(lambda i: implies(0 <= i and i < rows(contexts), forall_arm(lambda a: implies(mem(self.arms, a), '
               'val(item(result, i), a) == %s))))' % ANY_IA),
            '[C09,C05,rows.argmax] (not is_predict) or self.regression == "ts" or (%s if not is_list(result) else %s)'
            % ('is_first_argmax(result, self.arms, lambda a: %s)' % AT0(ANY_IA),
               'forall_int(lambda i: implies(0 <= i and i < rows(contexts), is_first_argmax(at(result, i), self.arms, '
               'lambda a: %s)))' % ANY_IA),
            # C09: predict takes the first arm attaining the maximum of the same expectations
            '[C09,argmax] (not is_predict) or self.regression == "ts" or implies(%s, forall_int(lambda i: implies(0 <= i and '
            'i < rows(contexts), is_first_argmax((result if not is_list(result) else at(result, i)), self.arms, '
            'lambda a: %s))))' % (NONE_RANDOM, DET_IA),
            # C10: nothing learned changes (generators advance)
            '[C10,readonly] ' + forall_arms(' and '.join('%s == old(%s)' % (MV(f), MV(f))
                                                         for f in ('A', 'A_inv', 'Xty', 'beta', 'scaler', 'l2_lambda', 'alpha',
                                                                   'scale', '#rng_shared')))])

from specs.base_mab import ADD_REQ, REM_REQ, WS_PARAMS, WS_REQ, MAPPING     # noqa
MODEL_COLS = ('A', 'A_inv', 'Xty', 'beta', 'scaler', 'l2_lambda', 'alpha', 'scale', '#rng_shared', '#rng_state')
SAME_MODEL = ' and '.join('%s == old(%s)' % (MV(f), MV(f)) for f in MODEL_COLS)
NEW_MODEL = ('(is_none(self.num_features) or (%s == smul(self.l2_lambda, ident(self.num_features)) and '
             '%s == zeros(self.num_features) and %s == zeros(self.num_features)))' % (MV('A', 'arm'), MV('Xty', 'arm'), MV('beta', 'arm')))
LIN_MODS = ['self.arm_to_model{}', 'self.arm_to_expectation{}', 'self.arm_to_status{}']
fn('base_mab.BaseMAB.add_arm', cls='_Linear', props='C02 C08', params={'arm': 'arm', 'binarizer': 'opt:callable'},
   requires=ADD_REQ, modifies=LIN_MODS,
   ensures=['INV',
            # C02: an arm added after fit starts from the initial model (zero coefficients); it draws from the bandit's generator
            '[C02,neutral] %s and %s and ' % (NEW_MODEL, MV('#rng_shared', 'arm')) + status_fresh('arm'),
            '[C02,others] forall_arm(lambda a: implies(old(inkeys(self.arm_to_expectation, a)), %s))' % SAME_MODEL])
fn('base_mab.BaseMAB.remove_arm', cls='_Linear', props='C02 C08', params={'arm': 'arm'},
   requires=REM_REQ, modifies=LIN_MODS,
   ensures=['INV', '[C02,others] forall_arm(lambda a: implies(inkeys(self.arm_to_expectation, a), %s))' % SAME_MODEL])

COPIED = ('A', 'A_inv', 'Xty', 'beta', 'scaler', 'l2_lambda', 'alpha', 'scale')
fn('linear._Linear._copy_arms', props='C13',
   params={'cold_arm_to_warm_arm': 'map:arm'},
   requires=['INV.keys', 'INV.arms', 'distinct(keys(cold_arm_to_warm_arm))',
             'forall_arm(lambda c: implies(inkeys(cold_arm_to_warm_arm, c), mem(self.arms, c) and '
             'mem(self.arms, val(cold_arm_to_warm_arm, c)) and not inkeys(cold_arm_to_warm_arm, val(cold_arm_to_warm_arm, c))))'],
   modifies=['self.arm_to_model[*]'],
   ensures=['[C13,copied] forall_arm(lambda c: implies(inkeys(cold_arm_to_warm_arm, c), %s))'
            % ' and '.join('%s == old(%s)' % (MV(f, 'c'), MV(f, 'val(cold_arm_to_warm_arm, c)')) for f in COPIED),
            '[C13,untouched] forall_arm(lambda a: implies(mem(self.arms, a) and not inkeys(cold_arm_to_warm_arm, a), %s))'
            % SAME_MODEL])
fn('base_mab.BaseMAB._warm_start', cls='_Linear', props='C13', params=WS_PARAMS,
   requires=WS_REQ + ['INV', 'slen(self.arms) > 0'], raises=['ValueError'],
   modifies=['self.arm_to_model[*]', 'self.arm_to_status[*]'],
   ensures=['INV',
            '[C13,status] forall_arm(lambda a: implies(mem(self.arms, a), '
            'val(self.arm_to_status, a, "is_warm") == (old(val(self.arm_to_status, a, "is_warm")) or inkeys(%s, a)) and '
            'val(self.arm_to_status, a, "is_trained") == old(val(self.arm_to_status, a, "is_trained")) and '
            'val(self.arm_to_status, a, "warm_started_by") == (some(val(%s, a)) if inkeys(%s, a) else '
            'old(val(self.arm_to_status, a, "warm_started_by")))))' % (MAPPING, MAPPING, MAPPING),
            '[C13,copied] forall_arm(lambda c: implies(inkeys(%s, c), %s))'
            % (MAPPING, ' and '.join('%s == old(%s)' % (MV(f, 'c'), MV(f, 'val(%s, c)' % MAPPING)) for f in COPIED)),
            '[C13,untouched] forall_arm(lambda a: implies(mem(self.arms, a) and not inkeys(%s, a), %s))' % (MAPPING, SAME_MODEL)])
