"""Contracts for mabwiser/linear.py: _RidgeRegression, _LinTS, _LinUCB, _Linear (C02)."""
from pyvc.spec import klass, fn
from specs.base_mab import (FIT_PARAMS, INIT_PARAMS, status_fresh, forall_arms, S0, STATUS_AFTER_FIT,
                            STATUS_AFTER_PARTIAL)

MODEL_FIELDS = {'rng': 'rng', 'alpha': 'real const', 'l2_lambda': 'real const', 'scale': 'bool const',
                'beta': 'rseq', 'A': 'mat', 'A_inv': 'mat', 'Xty': 'rseq', 'scaler': 'opt:scaler'}
for c in ('_RidgeRegression', '_LinTS', '_LinUCB'):
    klass(c, fields=MODEL_FIELDS if c == '_RidgeRegression' else {},
          inv=['[shape.beta] slen(self.beta) == cols(self.A)', '[shape.A] rows(self.A) == cols(self.A)',
               '[shape.Ainv] rows(self.A_inv) == cols(self.A) and cols(self.A_inv) == cols(self.A)',
               '[shape.Xty] slen(self.Xty) == cols(self.A)', '[shape.lambda] self.l2_lambda > 0',
               '[shape.scaler] is_none(self.scaler) == (not self.scale)'] if c == '_RidgeRegression' else [])

fn('linear._RidgeRegression.__init__', props='C02 C04', inline=True,
   params={'rng': 'rng', 'alpha': 'real', 'l2_lambda': 'real', 'scale': 'bool'},
   modifies=['self.**'],
   ensures=['same(self.rng, rng)', 'self.alpha == alpha', 'self.l2_lambda == l2_lambda', 'self.scale == scale',
            'is_none(self.beta) and is_none(self.A) and is_none(self.A_inv) and is_none(self.Xty) and is_none(self.scaler)'])

# ---- initial model (C02: zero coefficients and covariance I / lambda for an arm never observed; C07: nothing survives)
fn('linear._RidgeRegression.init', props='C02 C07',
   params={'num_features': 'int'},
   requires=['num_features >= 1', 'self.l2_lambda > 0'],
   modifies=['self.Xty', 'self.A', 'self.A_inv', 'self.beta', 'self.scaler'],
   ensures=['[C02,C07,init.A] self.A == smul(self.l2_lambda, ident(num_features))',
            '[C02,C07,init.Xty] self.Xty == zeros(num_features)',
            '[C02,C07,init.beta] self.beta == zeros(num_features)',
            # the statement demands the covariance I / lambda; the code stores lambda * I (known finding D2)
            '[C02,init.Ainv] self.A_inv == smul(1 / self.l2_lambda, ident(num_features))',
            # residual of the known finding: for lambda = 1 the two coincide
            '[C02,C07,init.Ainv.unit] implies(self.l2_lambda == 1, self.A_inv == smul(1, ident(num_features)))',
            '[C07,init.Ainv.code] self.A_inv == smul(self.l2_lambda, ident(num_features))',
            '[C07,init.scaler] (scaler_state(self.scaler) == UNFITTED()) if self.scale else is_none(self.scaler)',
            'INV.shape'])

# X as the regression sees it: standardised by the (updated) scaler when scale=True
SC1 = ('scaler_fix(scaler_partial_fit(old(scaler_state(self.scaler)), X) if scaler_fitted(old(scaler_state(self.scaler))) '
       'else scaler_fit(X))')
XS = '(X if is_none(self.scaler) else scaler_transform(%s, X))' % SC1
fn('linear.fix_small_variance', props='C02', trusted=True,
   params={'scaler': 'scaler'},
   modifies=['scaler.state'],
   ensures=['scaler_state(scaler) == scaler_fix(old(scaler_state(scaler)))'],
   note='trusted: masks and in-place edits of scikit-learn attributes (scale_, var_) are outside the subset; '
        'checked by the bounded runtime leg')

fn('linear._RidgeRegression.fit', props='C02 C06 C20',
   params={'X': 'mat', 'y': 'rseq'},
   requires=['INV.shape', 'rows(X) == slen(y)'],
   raises=['ValueError'],          # feature-count mismatch surfaces as a NumPy shape error
   raises_modifies=['self.scaler.state'],    # _Linear._fit_arm works on a private copy of the model (C17)
   modifies=['self.A', 'self.A_inv', 'self.Xty', 'self.beta', 'self.scaler.state'],
   # C02: incremental normal equations  A += X'X,  Xty += X'y,  beta = A^-1 Xty
   ensures=['[C02,C06,fit.A] self.A == madd(old(self.A), gram(%s))' % XS,
            '[C02,fit.Ainv] self.A_inv == minv(self.A)',
            '[C02,C06,fit.Xty] self.Xty == vadd(old(self.Xty), xty(%s, y))' % XS,
            '[C02,fit.beta] self.beta == matvec(self.A_inv, self.Xty)',
            '[C02,fit.scaler] is_none(self.scaler) or scaler_state(self.scaler) == %s' % SC1,
            'INV.shape', '[shape.same] cols(self.A) == old(cols(self.A))'])

XP = ('(x if (is_none(self.scaler) or not scaler_fitted(scaler_state(self.scaler))) else '
      'scaler_transform(scaler_state(self.scaler), x))')
PRED_REQ = ['INV.shape', 'rows(x) >= 1', 'cols(x) == cols(self.A)']
fn('linear._RidgeRegression.predict', props='C02 C09 C10',
   params={'x': 'mat'}, requires=PRED_REQ, modifies=[],
   ensures=['[C02,ridge] result == matvec(%s, self.beta)' % XP, 'slen(result) == rows(x)'], result='rseq')
fn('linear._LinUCB.predict', props='C02 C09 C10',
   params={'x': 'mat'}, requires=PRED_REQ + ['self.alpha >= 0'], modifies=[],
   # C02: x.beta + alpha * sqrt(x' A^-1 x), row by row
   ensures=['slen(result) == rows(x)',
            '[C02,ucb] forall_int(lambda i: implies(0 <= i and i < rows(x), at(result, i) == '
            'vdot(row(%s, i), self.beta) + self.alpha * sqrt(vdot(vecmat(row(%s, i), self.A_inv), row(%s, i)))))'
            % (XP, XP, XP)],
   result='rseq')
COV = 'smul(self.alpha * self.alpha, self.A_inv)'
SAMPLES = 'draw_mvn(%s, self.beta, %s, rows(x))' % (S0, COV)
fn('linear._LinTS.predict', props='C02 C09 C10',
   params={'x': 'mat'}, requires=PRED_REQ, modifies=['self.rng.rng.state'],
   # C02: a draw centred on x.beta: row i uses the i-th sampled coefficient vector
   ensures=['[C02,C08,ts.len] slen(result) == rows(x)',
            '[C02,ts.rowwise] forall_int(lambda i: implies(0 <= i and i < rows(x), at(result, i) == '
            'vdot(row(%s, i), row(%s, i))))' % (XP, SAMPLES),
            '[C10,ts.stream] rngstate(self.rng) == next_mvn(%s, self.beta, %s, rows(x))' % (S0, COV)],
   result='rseq')
