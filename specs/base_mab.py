"""Contracts for mabwiser/base_mab.py and mabwiser/utils.py."""
from pyvc.spec import klass, fn

FIT_PARAMS = {'decisions': 'aseq', 'rewards': 'rseq', 'contexts': 'opt:mat'}
ARM_PARAMS = {'arm': 'arm', 'binarizer': 'opt:callable', 'scaler': 'opt:callable'}
INIT_PARAMS = {'rng': 'rng', 'arms': 'list:arm', 'n_jobs': 'int', 'backend': 'optopaque'}
PRED_PARAMS = {'contexts': 'opt:mat'}

klass('_NumpyRNG', fields={'seed': 'int', 'rng': 'obj:np.Generator'})
klass('np.Generator', fields={'state': 'rngstate'})

# Naming of invariant clauses: arms.* relate the per-arm dictionaries to the arm list (temporarily broken inside
# add_arm / remove_arm, where MAB has already updated the shared list); keys.* relate the dictionaries to each
# other; stat.* are the statistics.
klass('BaseMAB',
      fields={'rng': 'rng', 'arms': 'list:arm', 'n_jobs': 'int const', 'backend': 'optopaque const',
              'arm_to_expectation': 'map:real', 'arm_to_status': 'map:status'},
      inv=['[C08,arms.link] keys(self.arm_to_expectation) == self.arms',
           '[C08,keys.distinct] distinct(keys(self.arm_to_expectation))',
           '[C08,keys.status] keys(self.arm_to_status) == keys(self.arm_to_expectation)',
           '[C05,keys.jobs] self.n_jobs != 0'])

# tiny helpers without a contract of their own are executed at their call sites (inline):
#   utils.check_true, utils.check_false, utils.reset, utils.argmax, utils.argmin, utils.create_rng,
#   _NumpyRNG.*, BaseMAB.__init__, BaseMAB._parallel_fit, BaseMAB._reset_arm_to_status

fn('base_mab.BaseMAB._effective_jobs', props='C05',
   params={'size': 'int', 'n_jobs': 'int'},
   requires=['size >= 1', 'n_jobs != 0'],
   ensures=['[bounds] 1 <= result and result <= size',
            '[sequential] implies(n_jobs == 1, result == 1)'],
   result='int')


def status_fresh(a='a'):
    return ('(not val(self.arm_to_status, %s, "is_trained") and not val(self.arm_to_status, %s, "is_warm") and '
            'val(self.arm_to_status, %s, "warm_started_by") == NONE_ARM())' % (a, a, a))


def forall_arms(body):
    return 'forall_arm(lambda a: implies(inkeys(self.arm_to_expectation, a), %s))' % body


def pe_result(run, env):
    """Kind of the value predict_expectations / predict return: one result for no contexts or one row, else a list."""
    from pyvc.values import NoneV, MapO, SymListO
    from pyvc.smt import fresh, ASeq, Arm, Real, Int
    from pyvc.lib import mrows, PVArr
    import z3
    ctx = env.get('contexts')
    single = isinstance(ctx, NoneV) or run.branch(mrows(ctx.term) == 1)
    if single:
        return run.st.alloc(MapO(fresh('pe_keys', ASeq), {'': fresh('pe_vals', z3.ArraySort(Arm, Real))}, {'': 'real'}))
    return run.st.alloc(SymListO(fresh('pe_len', Int), fresh('pe_elems', PVArr), 'dict'))


def pred_result(run, env):
    from pyvc.values import NoneV, ArmV, SeqV
    from pyvc.smt import fresh, ASeq, Arm
    from pyvc.lib import mrows
    ctx = env.get('contexts')
    single = isinstance(ctx, NoneV) or run.branch(mrows(ctx.term) == 1)
    if single:
        return ArmV(fresh('pred', Arm))
    return SeqV('A', fresh('preds', ASeq), True)


SINGLE = '(is_none(contexts) or rows(contexts) == 1)'


S0 = 'old(rngstate(self.rng))'
M_ROWS = 'rows(contexts)'
N_ARMS = 'slen(self.arms)'

# ---- arm changes (BaseMAB.add_arm / remove_arm with each class's hooks).  MAB has already appended / removed
# the label in the shared arm list when these run.
ADD_REQ = ['INV~arms', 'self.arms == appended(keys(self.arm_to_expectation), arm)',
           'not inkeys(self.arm_to_expectation, arm)']
REM_REQ = ['INV~arms', 'self.arms == removed(keys(self.arm_to_expectation), arm)',
           'inkeys(self.arm_to_expectation, arm)']

STATUS_AFTER_FIT = forall_arms('val(self.arm_to_status, a, "is_trained") == (cnt(decisions, a) > 0) and '
                               'not val(self.arm_to_status, a, "is_warm") and '
                               'val(self.arm_to_status, a, "warm_started_by") == NONE_ARM()')
STATUS_AFTER_PARTIAL = forall_arms(
    'val(self.arm_to_status, a, "is_trained") == (old(val(self.arm_to_status, a, "is_trained")) or cnt(decisions, a) > 0) '
    'and val(self.arm_to_status, a, "is_warm") == old(val(self.arm_to_status, a, "is_warm")) and '
    'val(self.arm_to_status, a, "warm_started_by") == old(val(self.arm_to_status, a, "warm_started_by"))')


def unchanged(maps, status=True):
    parts = ['val(self.%s, a) == old(val(self.%s, a))' % (m, m) for m in maps]
    if status:
        parts += ['val(self.arm_to_status, a, "%s") == old(val(self.arm_to_status, a, "%s"))' % (c, c)
                  for c in ('is_trained', 'is_warm', 'warm_started_by')]
    return ' and '.join(parts)


def arm_change_contracts(cls, maps, neutral, extra_modifies=(), others=True, props='C01 C08', rem_req=(),
                         rem_inv='INV', other_maps=None, pre_inv='INV~arms', add_ens=(), rem_ens=(), add_inv='INV'):
    """Contracts of BaseMAB.add_arm / remove_arm for receiver class `cls` whose per-arm dictionaries are `maps`."""
    mods = ['self.%s{}' % m for m in maps] + ['self.arm_to_status{}'] + list(extra_modifies)
    ens_add = [add_inv, '[C01,C03,neutral] ' + neutral + ' and ' + status_fresh('arm')]
    ens_rem = [rem_inv]
    if others:
        om = other_maps if other_maps is not None else maps
        ens_add.append('[C01,others] forall_arm(lambda a: implies(old(inkeys(self.arm_to_expectation, a)), %s))'
                       % unchanged(om))
        ens_rem.append('[C01,others] forall_arm(lambda a: implies(inkeys(self.arm_to_expectation, a), %s))'
                       % unchanged(om))
    fn('base_mab.BaseMAB.add_arm', cls=cls, props=props, params={'arm': 'arm', 'binarizer': 'opt:callable'},
       requires=[pre_inv] + ADD_REQ[1:], modifies=mods, ensures=ens_add + list(add_ens))
    fn('base_mab.BaseMAB.remove_arm', cls=cls, props=props, params={'arm': 'arm'},
       requires=[pre_inv] + REM_REQ[1:] + list(rem_req), modifies=mods, ensures=ens_rem + list(rem_ens))


def predict_contracts(module, cls, E1, EM, stream1, streamM, modifies=('self.rng.rng.state',), requires=('INV',),
                      props_pe='C01 C08 C09 C10', props_p='C08 C09 C10', extra_ensures=()):
    """predict_expectations / predict of a context-free policy.  E1 / EM: expectation reported for arm `a` with
    no contexts or one row / for row j of several rows, as a term over the entry state; stream1 / streamM: the
    stream state afterwards."""
    q = '%s.%s' % (module, cls)
    fn(q + '.predict_expectations', props=props_pe, params=PRED_PARAMS, result=pe_result,
       requires=list(requires), modifies=list(modifies),
       ensures=['[C08,shape] is_dict(result) == %s' % SINGLE,
                '[C08,keys] (keys(result) == self.arms) if is_dict(result) else (slen(result) == rows(contexts) and '
                'forall_int(lambda j: implies(0 <= j and j < rows(contexts), keys(item(result, j)) == self.arms)))',
                '[C01,C09,values] (forall_arm(lambda a: implies(mem(self.arms, a), val(result, a) == %s))) '
                'if is_dict(result) else forall_int(lambda j: implies(0 <= j and j < rows(contexts), '
                'forall_arm(lambda a: implies(mem(self.arms, a), val(item(result, j), a) == %s))))' % (E1, EM),
                '[C10,stream] rngstate(self.rng) == ((%s) if is_dict(result) else (%s))' % (stream1, streamM)]
       + list(extra_ensures))
    fn(q + '.predict', props=props_p, params=PRED_PARAMS, result=pred_result,
       requires=list(requires) + ['slen(self.arms) > 0'], modifies=list(modifies),
       ensures=['[C08,shape] is_list(result) == (not %s)' % SINGLE,
                # C09: the first arm attaining the maximum of the expectations predict_expectations returns
                '[C09,argmax] (result == argmax_over(self.arms, lambda a: %s)) if not is_list(result) else '
                '(slen(result) == rows(contexts) and forall_int(lambda j: implies(0 <= j and j < rows(contexts), '
                'at(result, j) == argmax_over(self.arms, lambda a: %s))))' % (E1, EM),
                '[C08,member] mem(self.arms, result) if not is_list(result) else '
                'forall_int(lambda j: implies(0 <= j and j < rows(contexts), mem(self.arms, at(result, j))))',
                '[C10,stream] rngstate(self.rng) == ((%s) if not is_list(result) else (%s))' % (stream1, streamM)]
       + list(extra_ensures))


# ------------------------------------------------------------------------------------- warm start (C13)
fn('base_mab.BaseMAB.trained_arms', props='C13', pure=True, reads=['self.arms', 'self.arm_to_status'],
   requires=['INV.keys', 'INV.arms'],
   ensures=['[members] forall_arm(lambda a: mem(result, a) == (mem(self.arms, a) and '
            'val(self.arm_to_status, a, "is_trained")))',
            '[distinct] distinct(result)',
            '[order] forall_arm(lambda a: forall_arm(lambda b: implies(mem(result, a) and mem(result, b), '
            '(pos(result, a) < pos(result, b)) == (pos(self.arms, a) < pos(self.arms, b)))))'],
   result='alist')
fn('base_mab.BaseMAB.cold_arms', props='C13', pure=True, reads=['self.arms', 'self.arm_to_status'],
   requires=['INV.keys', 'INV.arms'],
   # C13: cold_arms lists exactly the arms that are neither observed nor warm-started
   ensures=['[members] forall_arm(lambda a: mem(result, a) == (mem(self.arms, a) and '
            'not val(self.arm_to_status, a, "is_trained") and not val(self.arm_to_status, a, "is_warm")))',
            '[distinct] distinct(result)',
            '[order] forall_arm(lambda a: forall_arm(lambda b: implies(mem(result, a) and mem(result, b), '
            '(pos(result, a) < pos(result, b)) == (pos(self.arms, a) < pos(self.arms, b)))))'],
   result='alist')

DIST = 'fdist(metric, val(arm_to_features, from_arm), val(arm_to_features, a))'
fn('base_mab.BaseMAB._get_arm_distances', props='C13', pure=True,
   params={'from_arm': 'arm', 'arm_to_features': 'map:rseq', 'metric': 'str', 'self_distance': 'int'},
   requires=['inkeys(arm_to_features, from_arm)', 'distinct(keys(arm_to_features))'],
   raises=['ValueError'],       # feature vectors of different lengths (scipy)
   ensures=['[keys] keys(result) == keys(arm_to_features)',
            '[values] forall_arm(lambda a: implies(inkeys(arm_to_features, a), val(result, a) == '
            '(self_distance if (a == from_arm or isnan(%s)) else %s)))' % (DIST, DIST)],
   result='map:real')

PDIST = 'fdist(metric, val(arm_to_features, u), val(arm_to_features, v))'
fn('base_mab.BaseMAB._get_pairwise_distances', props='C13', pure=True,
   params={'arm_to_features': 'map:rseq', 'metric': 'str', 'self_distance': 'int'},
   requires=['distinct(keys(arm_to_features))'],
   raises=['ValueError'],
   ensures=['[keys] keys(result) == keys(arm_to_features)',
            '[inner.keys] forall_arm(lambda u: implies(inkeys(arm_to_features, u), '
            'keys(inner(result, u)) == keys(arm_to_features)))',
            '[values] forall_arm(lambda u: forall_arm(lambda v: implies(inkeys(arm_to_features, u) and '
            'inkeys(arm_to_features, v), val(inner(result, u), v) == '
            '(self_distance if (v == u or isnan(%s)) else %s))))' % (PDIST, PDIST)],
   result='map:dict')

fn('base_mab.BaseMAB._get_distance_threshold', props='C13', pure=True,
   params={'distance_from_to': 'map:dict', 'quantile': 'real', 'self_distance': 'int'},
   requires=['forall_arm(lambda u: implies(inkeys(distance_from_to, u), slen(keys(inner(distance_from_to, u))) > 0))'],
   # the threshold is the q-quantile of a list that depends on the distances only: monotone in q (A4)
   ensures=['[function] result == quantile_of(closest_distances(distance_from_to, self_distance), quantile)'],
   result='real')

TRAINED = 'val(self.arm_to_status, %s, "is_trained")'
COLD = ('(mem(self.arms, %s) and not val(self.arm_to_status, %s, "is_trained") and '
        'not val(self.arm_to_status, %s, "is_warm"))')
PW = 'self._get_pairwise_distances(arm_to_features)'
D = 'val(inner(%s, %%s), %%s)' % PW
TH = 'self._get_distance_threshold(%s, distance_quantile)' % PW
WS_PARAMS = {'arm_to_features': 'map:rseq', 'distance_quantile': 'real'}
WS_REQ = ['INV.keys', 'INV.arms', 'distinct(keys(arm_to_features))',
          # MAB.warm_start checks that the feature dictionary covers exactly the arms
          'forall_arm(lambda a: mem(self.arms, a) == inkeys(arm_to_features, a))']
fn('base_mab.BaseMAB._get_cold_arm_to_warm_arm', props='C13', pure=True,
   reads=['self.arms', 'self.arm_to_status'],
   params=WS_PARAMS, requires=WS_REQ, raises=['ValueError'],
   ensures=['[keys] distinct(keys(result))',
            # only cold arms are mapped ...
            '[domain] forall_arm(lambda c: implies(inkeys(result, c), %s))' % (COLD % ('c', 'c', 'c')),
            # ... to a trained arm at minimal distance, not farther than the threshold
            '[image] forall_arm(lambda c: implies(inkeys(result, c), mem(self.arms, val(result, c)) and %s and %s <= %s))'
            % (TRAINED % 'val(result, c)', D % ('c', 'val(result, c)'), TH),
            '[closest] forall_arm(lambda c: forall_arm(lambda t: implies(inkeys(result, c) and mem(self.arms, t) and %s, '
            '%s <= %s)))' % (TRAINED % 't', D % ('c', 'val(result, c)'), D % ('c', 't')),
            '[ties] forall_arm(lambda c: forall_arm(lambda t: implies(inkeys(result, c) and mem(self.arms, t) and %s and '
            '%s == %s, pos(self.arms, val(result, c)) <= pos(self.arms, t))))'
            % (TRAINED % 't', D % ('c', 't'), D % ('c', 'val(result, c)')),
            # a cold arm is left out only if every trained arm is farther than the threshold
            '[complete] forall_arm(lambda c: forall_arm(lambda t: implies(%s and not inkeys(result, c) and '
            'mem(self.arms, t) and %s, %s > %s)))' % (COLD % ('c', 'c', 'c'), TRAINED % 't', D % ('c', 't'), TH)],
   result='map:arm')

MAPPING = 'old(self._get_cold_arm_to_warm_arm(arm_to_features, distance_quantile))'


def warm_start_contracts(module, cls, copied_maps, derived_maps=(), props='C13', inv='INV', copy_extra_ensures=(),
                         pre_inv=None, copy_qual=None):
    """_copy_arms of `cls` and BaseMAB._warm_start with that class as receiver.  copied_maps: per-arm dictionaries
    copied from the warm arm; derived_maps: dictionaries recomputed afterwards (Softmax)."""
    allmaps = list(copied_maps) + list(derived_maps)
    same_c = ' and '.join('val(self.%s, c) == old(val(self.%s, val(cold_arm_to_warm_arm, c)))' % (m, m) for m in copied_maps)
    same_a = ' and '.join('val(self.%s, a) == old(val(self.%s, a))' % (m, m) for m in copied_maps)
    fn(copy_qual or '%s.%s._copy_arms' % (module, cls), cls=cls if copy_qual else None, props=props,
       params={'cold_arm_to_warm_arm': 'map:arm'},
       requires=['INV.keys', 'INV.arms', 'distinct(keys(cold_arm_to_warm_arm))',
                 'forall_arm(lambda c: implies(inkeys(cold_arm_to_warm_arm, c), mem(self.arms, c) and '
                 'mem(self.arms, val(cold_arm_to_warm_arm, c)) and '
                 'not inkeys(cold_arm_to_warm_arm, val(cold_arm_to_warm_arm, c))))'] +
       (['slen(self.arms) > 0'] if derived_maps else []),
       modifies=['self.%s[*]' % m for m in allmaps],
       ensures=['[C13,copied] forall_arm(lambda c: implies(inkeys(cold_arm_to_warm_arm, c), %s))' % same_c,
                '[C13,untouched] forall_arm(lambda a: implies(mem(self.arms, a) and not inkeys(cold_arm_to_warm_arm, a), %s))'
                % same_a] + list(copy_extra_ensures))
    ws_c = ' and '.join('val(self.%s, c) == old(val(self.%s, val(%s, c)))' % (m, m, MAPPING) for m in copied_maps)
    fn('base_mab.BaseMAB._warm_start', cls=cls, props=props, params=WS_PARAMS,
       requires=WS_REQ + [pre_inv or inv, 'slen(self.arms) > 0'], raises=['ValueError'],
       modifies=['self.%s[*]' % m for m in allmaps] + ['self.arm_to_status[*]'],
       ensures=[inv,
                # C13: only cold arms that have a trained arm within the threshold change; they become warm
                '[C13,status] forall_arm(lambda a: implies(mem(self.arms, a), '
                'val(self.arm_to_status, a, "is_warm") == (old(val(self.arm_to_status, a, "is_warm")) or inkeys(%s, a)) and '
                'val(self.arm_to_status, a, "is_trained") == old(val(self.arm_to_status, a, "is_trained")) and '
                'val(self.arm_to_status, a, "warm_started_by") == (some(val(%s, a)) if inkeys(%s, a) else '
                'old(val(self.arm_to_status, a, "warm_started_by")))))' % (MAPPING, MAPPING, MAPPING),
                # ... and receive an exact copy of the learned state of the closest trained arm
                '[C13,copied] forall_arm(lambda c: implies(inkeys(%s, c), %s))' % (MAPPING, ws_c),
                # every other arm (in particular every trained arm) is left untouched
                '[C13,untouched] forall_arm(lambda a: implies(mem(self.arms, a) and not inkeys(%s, a), %s))'
                % (MAPPING, same_a)])
klass('StandardScaler', fields={'state': 'opaque'})

# ------------------------------------------------------------------------------- partition of query rows (C05)
fn('base_mab.BaseMAB._partition_contexts', props='C05 C08',
   params={'n_contexts': 'int'},
   requires=['n_contexts >= 1', 'self.n_jobs != 0'],
   modifies=[], result='partition',
   # C05: an ordered exact cover of the rows: chunk i is [starts[i], starts[i+1])
   ensures=['[jobs] 1 <= result[0] and result[0] <= n_contexts',
            '[lens] slen(result[1]) == result[0] and slen(result[2]) == result[0] + 1',
            '[first] ival(result[2], 0) == 0', '[last] ival(result[2], result[0]) == n_contexts',
            '[chunks] forall_int(lambda i: implies(0 <= i and i < result[0], ival(result[1], i) >= 0 and '
            'ival(result[2], i + 1) - ival(result[2], i) == ival(result[1], i)), lambda i: ival(result[2], i + 1))',
            '[bounds] forall_int(lambda i: implies(0 <= i and i <= result[0], 0 <= ival(result[2], i) and '
            'ival(result[2], i) <= n_contexts), lambda i: ival(result[2], i))',
            '[total] isum_of(result[1]) == n_contexts'])
