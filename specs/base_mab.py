"""Contracts for mabwiser/base_mab.py and mabwiser/utils.py."""
from pyvc.spec import klass, fn

FIT_PARAMS = {'decisions': 'aseq', 'rewards': 'rseq', 'contexts': 'opt:mat'}
ARM_PARAMS = {'arm': 'arm', 'binarizer': 'opt:callable', 'scaler': 'opt:callable'}
INIT_PARAMS = {'rng': 'rng', 'arms': 'list:arm', 'n_jobs': 'int', 'backend': 'optopaque'}
PRED_PARAMS = {'contexts': 'opt:mat'}

klass('_NumpyRNG', fields={'seed': 'int', 'rng': 'obj:np.Generator'})
klass('np.Generator', fields={'state': 'rngstate'})

# Naming of invariant clauses: arms.* relate the per-arm dictionaries to the arm list (temporarily broken inside
# add_arm / remove_arm, where MAB has already updated the shared list); keys.* relate the dictionaries to each
# other; stat.* are the statistics.
klass('BaseMAB',
      fields={'rng': 'rng', 'arms': 'list:arm', 'n_jobs': 'int const', 'backend': 'optopaque const',
              'arm_to_expectation': 'map:real', 'arm_to_status': 'map:status'},
      inv=['[C08,arms.link] keys(self.arm_to_expectation) == self.arms',
           '[C08,keys.distinct] distinct(keys(self.arm_to_expectation))',
           '[C08,keys.status] keys(self.arm_to_status) == keys(self.arm_to_expectation)',
           '[C05,keys.jobs] self.n_jobs != 0'])

# tiny helpers without a contract of their own are executed at their call sites (inline):
#   utils.check_true, utils.check_false, utils.reset, utils.argmax, utils.argmin, utils.create_rng,
#   _NumpyRNG.*, BaseMAB.__init__, BaseMAB._parallel_fit, BaseMAB._reset_arm_to_status

fn('base_mab.BaseMAB._effective_jobs', props='C05',
   params={'size': 'int', 'n_jobs': 'int'},
   requires=['size >= 1', 'n_jobs != 0'],
   ensures=['[bounds] 1 <= result and result <= size',
            '[sequential] implies(n_jobs == 1, result == 1)'],
   result='int')


def status_fresh(a='a'):
    return ('(not val(self.arm_to_status, %s, "is_trained") and not val(self.arm_to_status, %s, "is_warm") and '
            'val(self.arm_to_status, %s, "warm_started_by") == NONE_ARM())' % (a, a, a))


def forall_arms(body):
    return 'forall_arm(lambda a: implies(inkeys(self.arm_to_expectation, a), %s))' % body


def pe_result(run, env):
    """Kind of the value predict_expectations / predict return: one result for no contexts or one row, else a list."""
    from pyvc.values import NoneV, MapO, SymListO
    from pyvc.smt import fresh, ASeq, Arm, Real, Int
    from pyvc.lib import mrows, PVArr
    import z3
    ctx = env.get('contexts')
    single = isinstance(ctx, NoneV) or run.branch(mrows(ctx.term) == 1)
    if single:
        return run.st.alloc(MapO(fresh('pe_keys', ASeq), {'': fresh('pe_vals', z3.ArraySort(Arm, Real))}, {'': 'real'}))
    return run.st.alloc(SymListO(fresh('pe_len', Int), fresh('pe_elems', PVArr), 'dict'))


def pred_result(run, env):
    from pyvc.values import NoneV, ArmV, SeqV
    from pyvc.smt import fresh, ASeq, Arm
    from pyvc.lib import mrows
    ctx = env.get('contexts')
    single = isinstance(ctx, NoneV) or run.branch(mrows(ctx.term) == 1)
    if single:
        return ArmV(fresh('pred', Arm))
    return SeqV('A', fresh('preds', ASeq), True)


SINGLE = '(is_none(contexts) or rows(contexts) == 1)'
