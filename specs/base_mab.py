"""Contracts for mabwiser/base_mab.py and mabwiser/utils.py."""
from pyvc.spec import klass, fn

FIT_PARAMS = {'decisions': 'aseq', 'rewards': 'rseq', 'contexts': 'opt:mat'}
ARM_PARAMS = {'arm': 'arm', 'binarizer': 'opt:callable', 'scaler': 'opt:callable'}
INIT_PARAMS = {'rng': 'rng', 'arms': 'list:arm', 'n_jobs': 'int', 'backend': 'optopaque'}
PRED_PARAMS = {'contexts': 'opt:mat'}

klass('_NumpyRNG', fields={'seed': 'int', 'rng': 'obj:np.Generator'})
klass('np.Generator', fields={'state': 'rngstate'})

# Naming of invariant clauses: arms.* relate the per-arm dictionaries to the arm list (temporarily broken inside
# add_arm / remove_arm, where MAB has already updated the shared list); keys.* relate the dictionaries to each
# other; stat.* are the statistics.
klass('BaseMAB',
      fields={'rng': 'rng', 'arms': 'list:arm', 'n_jobs': 'int const', 'backend': 'optopaque const',
              'arm_to_expectation': 'map:real', 'arm_to_status': 'map:status'},
      inv=['[C08,arms.link] keys(self.arm_to_expectation) == self.arms',
           '[C08,keys.distinct] distinct(keys(self.arm_to_expectation))',
           '[C08,keys.status] keys(self.arm_to_status) == keys(self.arm_to_expectation)',
           '[C05,keys.jobs] self.n_jobs != 0'])

# tiny helpers without a contract of their own are executed at their call sites (inline):
#   utils.check_true, utils.check_false, utils.reset, utils.argmax, utils.argmin, utils.create_rng,
#   _NumpyRNG.*, BaseMAB.__init__, BaseMAB._parallel_fit, BaseMAB._reset_arm_to_status

fn('base_mab.BaseMAB._effective_jobs', props='C05',
   params={'size': 'int', 'n_jobs': 'int'},
   requires=['size >= 1', 'n_jobs != 0'],
   ensures=['[bounds] 1 <= result and result <= size',
            '[sequential] implies(n_jobs == 1, result == 1)'],
   result='int')


def status_fresh(a='a'):
    return ('(not val(self.arm_to_status, %s, "is_trained") and not val(self.arm_to_status, %s, "is_warm") and '
            'val(self.arm_to_status, %s, "warm_started_by") == NONE_ARM())' % (a, a, a))


def forall_arms(body):
    return 'forall_arm(lambda a: implies(inkeys(self.arm_to_expectation, a), %s))' % body


def pe_result(run, env):
    """Kind of the value predict_expectations / predict return: one result for no contexts or one row, else a list."""
    from pyvc.values import NoneV, MapO, SymListO
    from pyvc.smt import fresh, ASeq, Arm, Real, Int
    from pyvc.lib import mrows, PVArr
    import z3
    ctx = env.get('contexts')
    single = isinstance(ctx, NoneV) or run.branch(mrows(ctx.term) == 1)
    if single:
        return run.st.alloc(MapO(fresh('pe_keys', ASeq), {'': fresh('pe_vals', z3.ArraySort(Arm, Real))}, {'': 'real'}))
    return run.st.alloc(SymListO(fresh('pe_len', Int), fresh('pe_elems', PVArr), 'dict'))


def pred_result(run, env):
    from pyvc.values import NoneV, ArmV, SeqV
    from pyvc.smt import fresh, ASeq, Arm
    from pyvc.lib import mrows
    ctx = env.get('contexts')
    single = isinstance(ctx, NoneV) or run.branch(mrows(ctx.term) == 1)
    if single:
        return ArmV(fresh('pred', Arm))
    return SeqV('A', fresh('preds', ASeq), True)


SINGLE = '(is_none(contexts) or rows(contexts) == 1)'


S0 = 'old(rngstate(self.rng))'
M_ROWS = 'rows(contexts)'
N_ARMS = 'slen(self.arms)'

# ---- arm changes (BaseMAB.add_arm / remove_arm with each class's hooks).  MAB has already appended / removed
# the label in the shared arm list when these run.
ADD_REQ = ['INV~arms', 'self.arms == appended(keys(self.arm_to_expectation), arm)',
           'not inkeys(self.arm_to_expectation, arm)']
REM_REQ = ['INV~arms', 'self.arms == removed(keys(self.arm_to_expectation), arm)',
           'inkeys(self.arm_to_expectation, arm)']

STATUS_AFTER_FIT = forall_arms('val(self.arm_to_status, a, "is_trained") == (cnt(decisions, a) > 0) and '
                               'not val(self.arm_to_status, a, "is_warm") and '
                               'val(self.arm_to_status, a, "warm_started_by") == NONE_ARM()')
STATUS_AFTER_PARTIAL = forall_arms(
    'val(self.arm_to_status, a, "is_trained") == (old(val(self.arm_to_status, a, "is_trained")) or cnt(decisions, a) > 0) '
    'and val(self.arm_to_status, a, "is_warm") == old(val(self.arm_to_status, a, "is_warm")) and '
    'val(self.arm_to_status, a, "warm_started_by") == old(val(self.arm_to_status, a, "warm_started_by"))')


def unchanged(maps, status=True):
    parts = ['val(self.%s, a) == old(val(self.%s, a))' % (m, m) for m in maps]
    if status:
        parts += ['val(self.arm_to_status, a, "%s") == old(val(self.arm_to_status, a, "%s"))' % (c, c)
                  for c in ('is_trained', 'is_warm', 'warm_started_by')]
    return ' and '.join(parts)


def arm_change_contracts(cls, maps, neutral, extra_modifies=(), others=True, props='C01 C08', rem_req=(),
                         rem_inv='INV', other_maps=None):
    """Contracts of BaseMAB.add_arm / remove_arm for receiver class `cls` whose per-arm dictionaries are `maps`."""
    mods = ['self.%s{}' % m for m in maps] + ['self.arm_to_status{}'] + list(extra_modifies)
    ens_add = ['INV', '[C01,C03,neutral] ' + neutral + ' and ' + status_fresh('arm')]
    ens_rem = [rem_inv]
    if others:
        om = other_maps if other_maps is not None else maps
        ens_add.append('[C01,others] forall_arm(lambda a: implies(old(inkeys(self.arm_to_expectation, a)), %s))'
                       % unchanged(om))
        ens_rem.append('[C01,others] forall_arm(lambda a: implies(inkeys(self.arm_to_expectation, a), %s))'
                       % unchanged(om))
    fn('base_mab.BaseMAB.add_arm', cls=cls, props=props, params={'arm': 'arm', 'binarizer': 'opt:callable'},
       requires=ADD_REQ, modifies=mods, ensures=ens_add)
    fn('base_mab.BaseMAB.remove_arm', cls=cls, props=props, params={'arm': 'arm'},
       requires=REM_REQ + list(rem_req), modifies=mods, ensures=ens_rem)


def predict_contracts(module, cls, E1, EM, stream1, streamM, modifies=('self.rng.rng.state',), requires=('INV',),
                      props_pe='C01 C08 C09 C10', props_p='C08 C09 C10'):
    """predict_expectations / predict of a context-free policy.  E1 / EM: expectation reported for arm `a` with
    no contexts or one row / for row j of several rows, as a term over the entry state; stream1 / streamM: the
    stream state afterwards."""
    q = '%s.%s' % (module, cls)
    fn(q + '.predict_expectations', props=props_pe, params=PRED_PARAMS, result=pe_result,
       requires=list(requires), modifies=list(modifies),
       ensures=['[C08,shape] is_dict(result) == %s' % SINGLE,
                '[C08,keys] (keys(result) == self.arms) if is_dict(result) else (slen(result) == rows(contexts) and '
                'forall_int(lambda j: implies(0 <= j and j < rows(contexts), keys(item(result, j)) == self.arms)))',
                '[C01,C09,values] (forall_arm(lambda a: implies(mem(self.arms, a), val(result, a) == %s))) '
                'if is_dict(result) else forall_int(lambda j: implies(0 <= j and j < rows(contexts), '
                'forall_arm(lambda a: implies(mem(self.arms, a), val(item(result, j), a) == %s))))' % (E1, EM),
                '[C10,stream] rngstate(self.rng) == ((%s) if is_dict(result) else (%s))' % (stream1, streamM)])
    fn(q + '.predict', props=props_p, params=PRED_PARAMS, result=pred_result,
       requires=list(requires) + ['slen(self.arms) > 0'], modifies=list(modifies),
       ensures=['[C08,shape] is_list(result) == (not %s)' % SINGLE,
                # C09: the first arm attaining the maximum of the expectations predict_expectations returns
                '[C09,argmax] (result == argmax_over(self.arms, lambda a: %s)) if not is_list(result) else '
                '(slen(result) == rows(contexts) and forall_int(lambda j: implies(0 <= j and j < rows(contexts), '
                'at(result, j) == argmax_over(self.arms, lambda a: %s))))' % (E1, EM),
                '[C08,member] mem(self.arms, result) if not is_list(result) else '
                'forall_int(lambda j: implies(0 <= j and j < rows(contexts), mem(self.arms, at(result, j))))',
                '[C10,stream] rngstate(self.rng) == ((%s) if not is_list(result) else (%s))' % (stream1, streamM)])


# ------------------------------------------------------------------------------------- warm start (C13)
fn('base_mab.BaseMAB.trained_arms', props='C13', pure=True,
   requires=['INV.keys', 'INV.arms'],
   ensures=['[members] forall_arm(lambda a: mem(result, a) == (mem(self.arms, a) and '
            'val(self.arm_to_status, a, "is_trained")))',
            '[order] distinct(result)'],
   result='alist')
fn('base_mab.BaseMAB.cold_arms', props='C13', pure=True,
   requires=['INV.keys', 'INV.arms'],
   # C13: cold_arms lists exactly the arms that are neither observed nor warm-started
   ensures=['[members] forall_arm(lambda a: mem(result, a) == (mem(self.arms, a) and '
            'not val(self.arm_to_status, a, "is_trained") and not val(self.arm_to_status, a, "is_warm")))',
            '[order] distinct(result)'],
   result='alist')

DIST = 'fdist(metric, val(arm_to_features, from_arm), val(arm_to_features, a))'
fn('base_mab.BaseMAB._get_arm_distances', props='C13',
   params={'from_arm': 'arm', 'arm_to_features': 'map:rseq', 'metric': 'str', 'self_distance': 'int'},
   requires=['inkeys(arm_to_features, from_arm)', 'distinct(keys(arm_to_features))'],
   raises=['ValueError'],       # feature vectors of different lengths (scipy)
   ensures=['[keys] keys(result) == keys(arm_to_features)',
            '[values] forall_arm(lambda a: implies(inkeys(arm_to_features, a), val(result, a) == '
            '(self_distance if (a == from_arm or isnan(%s)) else %s)))' % (DIST, DIST)],
   result='map:real')

PDIST = 'fdist(metric, val(arm_to_features, u), val(arm_to_features, v))'
fn('base_mab.BaseMAB._get_pairwise_distances', props='C13',
   params={'arm_to_features': 'map:rseq', 'metric': 'str', 'self_distance': 'int'},
   requires=['distinct(keys(arm_to_features))'],
   raises=['ValueError'],
   ensures=['[keys] keys(result) == keys(arm_to_features)',
            '[inner.keys] forall_arm(lambda u: implies(inkeys(arm_to_features, u), '
            'keys(inner(result, u)) == keys(arm_to_features)))',
            '[values] forall_arm(lambda u: forall_arm(lambda v: implies(inkeys(arm_to_features, u) and '
            'inkeys(arm_to_features, v), val(inner(result, u), v) == '
            '(self_distance if (v == u or isnan(%s)) else %s))))' % (PDIST, PDIST)],
   result='map:dict')

fn('base_mab.BaseMAB._get_distance_threshold', props='C13',
   params={'distance_from_to': 'map:dict', 'quantile': 'real', 'self_distance': 'int'},
   requires=['forall_arm(lambda u: implies(inkeys(distance_from_to, u), slen(keys(inner(distance_from_to, u))) > 0))'],
   # the threshold is the q-quantile of a list that depends on the distances only: monotone in q (A4)
   ensures=['[function] result == quantile_of(closest_distances(distance_from_to, self_distance), quantile)'],
   result='real')
