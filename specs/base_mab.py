"""Contracts for mabwiser/base_mab.py and mabwiser/utils.py."""
from pyvc.spec import klass, fn

FIT_PARAMS = {'decisions': 'aseq', 'rewards': 'rseq', 'contexts': 'opt:mat'}
ARM_PARAMS = {'arm': 'arm', 'binarizer': 'opt:callable', 'scaler': 'opt:callable'}

klass('_NumpyRNG', fields={'seed': 'int', 'rng': 'obj:np.Generator'})
klass('np.Generator', fields={'state': 'opaque'})

klass('BaseMAB',
      fields={'rng': 'rng', 'arms': 'list:arm', 'n_jobs': 'int const', 'backend': 'optopaque const',
              'arm_to_expectation': 'map:real', 'arm_to_status': 'map:status'},
      inv=['[C08,keys.arms] distinct(self.arms)',
           '[C08,keys.exp] keys(self.arm_to_expectation) == self.arms',
           '[C08,keys.status] keys(self.arm_to_status) == self.arms',
           '[C05,keys.jobs] self.n_jobs != 0'])

# tiny helpers without a contract of their own are executed at their call sites (inline):
#   utils.check_true, utils.check_false, utils.reset, utils.argmax, utils.argmin, utils.create_rng,
#   _NumpyRNG.*, BaseMAB._parallel_fit, BaseMAB._reset_arm_to_status

fn('base_mab.BaseMAB._effective_jobs', props='C05',
   params={'size': 'int', 'n_jobs': 'int'},
   requires=['size >= 1', 'n_jobs != 0'],
   ensures=['[bounds] 1 <= result and result <= size',
            '[sequential] implies(n_jobs == 1, result == 1)'],
   result='int')
