"""Contracts for mabwiser/softmax.py (_Softmax)."""
from pyvc.spec import klass, fn
from specs.base_mab import (FIT_PARAMS, INIT_PARAMS, status_fresh, forall_arms, S0, M_ROWS as M, N_ARMS as N,
                            STATUS_AFTER_FIT, STATUS_AFTER_PARTIAL, arm_change_contracts, predict_contracts)

MEAN = '(val(self.arm_to_sum, a) / val(self.arm_to_count, a) if val(self.arm_to_count, a) > 0 else 0)'
# C01: max-shifted soft-max of the arm means at temperature tau
EXPO = 'exp((val(self.arm_to_mean, a) - mmax(self.arm_to_mean)) / self.tau)'
klass('_Softmax',
      fields={'tau': 'real const', 'arm_to_sum': 'map:real', 'arm_to_count': 'map:real', 'arm_to_mean': 'map:real',
              'arm_to_exponent': 'map:real'},
      inv=['[C08,keys.sum] keys(self.arm_to_sum) == keys(self.arm_to_expectation)',
           '[C08,keys.count] keys(self.arm_to_count) == keys(self.arm_to_expectation)',
           '[C08,keys.mean] keys(self.arm_to_mean) == keys(self.arm_to_expectation)',
           '[C08,keys.exponent] keys(self.arm_to_exponent) == keys(self.arm_to_expectation)',
           '[C01,keys.tau] self.tau > 0',
           '[C01,stat.count] ' + forall_arms('val(self.arm_to_count, a) >= 0'),
           '[C01,C06,stat.mean] ' + forall_arms('val(self.arm_to_mean, a) == ' + MEAN),
           '[C01,C06,C20,soft.exponent] ' + forall_arms('val(self.arm_to_exponent, a) == ' + EXPO),
           '[C01,C06,C20,soft.share] ' + forall_arms('val(self.arm_to_expectation, a) == val(self.arm_to_exponent, a) / '
                                                    'msum(self.arm_to_exponent)')])

fn('softmax._Softmax.__init__', props='C01 C04 C08', inline=True,
   params={**INIT_PARAMS, 'tau': 'real'},
   requires=['distinct(arms)', 'n_jobs != 0', 'tau > 0'],
   modifies=['self.**'],
   ensures=['[alias.arms] same(self.arms, arms)', '[alias.rng] same(self.rng, rng)', 'self.tau == tau',
            'INV~soft',
            '[neutral] ' + forall_arms('val(self.arm_to_sum, a) == 0 and val(self.arm_to_count, a) == 0 and '
                                       'val(self.arm_to_mean, a) == 0 and ' + status_fresh())],
   note='before the first fit the expectations are 0 for every arm (not the uniform share): the soft.* clauses hold '
        'from the first fit / arm change on; MAB refuses to predict before fit')

fn('softmax._Softmax._expectation_operation', props='C01 C06 C07 C20',
   requires=['keys(self.arm_to_mean) == keys(self.arm_to_expectation)',
             'keys(self.arm_to_exponent) == keys(self.arm_to_expectation)',
             'distinct(keys(self.arm_to_expectation))', 'self.tau > 0',
             'slen(keys(self.arm_to_expectation)) > 0'],
   modifies=['self.arm_to_exponent[*]', 'self.arm_to_expectation[*]'],
   ensures=['[exponent] ' + forall_arms('val(self.arm_to_exponent, a) == ' + EXPO),
            '[share] ' + forall_arms('val(self.arm_to_expectation, a) == val(self.arm_to_exponent, a) / '
                                     'msum(self.arm_to_exponent)')])

fn('softmax._Softmax._fit_arm', props='C01 C05 C06 C07 C20',
   params={'arm': 'arm', **FIT_PARAMS},
   requires=['INV.keys', 'INV.arms', 'mem(self.arms, arm)', 'slen(decisions) == slen(rewards)',
             'val(self.arm_to_count, arm) >= 0'],
   modifies=['self.arm_to_sum[arm]', 'self.arm_to_count[arm]', 'self.arm_to_mean[arm]'],
   ensures=['[sum] self.arm_to_sum[arm] == old(self.arm_to_sum[arm]) + ssum(sel(rewards, decisions, arm))',
            '[count] self.arm_to_count[arm] == old(self.arm_to_count[arm]) + cnt(decisions, arm)',
            '[mean] self.arm_to_mean[arm] == (self.arm_to_sum[arm] / self.arm_to_count[arm] '
            'if cnt(decisions, arm) > 0 else old(self.arm_to_mean[arm]))'])

MODS = ['self.arm_to_sum[*]', 'self.arm_to_count[*]', 'self.arm_to_mean[*]', 'self.arm_to_exponent[*]',
        'self.arm_to_expectation[*]']
fn('softmax._Softmax.fit', props='C01 C06 C07 C08 C20',
   params=FIT_PARAMS,
   requires=['INV.keys', 'INV.arms', 'slen(decisions) == slen(rewards)', 'slen(self.arms) > 0'],
   modifies=MODS + ['self.arm_to_status'],
   ensures=['INV',
            '[C01,C07,fresh.sum] ' + forall_arms('val(self.arm_to_sum, a) == ssum(sel(rewards, decisions, a))'),
            '[C01,C07,fresh.count] ' + forall_arms('val(self.arm_to_count, a) == cnt(decisions, a)'),
            '[C07,C13,fresh.status] ' + STATUS_AFTER_FIT])

fn('softmax._Softmax.partial_fit', props='C01 C06 C08 C20',
   params=FIT_PARAMS,
   requires=['INV~soft', 'slen(decisions) == slen(rewards)', 'slen(self.arms) > 0'],
   modifies=MODS + ['self.arm_to_status[*]'],
   ensures=['INV',
            '[C01,C06,acc.sum] ' + forall_arms('val(self.arm_to_sum, a) == old(val(self.arm_to_sum, a)) + '
                                               'ssum(sel(rewards, decisions, a))'),
            '[C01,C06,acc.count] ' + forall_arms('val(self.arm_to_count, a) == old(val(self.arm_to_count, a)) + '
                                                 'cnt(decisions, a)'),
            '[C13,acc.status] ' + STATUS_AFTER_PARTIAL])

# C01: draws from a Dirichlet whose parameters are the soft-max shares (+ machine epsilon), one row per context
ALPHA = 'shifted_values(old(self.arm_to_expectation), EPS())'
E1 = 'mat_at(draw_dirichlet(%s, %s, 1), 0, pos(self.arms, a))' % (S0, ALPHA)
EM = 'mat_at(draw_dirichlet(%s, %s, %s), j, pos(self.arms, a))' % (S0, ALPHA, M)
predict_contracts('softmax', '_Softmax', E1, EM,
                  'next_dirichlet(%s, %s, 1)' % (S0, ALPHA), 'next_dirichlet(%s, %s, %s)' % (S0, ALPHA, M),
                  requires=('INV~soft',))

SOFT_MAPS = ['arm_to_sum', 'arm_to_count', 'arm_to_mean']
arm_change_contracts('_Softmax', SOFT_MAPS + ['arm_to_exponent', 'arm_to_expectation'],
                     'val(self.arm_to_sum, arm) == 0 and val(self.arm_to_count, arm) == 0 and '
                     'val(self.arm_to_mean, arm) == 0', other_maps=SOFT_MAPS, pre_inv='INV~arms~soft',
                     # removing the only arm of a Softmax bandit raises (max() of an empty dict) after the arm list was
                     # changed: an undocumented rejection outside the classes C17 names; recorded in DESIGN.md
                     rem_req=['slen(self.arms) > 0'])

from specs.base_mab import warm_start_contracts
warm_start_contracts('softmax', '_Softmax', SOFT_MAPS, derived_maps=['arm_to_exponent', 'arm_to_expectation'], pre_inv='INV~soft',
                     copy_extra_ensures=['[exponent] ' + forall_arms('val(self.arm_to_exponent, a) == ' + EXPO),
                                         '[share] ' + forall_arms('val(self.arm_to_expectation, a) == '
                                                                  'val(self.arm_to_exponent, a) / msum(self.arm_to_exponent)')])
