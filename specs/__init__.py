"""Sidecar contracts for /repo/mabwiser (keyed by module.Class.function).  /repo is never edited for verification."""
