"""Contracts for mabwiser/thompson.py (_ThompsonSampling)."""
from pyvc.spec import klass, fn
from specs.base_mab import (FIT_PARAMS, INIT_PARAMS, status_fresh, forall_arms, S0, M_ROWS as M, N_ARMS as N,
                            STATUS_AFTER_FIT, STATUS_AFTER_PARTIAL, arm_change_contracts, predict_contracts)

klass('_ThompsonSampling',
      fields={'binarizer': 'optbinarizer', 'is_contextual_binarized': 'bool', 'arm_to_success_count': 'map:real',
              'arm_to_fail_count': 'map:real'},
      inv=['[C08,keys.success] keys(self.arm_to_success_count) == keys(self.arm_to_expectation)',
           '[C08,keys.fail] keys(self.arm_to_fail_count) == keys(self.arm_to_expectation)',
           # Beta parameters stay positive (they start at 1 and grow by counts of binary rewards)
           '[C01,stat.pos] ' + forall_arms('val(self.arm_to_success_count, a) >= 1 and '
                                           'val(self.arm_to_fail_count, a) >= 1')])

# the rewards the counters are fed with: converted by the binarizer unless a neighbourhood policy already did (C14)
B = ('(binarized(self.binarizer, decisions, rewards) if (not is_none(self.binarizer) and '
     'not self.is_contextual_binarized) else rewards)')
OLD_B = ('(binarized(old(self.binarizer), decisions, rewards) if (not is_none(old(self.binarizer)) and '
         'not old(self.is_contextual_binarized)) else rewards)')

fn('thompson._ThompsonSampling.__init__', props='C01 C04 C08 C14', inline=True,
   params={**INIT_PARAMS, 'binarizer': 'optbinarizer'},
   requires=['distinct(arms)', 'n_jobs != 0'],
   modifies=['self.**'],
   ensures=['[alias.arms] same(self.arms, arms)', '[alias.rng] same(self.rng, rng)', 'self.binarizer == binarizer',
            'not self.is_contextual_binarized', 'INV',
            '[neutral] ' + forall_arms('val(self.arm_to_success_count, a) == 1 and val(self.arm_to_fail_count, a) == 1 '
                                       'and ' + status_fresh())])

fn('thompson._ThompsonSampling._get_binary_rewards', props='C01 C14',
   params={'decisions': 'aseq', 'rewards': 'rseq'},
   requires=['slen(decisions) == slen(rewards)'],
   ensures=['[C14,once] same_elems(result, %s)' % B], result='rseq')

fn('thompson._ThompsonSampling._fit_arm', props='C01 C05 C06 C07 C14 C20',
   params={'arm': 'arm', **FIT_PARAMS},
   requires=['INV.keys', 'INV.arms', 'mem(self.arms, arm)', 'slen(decisions) == slen(rewards)'],
   modifies=['self.arm_to_success_count[arm]', 'self.arm_to_fail_count[arm]'],
   ensures=['[success] self.arm_to_success_count[arm] == old(self.arm_to_success_count[arm]) + '
            'ssum(sel(rewards, decisions, arm))',
            '[fail] self.arm_to_fail_count[arm] == old(self.arm_to_fail_count[arm]) + cnt(decisions, arm) - '
            'ssum(sel(rewards, decisions, arm))'])

MODS = ['self.arm_to_success_count[*]', 'self.arm_to_fail_count[*]']
BIN_REQ = 'binary(%s)' % B      # MAB validates {0,1} rewards when no binarizer is given; a binarizer returns 0/1
fn('thompson._ThompsonSampling.fit', props='C01 C06 C07 C08 C14 C20',
   params=FIT_PARAMS,
   requires=['INV.keys', 'INV.arms', 'slen(decisions) == slen(rewards)', 'slen(self.arms) > 0', BIN_REQ],
   modifies=MODS + ['self.arm_to_status'],
   ensures=['INV',
            # C01: one-plus-successes / one-plus-failures;  C07: functions of the new data only
            '[C01,C07,C14,fresh.success] ' + forall_arms('val(self.arm_to_success_count, a) == 1 + '
                                                         'ssum(sel(%s, decisions, a))' % B),
            '[C01,C07,C14,fresh.fail] ' + forall_arms('val(self.arm_to_fail_count, a) == 1 + cnt(decisions, a) - '
                                                      'ssum(sel(%s, decisions, a))' % B),
            '[C07,C13,fresh.status] ' + STATUS_AFTER_FIT])

fn('thompson._ThompsonSampling.partial_fit', props='C01 C06 C08 C14 C20',
   params=FIT_PARAMS,
   requires=['INV', 'slen(decisions) == slen(rewards)', 'slen(self.arms) > 0', BIN_REQ],
   modifies=MODS + ['self.arm_to_status[*]'],
   ensures=['INV',
            '[C01,C06,C14,acc.success] ' + forall_arms('val(self.arm_to_success_count, a) == '
                                                       'old(val(self.arm_to_success_count, a)) + '
                                                       'ssum(sel(%s, decisions, a))' % B),
            '[C01,C06,C14,acc.fail] ' + forall_arms('val(self.arm_to_fail_count, a) == '
                                                    'old(val(self.arm_to_fail_count, a)) + cnt(decisions, a) - '
                                                    'ssum(sel(%s, decisions, a))' % B),
            '[C13,acc.status] ' + STATUS_AFTER_PARTIAL])

# C01: one Beta(success, fail) draw of `size` values per arm, in arm order; row j of the result reads element j
SIZE1, SIZEM = '1', M
DRAW = ('at(draw_beta(beta_state(%s, pos(self.arms, a), old(self.arm_to_expectation), self.arm_to_success_count, '
        'self.arm_to_fail_count, %%s), val(self.arm_to_success_count, a), val(self.arm_to_fail_count, a), %%s), %%s)' % S0)
E1 = DRAW % (SIZE1, SIZE1, '0')
EM = DRAW % (SIZEM, SIZEM, 'j')
STREAM = ('beta_state(%s, %s, old(self.arm_to_expectation), self.arm_to_success_count, self.arm_to_fail_count, %%s)'
          % (S0, N))
predict_contracts('thompson', '_ThompsonSampling', E1, EM, STREAM % SIZE1, STREAM % SIZEM,
                  # the last row's draws are cached in arm_to_expectation (outside the learned state, C10)
                  modifies=('self.rng.rng.state', 'self.arm_to_expectation'),
                  requires=('INV', 'is_none(contexts) or rows(contexts) >= 1'),
                  extra_ensures=['[C08,cache.keys] keys(self.arm_to_expectation) == self.arms'])

TS_MAPS = ['arm_to_success_count', 'arm_to_fail_count']
arm_change_contracts('_ThompsonSampling', TS_MAPS + ['arm_to_expectation'],
                     'val(self.arm_to_success_count, arm) == 1 and val(self.arm_to_fail_count, arm) == 1',
                     extra_modifies=['self.binarizer'], other_maps=TS_MAPS, props='C01 C08 C14',
                     # C14: add_arm installs a new binarizer only when one is given
                     add_ens=['[C14,binarizer] self.binarizer == (old(self.binarizer) if is_none(binarizer) else binarizer)',
                              '[C14,flag] self.is_contextual_binarized == old(self.is_contextual_binarized)'],
                     rem_ens=['[C14,binarizer] self.binarizer == old(self.binarizer)',
                              '[C14,flag] self.is_contextual_binarized == old(self.is_contextual_binarized)'])

from specs.base_mab import warm_start_contracts
warm_start_contracts('thompson', '_ThompsonSampling', TS_MAPS)
