#!/usr/bin/env python3
"""Merge what was measured for every kept seeded change into seeded/<name>/meta.json and print the DESIGN table."""
import json, os, re, sys, glob
ROOT = os.path.dirname(os.path.dirname(os.path.abspath(__file__)))
logs = {}
for f in sys.argv[1:]:
    for line in open(f):
        m = re.match(r'^(C\d\d-[A-D]) violations=(\d+) undecided=(\d+) :: (.*)$', line.strip())
        if m:
            logs[m.group(1)] = (int(m.group(2)), int(m.group(3)), m.group(4))
conf = {}
for f in glob.glob('/tmp/confirm_C*.log') + glob.glob('/tmp/confirm3_*.log'):
    for line in open(f):
        m = re.match(r'^(C\d\d-[A-D]) clean_demo_rc=(\d+) mutated_demo_rc=(\d+) tests: (.*)$', line.strip())
        if m:
            conf[m.group(1)] = dict(clean_demo_rc=int(m.group(2)), mutated_demo_rc=int(m.group(3)), tests=m.group(4))
rows = []
for name in sorted(os.listdir(os.path.join(ROOT, 'seeded'))):
    d = os.path.join(ROOT, 'seeded', name)
    mp = os.path.join(d, 'meta.json')
    meta = {}
    if os.path.exists(mp):
        try:
            meta = json.load(open(mp))
        except Exception:
            meta = {'raw': open(mp).read()[:2000]}
    if name in conf:
        meta['confirmed_in_scratch_worktree'] = conf[name]
    if name in logs:
        v, u, first = logs[name]
        obs = [o.split('|')[0] for o in re.findall(r'obligation=(\S+)', first)]
        meta['detected_by_quick_check'] = {'property': name.split('-')[0], 'violation_lines': v, 'undecided_lines': u,
                                           'first_obligations': obs[:2],
                                           'failing_input_replayed': 'no-failing-input-found' not in first or 'rt.' in first}
    json.dump(meta, open(mp, 'w'), indent=1)
    files = meta.get('files') or []
    funcs = meta.get('functions') or []
    what = (meta.get('what_it_needs_to_manifest') or meta.get('change') or '')
    what = re.sub(r'\s+', ' ', str(what))[:150]
    det = meta.get('detected_by_quick_check', {})
    ob = ', '.join('`%s`' % o[:70] for o in det.get('first_obligations', [])[:1])
    rows.append('| %s | %s | %s | %s |' % (name, '; '.join(str(x) for x in funcs)[:70] or '; '.join(files), what,
                                          ('%s (%d lines)' % (ob, det.get('violation_lines', 0))) if det.get('violation_lines') else 'MISSED'))
print('| seed | function changed | needs | caught by (first obligation) |')
print('|---|---|---|---|')
print('\n'.join(rows))
