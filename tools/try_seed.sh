#!/bin/bash
# try_seed.sh <seed-dir-name> <pyvc.main args...>: run the checks against a scratch copy of /repo with a kept seeded
# change applied (the copy lives under /tmp and is removed afterwards; /repo itself is not touched)
S=$1; shift
D=$(mktemp -d /tmp/seedtry.XXXX)
cp -r /repo/mabwiser $D/ && (cd $D && patch -p1 -s < /verif/seeded/$S/patch.diff) || { echo "patch failed"; rm -rf $D; exit 9; }
cd /verif && PYVC_REPO=$D python3-vt -m pyvc.main "$@"; rc=$?
rm -rf $D
exit $rc
