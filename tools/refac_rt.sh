#!/bin/bash
# refac_rt.sh [budget]: run the bounded runtime leg (all 20 properties) on every behaviour-preserving refactoring of
# /verif/refactorings/*/patch.diff, each applied to a scratch copy of /repo/mabwiser under /tmp (removed afterwards).
# A failure that is not one of the listed known rt findings would be a false alarm of the runtime leg.
cd "$(dirname "$0")/.."
BUDGET=${1:-25}
for dir in refactorings/*/; do
  name=$(basename $dir)
  d=$(mktemp -d /tmp/refrt_XXXXXX)
  cp -r /repo/mabwiser $d/
  (cd $d && patch -p1 -s -i /verif/$dir/patch.diff) || { echo "$name PATCH-FAILED"; rm -rf $d; continue; }
  for p in C01 C02 C03 C04 C05 C06 C07 C08 C09 C10 C11 C12 C13 C14 C15 C16 C17 C18 C19 C20; do
    echo "$p"
  done | xargs -P 6 -I{} sh -c "PYTHONPATH=$d:/verif OMP_NUM_THREADS=1 OPENBLAS_NUM_THREADS=1 MKL_NUM_THREADS=1 /venv/bin/python -m rt.run --prop {} --budget $BUDGET --all --out $d/{}.json >/dev/null 2>$d/{}.err; echo \$? > $d/{}.rc"
  python3 - "$d" "$name" <<'E'
import json, sys, os
d, name = sys.argv[1:3]
sys.path.insert(0, '/verif')
from pyvc.runtime import known_rt
known = json.load(open('/verif/known_findings.json'))
out = []
for p in ['C%02d' % i for i in range(1, 21)]:
    rc = open(os.path.join(d, p + '.rc')).read().strip()
    try:
        r = json.load(open(os.path.join(d, p + '.json')))
    except Exception:
        out.append('%s:crash(rc=%s)' % (p, rc)); continue
    new = [f for f in r['failures'] if known_rt(known, p, f) is None]
    if new:
        out.append('%s:%d new failures: %s' % (p, len(new), str(new[0].get('what', new[0]))[:160]))
    elif rc not in ('0', '1'):
        out.append('%s:rc=%s %s' % (p, rc, open(os.path.join(d, p + '.err')).read()[-200:]))
print(name, 'rt:', 'no failing input beyond the known findings' if not out else '; '.join(out))
E
  rm -rf $d
done
