#!/usr/bin/env python3
"""Regenerates MANIFEST.json from the table below (claimed properties, level texts, not-applicable reasons)."""
import json
import os

ROOT = os.path.dirname(os.path.dirname(os.path.abspath(__file__)))
TRUST = ('Assumed, not proved: floats are mathematical reals and ints unbounded (A1, A2); NumPy / SciPy / scikit-learn / '
         'joblib / CPython behave as the contracts in pyvc/lib*.py say (A3-A7); arm lists are type-homogeneous (A8); '
         'termination (A10); the PyVC semantics of the Python subset, z3/cvc5, and the transcription of the property '
         'into the sidecar contracts. Each evidence file lists the axioms and library contracts its proofs used.')
TECH = ('contract-based deductive verification: sidecar contracts (requires/ensures/modifies/invariants) on the real '
        'functions of /repo/mabwiser, VCs generated from their AST on every run (PyVC) and discharged by z3')

CLAIMS = {
    'C01': ('Per-class representation invariant (sum, count, mean, UCB bonus with N, soft-max share, normalised share, '
            'Beta counters) proved preserved by __init__, fit, partial_fit, add_arm, remove_arm of all six context-free '
            'policies for symbolic arm lists, data and hyper-parameters; fit/partial_fit state the exact sums over the '
            'rows of each arm; predict_expectations is proved to return exactly the draws (Dirichlet / Beta / uniform) '
            'with those parameters from the stream position at entry. Unbounded in arms, rows, history (induction over '
            'calls is the invariant).', '7 C01'),
    'C02': ('Ridge model contracts: init, incremental normal equations A += X\'X, Xty += X\'y, beta = A^-1 Xty on the '
            'rows of each arm (with the per-arm scaler as an abstract function), LinUCB / LinTS / ridge predict row by '
            'row for every shape (d = 1, m = 1 forks of squeeze and broadcasting), the vectorised prediction glue. '
            'Known finding D2 (initial covariance lambda*I instead of I/lambda) is reported, its residual (lambda = 1) '
            'is proved.', '7 C02'),
    'C13': ('Contracts for cold_arms / trained_arms, pairwise distances, the quantile threshold, the cold-to-trained '
            'mapping (domain within the cold arms, image a trained arm at minimal distance within the threshold, first on '
            'ties, completeness), _copy_arms of every policy (exact copy, trained arms untouched) and _warm_start status '
            'bookkeeping, for symbolic arm sets, features and quantiles.', '7 C13'),
}

NOT_YET = 'check under construction in this session (contracts for the functions it depends on are not complete yet); not claimed'


def main():
    props = [json.loads(l) for l in open(os.path.join(ROOT, 'properties.jsonl'))]
    checks = []
    for pid, (text, ref) in sorted(CLAIMS.items()):
        checks.append({
            'property_id': pid,
            'quick_cmd': './check %s --tier quick' % pid,
            'thorough_cmd': './check %s --tier thorough' % pid,
            'evidence_file': 'evidence/%s.json' % pid,
            'replay_cmd_template': './check --replay {path}',
            'engine': 'pyvc',
            'level_claimed': {'category': 'proof', 'text': text, 'design_ref': 'DESIGN.md section ' + ref},
            'level_note': TRUST,
            'technique': TECH,
        })
    m = {
        'version': 1,
        'setup_cmd': 'python3-vt -c "import z3, sys; sys.path.insert(0, \'.\'); import pyvc.verify"',
        'hooks': {'guard': 'MABWISER_VERIF',
                  'enable': 'no hooks: contracts are sidecar files under /verif/specs; /repo/mabwiser is read with ast on every run',
                  'baseline_off_cmd': 'cd /repo && /venv/bin/python -m pytest -q -p no:cacheprovider --timeout=900',
                  'source_commits': [], 'add_only': True},
        'engines': [{'name': 'pyvc', 'path': 'pyvc/', 'serves_properties': sorted(CLAIMS),
                     'kind_free_text': 'verification-condition generator over the real AST of /repo/mabwiser with sidecar '
                                       'contracts (specs/), z3 5.1 back end, cvc5 for lambda-free queries z3 leaves open'}],
        'checks': checks,
        'not_applicable': [{'property_id': p['id'], 'reason': NOT_YET} for p in props if p['id'] not in CLAIMS],
        'notes': 'Repairs of genuine defects in /repo are separate "fix:" commits, listed in known_findings.json.',
    }
    json.dump(m, open(os.path.join(ROOT, 'MANIFEST.json'), 'w'), indent=1)


if __name__ == '__main__':
    main()
