#!/usr/bin/env python3
"""Regenerates MANIFEST.json from the table below (claimed properties, level texts, not-applicable reasons)."""
import json
import os

ROOT = os.path.dirname(os.path.dirname(os.path.abspath(__file__)))
TRUST = ('Assumed, not proved: floats are mathematical reals and ints unbounded (A1, A2); NumPy / SciPy / scikit-learn / '
         'joblib / CPython behave as the contracts in pyvc/lib*.py say (A3-A7); arm lists are type-homogeneous (A8); '
         'termination (A10); the PyVC semantics of the Python subset, z3/cvc5, and the transcription of the property '
         'into the sidecar contracts. Each evidence file lists the axioms and library contracts its proofs used.')
TECH = ('contract-based deductive verification: sidecar contracts (requires/ensures/modifies/invariants) on the real '
        'functions of /repo/mabwiser, VCs generated from their AST on every run (PyVC) and discharged by z3')

SCOPE = (' Scope of the proof: the context-free policies, the linear policies, Radius, KNearest and LSHNearest over every one '
         'of them, and the MAB facade constructed over those (for LSHNearest two contracts are assumed, not proved: '
         '_fit_operation and _parallel_predict with an LSH receiver; they are listed in the evidence). clusters.py and '
         'treebandit.py are not under contract (DESIGN.md 12.6): for them, and for NumPy dtype / memory-layout effects everywhere, the check '
         'runs the bounded runtime leg (rt/: the property\'s executable form on the real API over enumerated small scopes and seeded random call plans, '
         'reported under "bounded" in the evidence and never counted as proved; a failing input found there is reported '
         'as a violation with the input).')
BOUNDED_TECH = ('bounded stand-in (no contract within reach of the prover): executable form of the property - independent '
                'reference semantics and differential checks - run against the real public API over enumerated small scopes and seeded random call plans; '
                'labelled bounded, not a proof')

CLAIMS = {
    'C01': ('Per-class representation invariant (sum, count, mean, UCB bonus with N, soft-max share, normalised share, '
            'Beta counters) proved preserved by __init__, fit, partial_fit, add_arm, remove_arm of all six context-free '
            'policies for symbolic arm lists, data and hyper-parameters; fit/partial_fit state the exact sums over the '
            'rows of each arm; predict_expectations is proved to return exactly the draws (Dirichlet / Beta / uniform) '
            'with those parameters from the stream position at entry. Unbounded in arms, rows, history (induction over '
            'calls is the invariant).', '7 C01'),
    'C02': ('Ridge model contracts: init, incremental normal equations A += X\'X, Xty += X\'y, beta = A^-1 Xty on the '
            'rows of each arm (with the per-arm scaler as an abstract function), LinUCB / LinTS / ridge predict row by '
            'row for every shape (d = 1, m = 1 forks of squeeze and broadcasting), the vectorised prediction glue '
            '(exploring rows, first-maximum arm). Known finding D2 (initial covariance lambda*I instead of I/lambda) is '
            'reported, its residual (lambda = 1) is proved.', '7 C02'),
    'C03': ('History invariant of _Neighbors (three row-aligned columns, replaced by fit, appended by partial_fit), '
            'row-level postcondition of _Radius / _KNearest._predict_contexts: row j is answered by a fresh copy of the '
            'learning policy seeded with seed j and trained on exactly the stored rows with distance <= radius (k smallest '
            'by the argpartition contract); the value is proved to be a function of the policy configuration, the seed, the '
            'selected rows and the query only (self-composition), for every learning policy; NaN / configured distribution '
            'for an empty neighbourhood. Known finding D13 (stale no_nhood_prob_of_arm after arm changes).', '7 C03'),
    'C04': ('MAB.__init__ is proved to create the bandit\'s only generator from the seed and a private arm list; the '
            'engine refuses (UNDECIDED, never passed) any function that reads a module-level name that is not an immutable '
            'constant, so every function under contract is a function of its arguments and receiver (no ambient state); '
            'every generator reaching a draw is the bandit\'s generator or one created from a seed drawn from it.'
            + SCOPE, '7 C04'),
    'C05': ('_partition_contexts is proved to return an ordered exact cover; _parallel_predict is proved, from that '
            'contract only (hence for every contiguous partition), to return for row j the row-local value of '
            '(model, row j, seed j) with the seeds drawn once before partitioning (flattening by the telescoping-sum rule); '
            'every _predict_contexts has an empty frame on self; every _fit_arm writes only its own arm\'s entries '
            '(parallel-map rule); _effective_jobs bounds. Known finding D6b: LinTS under a neighbourhood policy is not '
            'row-local.' + SCOPE, '7 C05'),
    'C07': ('fit postconditions of every implementor define each learned quantity as a function of the new data, the '
            'configuration and the arms only (no old(...) on the right-hand side), verified from an arbitrary pre-state '
            'that satisfies only the key-structure part of the invariant. Known finding D6a (LinTS model generators '
            'survive fit).' + SCOPE, '7 C07'),
    'C08': ('Key-sequence invariants (every per-arm dictionary has exactly the arm list as keys, in order) proved across '
            'add_arm / remove_arm / fit / partial_fit / warm_start of every class and the facade; result-shape '
            'postconditions (member of the arm list, keys equal to the arm list, list of m results iff m > 1, row '
            'order).' + SCOPE, '7 C08'),
    'C09': ('predict of every context-free policy and of the linear policies is proved to return the first arm (arm-list '
            'order) attaining the maximum of exactly the expectations predict_expectations returns from the same state and '
            'stream position; under Radius / KNearest both modes are the same functional row value with the learning '
            'policy\'s own predict.' + SCOPE, '7 C09'),
    'C10': ('Frame conditions: predict / predict_expectations / _predict_contexts / _vectorized_predict_context modify '
            'nothing but generator stream states (plus the Thompson cache, outside the learned state); frame obligations '
            'are generated for every heap write of these functions.' + SCOPE, '7 C10'),
    'C13': ('Contracts for cold_arms / trained_arms, pairwise distances, the quantile threshold, the cold-to-trained '
            'mapping (domain within the cold arms, image a trained arm at minimal distance within the threshold, first on '
            'ties, completeness), _copy_arms of every policy (exact copy, trained arms untouched) and _warm_start status '
            'bookkeeping, MAB.warm_start / cold_arms, for symbolic arm sets, features and quantiles.', '7 C13'),
    'C14': ('The binarizer is an uninterpreted function of (decision, reward); _get_binary_rewards converts iff a '
            'binarizer is set and the neighbourhood policy has not converted already; fit / partial_fit counters are '
            'stated over the once-converted rewards; _Neighbors.fit / partial_fit store the converted rewards and raise '
            'the flag; add_arm installs a binarizer for later observations only (defect D17 repaired).' + SCOPE, '7 C14'),
    'C17': ('On every exceptional exit of every public method and every implementor entry under contract an obligation '
            'per written location shows the pre-call value is restored or never changed (raises.unchanged); raises_iff '
            'contracts state exactly which calls are rejected (validation, feature-count mismatch), including exits from '
            'inside summarised loops (state after k complete iterations plus the partial one).' + SCOPE, '7 C17'),
    'C18': ('Containers are abstract values with a kind and a content; _convert_array / __convert_context are proved to '
            'return the content unchanged for every accepted kind (Series row/column rule included) and to reject the '
            'rest; implementors only ever receive the converted arrays; frame obligations show no caller object is '
            'written; MAB.__init__ copies the arm list. dtype and memory layout are below the abstraction (A1, A4).'
            + SCOPE, '7 C18'),
}

CLAIMS.update({
    'C06': ('Lemma programs over the contracts (lemmas/py/incremental.py, contracts in specs/lemmas.py): for every '
            'context-free policy, for _Linear (ridge / ucb / ts, scale=False) and for the stored history of Radius / '
            'KNearest, a bandit trained by one fit on d1++d2 and a bandit trained by fit(d1); partial_fit(d2) are proved to '
            'end in the same view, for symbolic batches (hence every split, chunks missing arms and one-row chunks '
            'included); every call in the lemma is resolved against the callee\'s contract, and the callees\' own '
            'obligations (tagged C06) tie it to the real bodies. The concatenation laws used as SMT axioms are theorems of '
            'lemmas/lean/SeqLaws.lean (Lean 4 / Mathlib, re-checked by the thorough tier).' + SCOPE, '12.1, 7 C06'),
    'C11': ('Contracts on approximate.py: get_context_hash is proved (loop invariant) to return for every row the binary '
            'code sum_t 2^t [x . plane_t > 0] of its sign pattern (strict test, right power); _add_neighbors appends to bucket '
            '(k, h) exactly the positions of the value h in the batch\'s hashes, offset by the number of rows stored before, '
            'and leaves every other bucket alone; _get_neighbors returns exactly the union over the tables of the buckets of '
            'the query\'s codes (loop invariant over a recursive collision predicate) with all indices in range; fit / '
            'partial_fit keep the table invariant "bucket (k, h) lists the stored rows whose hash under plane k is h" '
            '(partial_fit: same planes, offset = rows stored before the call; law where.hashes.vstack proved in Lean); '
            '_predict_contexts answers row j from exactly the de-duplicated collision set with a private, freshly seeded '
            'policy copy, NaN / the configured distribution when it is empty. _initialize draws planes of the right shape and empties the tables. NOT proved: the contract of '
            '_fit_operation (joblib maps over chunks and over np.unique(hashes) into nested dictionaries) is ASSUMED - its '
            'loops are outside PyVC\'s reach - and exercised only by the bounded leg, which recomputes the collision sets from the bandit\'s own planes for '
            'stored rows, positive multiples and fresh queries (n_jobs 1 and 2, fit + partial_fit). Consequences in the '
            'statement (a positive multiple of a stored row collides with it) are checked by the bounded leg only.',
            '12.2, 12.6, 7 C11'),
    'C16': ('Proved: Simulator._run_train_test_split for an ordered simulation cuts the three columns at train_size = '
            'int(n * (1 - test_size)), 0 <= train_size <= n, the test rows are the last rows and test_indices lists exactly '
            'their positions in order; get_stats / get_arm_stats return, per arm, count and sum (min, max) of exactly the '
            'rewards of the rows whose decision is that arm, zeros when there are none; lemma program c16_totals: train + test '
            'counts and sums equal the totals (slice-split law proved in Lean). NOT proved (bounded leg only): the random split '
            '(scikit-learn, A5), one prediction per test row and bandit in test order, the evaluator (observed reward on a match, '
            'otherwise the training / neighbourhood statistic), evaluated counts summing to the number of test rows and the '
            'ordering of the min / mean / max analyses - the drivers and the evaluator keep dictionaries of lists keyed by '
            'data-dependent arms and are outside PyVC\'s reach; the bounded leg recomputes all of it on simulated runs '
            '(ordered and random split, batch sizes that do and do not divide the test size, arms absent from the training rows).',
            '12.2, 12.6, 7 C16'),
    'C19': ('Repository side only, as DESIGN 7 C19 says: obligations copy.hooks and attr.universe.static on the AST of '
            'every class of the package (no __getstate__/__reduce__/__deepcopy__/__slots__; no store through self of a '
            'lambda, generator expression, local function, open(), iter(), id()), attr.universe on every explored path of '
            'every function under contract. That copy.deepcopy and pickle reproduce an object graph made of the remaining '
            'types is assumed (A6); the bounded leg exercises it (deepcopy, pickle protocols 2 and 5, before and after '
            'training, same continuation, all policy combinations).' + SCOPE, '12.1, 7 C19'),
    'C20': ('Renaming: obligation arm.parametric on every function under contract - the translation refuses any flow of '
            'an arm label into an order comparison, arithmetic, a comparison with a constant, sorted / hash / int / float / '
            'astype / np.sort (MT3: Arm is an uninterpreted sort). Row order, reward shift and reward scale: lemma programs '
            '(lemmas/py/invariance.py) over the contracts of fit for the context-free policies and _Linear, with the '
            'permutation / shift / scale laws proved in Lean. Radius row order follows from the row clause (a within-'
            'radius *set*); KNearest and Clusters are excluded by the statement.' + SCOPE, '12.1, 7 C20'),
})
BOUNDED = {
    'C12': ('No contract on clusters.py / treebandit.py is within reach (symbolic number of policy objects, estimators as '
            'state). Bounded stand-in: the expectations of Clusters (KMeans and MiniBatchKMeans) are compared with the '
            'learning policy trained on exactly the stored rows in the query\'s cell as computed by the fitted estimator; '
            'TreeBandit with the policy statistic over exactly the arm\'s rewards in the query\'s leaf, 0 for an arm '
            'without observations; after fit, partial_fit and add_arm.', '12.2, 12.6'),
    'C15': ('simulator.py is not under contract. Bounded stand-in: for offline and online runs (is_ordered, batch_size in '
            '{0,1,3,4,10}, is_quick), with several bandits per simulation including neighbourhood bandits with different '
            'metrics, the reported predictions are compared with an identically configured bandit driven through the public '
            'API with the same split and protocol (online protocol for deterministic policies).', '12.2, 12.6'),
}

NOT_YET = 'check under construction in this session (contracts for the functions it depends on are not complete yet); not claimed'


def main():
    props = [json.loads(l) for l in open(os.path.join(ROOT, 'properties.jsonl'))]
    checks = []
    for pid, (text, ref) in sorted(CLAIMS.items()):
        checks.append({
            'property_id': pid,
            'quick_cmd': './check %s --tier quick' % pid,
            'thorough_cmd': './check %s --tier thorough' % pid,
            'evidence_file': 'evidence/%s.json' % pid,
            'replay_cmd_template': './check --replay {path}',
            'engine': 'pyvc',
            'level_claimed': {'category': 'proof', 'text': text, 'design_ref': 'DESIGN.md section ' + ref},
            'level_note': TRUST,
            'technique': TECH,
        })
    for pid, (text, ref) in sorted(BOUNDED.items()):
        checks.append({
            'property_id': pid,
            'quick_cmd': './check %s --tier quick' % pid,
            'thorough_cmd': './check %s --tier thorough' % pid,
            'evidence_file': 'evidence/%s.json' % pid,
            'replay_cmd_template': './check --replay {path}',
            'engine': 'rt',
            'level_claimed': {'category': 'exploration', 'text': 'BOUNDED, not a proof. ' + text,
                              'design_ref': 'DESIGN.md section ' + ref},
            'level_note': 'Nothing is proved for this property. The oracle (rt/oracle.py) is an independent reading of the '
                          'statement; cell / leaf membership and hyperplanes are read from the fitted objects; bounds: 3-5 '
                          'arms, <= 12 rows per batch, <= 3 batches, integer-grid contexts in [-3,3]^2, the listed policy '
                          'combinations, one seed per run (VERIF_SEED).',
            'technique': BOUNDED_TECH,
        })
    checks.sort(key=lambda c: c['property_id'])
    m = {
        'version': 1,
        'setup_cmd': 'python3-vt -c "import z3, sys; sys.path.insert(0, \'.\'); import pyvc.verify"',
        'hooks': {'guard': 'MABWISER_VERIF',
                  'enable': 'no hooks: contracts are sidecar files under /verif/specs; /repo/mabwiser is read with ast on every run',
                  'baseline_off_cmd': 'cd /repo && /venv/bin/python -m pytest -q -p no:cacheprovider --timeout=900',
                  'source_commits': [], 'add_only': True},
        'engines': [{'name': 'pyvc', 'path': 'pyvc/', 'serves_properties': sorted(CLAIMS),
                     'kind_free_text': 'verification-condition generator over the real AST of /repo/mabwiser with sidecar '
                                       'contracts (specs/), z3 5.1 back end, cvc5 for lambda-free queries z3 leaves open; '
                                       'lemma programs (lemmas/py) with Lean-proved laws (lemmas/lean)'},
                    {'name': 'rt', 'path': 'rt/', 'serves_properties': sorted(set(CLAIMS) | set(BOUNDED)),
                     'kind_free_text': 'bounded runtime leg: executable forms of the properties run on the real API under '
                                       '/venv/bin/python (replay of failed obligations; stand-in for the modules out of the '
                                       'prover\'s reach); never counted as proved'}],
        'checks': checks,
        'not_applicable': [{'property_id': p['id'], 'reason': NOT_YET} for p in props
                           if p['id'] not in CLAIMS and p['id'] not in BOUNDED],
        'notes': 'Repairs of genuine defects in /repo are separate "fix:" commits, listed in known_findings.json.',
    }
    json.dump(m, open(os.path.join(ROOT, 'MANIFEST.json'), 'w'), indent=1)


if __name__ == '__main__':
    main()
