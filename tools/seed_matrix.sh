#!/bin/bash
# seed_matrix.sh [names...]: for each kept seeded change, apply it to a scratch copy of /repo (outside /repo and /verif),
# run the quick check of its property against the copy and report what was caught.  Output: one line per seed.
cd /verif
NAMES=${@:-$(ls seeded)}
for S in $NAMES; do
  P=${S%%-*}
  D=$(mktemp -d /tmp/seedmx.XXXX)
  cp -r /repo/mabwiser $D/ && (cd $D && patch -p1 -s < /verif/seeded/$S/patch.diff) || { echo "$S patch-failed"; rm -rf $D; continue; }
  OUT=$(PYVC_REPO=$D timeout 3000 python3-vt -m pyvc.main $P --tier quick 2>&1 | grep -v WARNING)
  RC=$?
  V=$(echo "$OUT" | grep -c "^VIOLATION")
  U=$(echo "$OUT" | grep -c "^UNDECIDED")
  FIRST=$(echo "$OUT" | grep "^VIOLATION" | head -2 | sed 's/replay=[^ ]* //' | cut -c1-230 | tr '\n' '|')
  echo "$S violations=$V undecided=$U :: $FIRST"
  rm -rf $D
done
git -C /verif checkout -- evidence 2>/dev/null
