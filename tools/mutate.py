#!/usr/bin/env python3
"""Operator-level mutation run over the functions under contract (self-validation of the contracts, DESIGN 8).

For every function of /repo/mabwiser that has a contract, single-point mutants are generated on the AST (comparison and
arithmetic operator swaps, small constant changes, `+=` to `=`, negated `if` tests, deleted assignment / expression
statements).  Each mutant is written to a scratch copy of the package under /tmp (removed afterwards), the test files of
that module are run first (a mutant the repository's tests already kill is of no interest), and the survivors are given
to PyVC (`--fn` for every contract of the mutated function).  Output: one JSON line per surviving mutant with the
verdict (caught: some obligation not discharged / out of reach; survived: every obligation discharged).

    python3 tools/mutate.py --module ucb [--max 40] [--seed 0] > out.jsonl
"""
import argparse
import ast
import copy
import json
import os
import random
import shutil
import subprocess
import sys
import tempfile

ROOT = os.path.dirname(os.path.dirname(os.path.abspath(__file__)))
sys.path.insert(0, ROOT)
TESTS = {'greedy': ['test_greedy.py'], 'ucb': ['test_ucb.py'], 'softmax': ['test_softmax.py'], 'thompson': ['test_thompson.py'],
         'popularity': ['test_popularity.py'], 'rand': ['test_random.py'],
         'linear': ['test_lingreedy.py', 'test_linucb.py', 'test_lints.py', 'test_ridge.py'],
         'neighbors': ['test_radius.py', 'test_nearest.py'], 'approximate': ['test_lshnearest.py'],
         'base_mab': ['test_base.py', 'test_parallel.py', 'test_greedy.py', 'test_radius.py'], 'utils': ['test_base.py', 'test_greedy.py'],
         'mab': ['test_mab.py', 'test_invalid.py', 'test_base.py'], 'simulator': ['test_simulator.py']}
CMP = {ast.Lt: ast.LtE, ast.LtE: ast.Lt, ast.Gt: ast.GtE, ast.GtE: ast.Gt, ast.Eq: ast.NotEq, ast.NotEq: ast.Eq}
BIN = {ast.Add: ast.Sub, ast.Sub: ast.Add, ast.Mult: ast.Div, ast.Div: ast.Mult}


def mutants_of(fn_node):
    """yield (description, mutated copy of the function node)"""
    nodes = list(ast.walk(fn_node))
    for k, n in enumerate(nodes):
        def clone():
            c = copy.deepcopy(fn_node)
            return c, list(ast.walk(c))[k]
        if isinstance(n, ast.Compare) and len(n.ops) == 1 and type(n.ops[0]) in CMP:
            c, m = clone()
            m.ops = [CMP[type(n.ops[0])]()]
            yield 'line %d: %s -> %s' % (n.lineno, type(n.ops[0]).__name__, type(m.ops[0]).__name__), c
        if isinstance(n, ast.BinOp) and type(n.op) in BIN:
            c, m = clone()
            m.op = BIN[type(n.op)]()
            yield 'line %d: %s -> %s' % (n.lineno, type(n.op).__name__, type(m.op).__name__), c
        if isinstance(n, ast.Constant) and isinstance(n.value, (int, float)) and not isinstance(n.value, bool) and n.value in (0, 1, 2):
            c, m = clone()
            m.value = {0: 1, 1: 0, 2: 1}[n.value]
            yield 'line %d: constant %r -> %r' % (n.lineno, n.value, m.value), c
        if isinstance(n, ast.AugAssign):
            c, m = clone()
            parent = None
            for p in ast.walk(c):
                for fld, val in ast.iter_fields(p):
                    if isinstance(val, list) and m in val:
                        val[val.index(m)] = ast.copy_location(ast.Assign(targets=[m.target], value=m.value), m)
                        parent = p
            if parent is not None:
                yield 'line %d: augmented assignment -> plain assignment' % n.lineno, c
        if isinstance(n, ast.If):
            c, m = clone()
            m.test = ast.UnaryOp(op=ast.Not(), operand=m.test)
            yield 'line %d: if-test negated' % n.lineno, c
        if isinstance(n, (ast.Assign, ast.Expr, ast.AugAssign)) and not (
                isinstance(n, ast.Expr) and isinstance(n.value, ast.Constant)):
            c, m = clone()
            done = False
            for p in ast.walk(c):
                for fld, val in ast.iter_fields(p):
                    if isinstance(val, list) and m in val and len(val) > 1:
                        val.remove(m)
                        done = True
            if done:
                yield 'line %d: statement deleted (%s)' % (n.lineno, ast.unparse(n)[:60]), c


def main():
    ap = argparse.ArgumentParser()
    ap.add_argument('--module', required=True)
    ap.add_argument('--max', type=int, default=40)
    ap.add_argument('--seed', type=int, default=0)
    ap.add_argument('--skip-tests', action='store_true')
    args = ap.parse_args()
    from pyvc import verify, spec as specmod
    verify.load_specs()
    src_path = '/repo/mabwiser/%s.py' % args.module
    src = open(src_path).read()
    tree = ast.parse(src)
    quals = {}
    for (q, cls), sp in specmod.FUNCS.items():
        if q.startswith(args.module + '.') and not sp.trusted:
            quals.setdefault(q, []).append(cls)
    cands = []
    for node in tree.body:
        items = [(None, node)] if isinstance(node, ast.FunctionDef) else \
            [(node.name, f) for f in node.body if isinstance(f, ast.FunctionDef)] if isinstance(node, ast.ClassDef) else []
        for cname, f in items:
            q = '%s.%s.%s' % (args.module, cname, f.name) if cname else '%s.%s' % (args.module, f.name)
            if q not in quals:
                continue
            for desc, mf in mutants_of(f):
                cands.append((q, cname, f.name, desc, mf))
    random.Random(args.seed).shuffle(cands)
    done = 0
    for q, cname, fname, desc, mf in cands:
        if done >= args.max:
            break
        t2 = copy.deepcopy(tree)
        for node in t2.body:
            if cname is None and isinstance(node, ast.FunctionDef) and node.name == fname:
                t2.body[t2.body.index(node)] = mf
            elif isinstance(node, ast.ClassDef) and node.name == cname:
                for f in node.body:
                    if isinstance(f, ast.FunctionDef) and f.name == fname:
                        node.body[node.body.index(f)] = mf
        try:
            new_src = ast.unparse(ast.fix_missing_locations(t2))
            compile(new_src, 'mutant', 'exec')
        except Exception:      # noqa
            continue
        d = tempfile.mkdtemp(prefix='mutrun_')
        try:
            shutil.copytree('/repo/mabwiser', os.path.join(d, 'mabwiser'))
            open(os.path.join(d, 'mabwiser', args.module + '.py'), 'w').write(new_src)
            rec = {'function': q, 'mutation': desc}
            if not args.skip_tests:
                env = dict(os.environ, PYTHONPATH=d, OMP_NUM_THREADS='1', OPENBLAS_NUM_THREADS='1', MKL_NUM_THREADS='1')
                if not os.path.isdir(os.path.join(d, 'tests')):
                    shutil.copytree('/repo/tests', os.path.join(d, 'tests'))
                tfiles = [os.path.join('tests', t) for t in TESTS.get(args.module, [])]
                try:
                    p = subprocess.run(['/venv/bin/python', '-m', 'pytest', '-q', '-x', '-p', 'no:cacheprovider', '--timeout=300',
                                        '--deselect', 'tests/test_ridge.py::RidgeRegressionTest::test_predict_ridge_scaler'] + tfiles,
                                       cwd=d, env=env, capture_output=True, text=True, timeout=900)
                except subprocess.TimeoutExpired:
                    continue        # the mutant hangs the repository's tests: killed by them
                if p.returncode != 0:
                    continue        # killed by the repository's own tests
            done += 1
            bad, total, probs = 0, 0, 0
            for cls in quals[q]:
                cmd = ['python3-vt', '-m', 'pyvc.main', '--fn', q] + (['--cls', cls] if cls else [])
                p = subprocess.run(cmd, cwd=ROOT, env=dict(os.environ, PYVC_REPO=d), capture_output=True, text=True, timeout=3000)
                last = [ln for ln in p.stdout.splitlines() if 'obligations,' in ln]
                if last:
                    parts = last[-1].split()
                    total += int(parts[0])
                    bad += int(parts[0]) - int(parts[2])
                    probs += int(parts[4])
                rec.setdefault('not_discharged', [])
                rec['not_discharged'] += [ln.split(None, 2)[-1][:140] for ln in p.stdout.splitlines()
                                          if ln.split(' ', 1)[0] in ('unproved', 'refuted', 'undecided')][:3]
            rec.update(obligations=total, failed=bad, out_of_reach=probs,
                       verdict='caught' if bad else ('out-of-reach' if probs else 'SURVIVED'))
            print(json.dumps(rec), flush=True)
        finally:
            shutil.rmtree(d, ignore_errors=True)


if __name__ == '__main__':
    main()
