#!/bin/bash
# runs the quick command of every property in MANIFEST.json on /repo, prints exit code and time per property
cd /verif
for P in $(python3 -c "import json; print(' '.join(c['property_id'] for c in json.load(open('MANIFEST.json'))['checks']))"); do
  S=$(date +%s)
  ./check $P --tier ${1:-quick} > /tmp/quick_$P.log 2>&1; RC=$?
  E=$(date +%s)
  echo "$P rc=$RC $((E-S))s $(grep -v WARNING /tmp/quick_$P.log | tail -1 | cut -c1-150)"
done
