#!/usr/bin/env python3
"""Re-check lemmas/lean/SeqLaws.lean with Lean 4 + Mathlib and confirm that every SMT law mapped in pyvc/laws.py LEAN
is a theorem of that file that depends on no axiom beyond Lean's standard three.  Prints one JSON object.
Exit 0: all laws proved; 3: Lean missing / proof broken / a mapped theorem is absent or uses sorry."""
import json
import os
import re
import shutil
import subprocess
import sys
import tempfile
import time

ROOT = os.path.dirname(os.path.dirname(os.path.abspath(__file__)))
sys.path.insert(0, ROOT)


def main():
    from pyvc import verify      # noqa: F401  (registers the laws)
    from pyvc.laws import LEAN
    src = os.path.join(ROOT, 'lemmas', 'lean', 'SeqLaws.lean')
    text = open(src).read()
    out = {'file': 'lemmas/lean/SeqLaws.lean', 'laws': dict(sorted(LEAN.items())), 'ok': False}
    if re.search(r'\bsorry\b|\badmit\b', re.sub(r'/-.*?-/', '', text, flags=re.S)):
        out['error'] = 'sorry/admit in the Lean source'
        print(json.dumps(out))
        return 3
    declared = set(re.findall(r'^theorem\s+([A-Za-z_0-9]+)', text, re.M))
    missing = sorted(set(LEAN.values()) - declared)
    if missing:
        out['error'] = 'mapped theorems not declared: ' + ', '.join(missing)
        print(json.dumps(out))
        return 3
    lean = shutil.which('lean')
    if not lean:
        out['error'] = 'lean not on PATH'
        print(json.dumps(out))
        return 3
    d = tempfile.mkdtemp(prefix='pyvc_lean_')
    try:
        f = os.path.join(d, 'SeqLawsCheck.lean')
        with open(f, 'w') as g:
            g.write(text)
            g.write('\n')
            for th in sorted(set(LEAN.values())):
                g.write('#print axioms SeqLaws.%s\n' % th)
        t0 = time.time()
        p = subprocess.run([lean, f], capture_output=True, text=True, timeout=3600)
        out['seconds'] = round(time.time() - t0, 1)
        log = (p.stdout or '') + (p.stderr or '')
        out['lean_exit'] = p.returncode
        bad = [ln for ln in log.splitlines() if 'error' in ln.lower() or 'sorryAx' in ln]
        axioms = set(re.findall(r"\b(propext|Classical\.choice|Quot\.sound|sorryAx|[A-Za-z_.]+Ax)\b", log))
        out['axioms_used'] = sorted(axioms)
        checked = re.findall(r"'SeqLaws\.([A-Za-z_0-9]+)' (?:depends on axioms|does not depend on any axioms)", log)
        out['theorems_checked'] = len(set(checked))
        if p.returncode != 0 or bad or set(checked) != set(LEAN.values()) or \
                not axioms <= {'propext', 'Classical.choice', 'Quot.sound'}:
            out['error'] = 'lean reported: ' + ' | '.join(bad[:5]) if bad else 'unexpected Lean output'
            out['log_tail'] = log[-1500:]
            print(json.dumps(out))
            return 3
        out['ok'] = True
        print(json.dumps(out))
        return 0
    finally:
        shutil.rmtree(d, ignore_errors=True)


if __name__ == '__main__':
    sys.exit(main())
