#!/usr/bin/env python3
"""check_patch.py <patch.diff> [--rt]: apply a patch to a scratch copy of /repo/mabwiser (under /tmp, removed afterwards),
find the functions whose AST changed, and run PyVC for every contract of those functions (and of the functions that
inline them).  Prints one line per target and a summary: which obligations are no longer discharged.  Used to try
behaviour-preserving refactorings (no VIOLATION may result) and seeded changes (some obligation must fail)."""
import ast
import json
import os
import shutil
import subprocess
import sys
import tempfile

ROOT = os.path.dirname(os.path.dirname(os.path.abspath(__file__)))
sys.path.insert(0, ROOT)


def functions(path):
    out = {}
    tree = ast.parse(open(path).read())
    mod = os.path.basename(path)[:-3]
    for node in tree.body:
        if isinstance(node, ast.FunctionDef):
            out['%s.%s' % (mod, node.name)] = ast.dump(node)
        elif isinstance(node, ast.ClassDef):
            for f in node.body:
                if isinstance(f, ast.FunctionDef):
                    out['%s.%s.%s' % (mod, node.name, f.name)] = ast.dump(f)
    return out


def main():
    patch = sys.argv[1]
    from pyvc import verify, spec as specmod
    verify.load_specs()
    d = tempfile.mkdtemp(prefix='chkpatch_')
    try:
        shutil.copytree('/repo/mabwiser', os.path.join(d, 'mabwiser'))
        p = subprocess.run(['patch', '-p1', '-s', '-i', os.path.abspath(patch)], cwd=d, capture_output=True, text=True)
        if p.returncode != 0:
            print('PATCH-FAILED', p.stdout[-300:], p.stderr[-300:])
            return 9
        changed = []
        for fn in sorted(os.listdir('/repo/mabwiser')):
            if not fn.endswith('.py'):
                continue
            a, b = functions(os.path.join('/repo/mabwiser', fn)), functions(os.path.join(d, 'mabwiser', fn))
            for q in sorted(set(a) | set(b)):
                if a.get(q) != b.get(q):
                    changed.append(q)
        print('changed functions:', changed)
        targets = []
        for (q, cls), sp in specmod.FUNCS.items():
            if sp.trusted or q.startswith('lemma_'):
                continue
            if q in changed:
                targets.append((q, cls))
        # functions without a contract of their own are executed inside their callers: check every contract of the class
        uncovered = [q for q in changed if not any(q == t[0] for t in targets)]
        for q in uncovered:
            parts = q.split('.')
            if len(parts) == 3:
                eng_repo = verify.Engine().repo if not hasattr(main, '_repo') else main._repo
                main._repo = eng_repo
                family = set([parts[1]] + eng_repo.subclasses(parts[1]))
                for (q2, cls), sp in specmod.FUNCS.items():
                    owner = q2.split('.')[1] if q2.count('.') == 2 else None
                    if not sp.trusted and not q2.startswith('lemma_') and (q2, cls) not in targets and \
                            (owner in family or cls in family or (cls is None and owner and parts[1] in eng_repo.mro(owner))):
                        targets.append((q2, cls))
            else:
                for (q2, cls), sp in specmod.FUNCS.items():         # a module-level helper (utils): everything that may call it
                    if not sp.trusted and not q2.startswith('lemma_') and not q2.startswith('mab.') and (q2, cls) not in targets:
                        targets.append((q2, cls))
        import re
        known = json.load(open(os.path.join(ROOT, 'known_findings.json')))
        kn_names = {o for f in known['findings'] for o in f.get('obligations', [])}
        kn_rx = [rx for f in known['findings'] for rx in f.get('obligation_regex', [])]

        def is_known(line):
            name = line.split(None, 2)[-1].split('@')[0].strip()
            return name in kn_names or any(re.search(rx, name) for rx in kn_rx)
        bad_total = 0
        for q, cls in targets:
            cmd = ['python3-vt', '-m', 'pyvc.main', '--fn', q] + (['--cls', cls] if cls else [])
            r = subprocess.run(cmd, cwd=ROOT, env=dict(os.environ, PYVC_REPO=d), capture_output=True, text=True, timeout=3000)
            last = [ln for ln in r.stdout.splitlines() if 'obligations,' in ln]
            fails = [ln for ln in r.stdout.splitlines() if ln.split(' ', 1)[0] in ('unproved', 'refuted', 'undecided')
                     and not is_known(ln)]
            probs = [ln for ln in r.stdout.splitlines() if ln.startswith('PROBLEM')]
            bad_total += len(fails) + len(probs)
            print('%-60s %s' % ('%s[%s]' % (q, cls) if cls else q, last[-1] if last else r.stdout[-200:] + r.stderr[-300:]))
            for ln in (fails + probs)[:4]:
                print('      ', ln[:200])
        print('SUMMARY targets=%d not-discharged-or-out-of-reach=%d' % (len(targets), bad_total))
        return 1 if bad_total else 0
    finally:
        shutil.rmtree(d, ignore_errors=True)


if __name__ == '__main__':
    sys.exit(main())
