#!/usr/bin/env python3
"""DESIGN.md = sections 1-11 (as written before the code) + docs/section12.md + the seeded-change table (tools/seed_table.py)."""
import os, sys
ROOT = os.path.dirname(os.path.dirname(os.path.abspath(__file__)))
d = open(os.path.join(ROOT, 'DESIGN.md')).read()
if '## 12. As built' in d:
    d = d[:d.index('## 12. As built')].rstrip()
    while d.endswith('-'):
        d = d[:-1]
    d = d.rstrip()
sec = open(os.path.join(ROOT, 'docs', 'section12.md')).read()
tail = open(os.path.join(ROOT, 'docs', 'section12_7.md')).read()
open(os.path.join(ROOT, 'DESIGN.md'), 'w').write(d + '\n' + sec + tail)
