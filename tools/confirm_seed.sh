#!/bin/bash
# confirm_seed.sh <ID> <A|B>: confirm a sub-agent's seeded change in its scratch worktree /tmp/wt_<ID>
# (apply -> demo must FAIL, test suite must pass; revert -> demo must PASS), then keep it under /verif/seeded/.
set -u
ID=$1; V=$2
WT=/tmp/wt_$ID; SRC=/tmp/seed_$ID/$V; OUT=/verif/seeded/$ID-$V
export OMP_NUM_THREADS=1 OPENBLAS_NUM_THREADS=1 MKL_NUM_THREADS=1
git -C $WT checkout -- . || exit 9
[ -z "$(git -C $WT status --porcelain)" ] || { echo "worktree not clean"; git -C $WT status --porcelain; }
cd $WT
PYTHONPATH=$WT /venv/bin/python $SRC/demo.py > /tmp/seed_$ID/$V.confirm_clean.log 2>&1; RC0=$?
git -C $WT apply $SRC/patch.diff || { echo "patch does not apply"; exit 9; }
PYTHONPATH=$WT /venv/bin/python $SRC/demo.py > /tmp/seed_$ID/$V.confirm_mut.log 2>&1; RC1=$?
if [ "${SKIP_TESTS:-0}" = "1" ]; then TESTS="skipped"; else
PYTHONPATH=$WT timeout 3000 /venv/bin/python -m pytest -q -p no:cacheprovider --timeout=900 tests \
  --deselect tests/test_ridge.py::RidgeRegressionTest::test_predict_ridge_scaler > /tmp/seed_$ID/$V.confirm_tests.log 2>&1; RCT=$?
TESTS="rc=$RCT $(tail -1 /tmp/seed_$ID/$V.confirm_tests.log)"
fi
git -C $WT checkout -- .
echo "$ID-$V clean_demo_rc=$RC0 mutated_demo_rc=$RC1 tests: $TESTS"
if [ $RC0 -eq 0 ] && [ $RC1 -ne 0 ]; then
  mkdir -p $OUT; cp $SRC/patch.diff $SRC/demo.py $SRC/meta.json $OUT/ 2>/dev/null
  echo "kept in $OUT"
fi
