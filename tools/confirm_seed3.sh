#!/bin/bash
# confirm_seed3.sh <n> <Cxx>: confirm a round-3 sub-agent's seeded change in its scratch worktree /tmp/wt3_<n>
# (apply -> demo must FAIL, test suite must pass; revert -> demo must PASS), then keep it under /verif/seeded/<Cxx>-C.
set -u
N=$1; ID=$2
WT=/tmp/wt3_$N; SRC=/tmp/seed3_$N/$ID; OUT=/verif/seeded/$ID-C
export OMP_NUM_THREADS=1 OPENBLAS_NUM_THREADS=1 MKL_NUM_THREADS=1
git -C $WT checkout -- . || exit 9
[ -z "$(git -C $WT status --porcelain)" ] || { echo "worktree not clean"; git -C $WT status --porcelain; }
cd $WT
PYTHONPATH=$WT timeout 600 /venv/bin/python $SRC/demo.py > $SRC.confirm_clean.log 2>&1; RC0=$?
git -C $WT apply $SRC/patch.diff || { echo "patch does not apply"; exit 9; }
PYTHONPATH=$WT timeout 600 /venv/bin/python $SRC/demo.py > $SRC.confirm_mut.log 2>&1; RC1=$?
if [ "${SKIP_TESTS:-0}" = "1" ]; then TESTS="skipped"; else
PYTHONPATH=$WT timeout 3000 /venv/bin/python -m pytest -q -p no:cacheprovider --timeout=900 tests \
  --deselect tests/test_ridge.py::RidgeRegressionTest::test_predict_ridge_scaler > $SRC.confirm_tests.log 2>&1; RCT=$?
TESTS="rc=$RCT $(tail -1 $SRC.confirm_tests.log)"
fi
git -C $WT checkout -- .
echo "$ID-C clean_demo_rc=$RC0 mutated_demo_rc=$RC1 tests: $TESTS"
if [ $RC0 -eq 0 ] && [ $RC1 -ne 0 ]; then
  mkdir -p $OUT; cp $SRC/patch.diff $SRC/demo.py $SRC/meta.json $OUT/ 2>/dev/null
  python3 - "$OUT/meta.json" "$RC0" "$RC1" "$TESTS" <<'P'
import json, sys
p, rc0, rc1, tests = sys.argv[1:5]
try:
    m = json.load(open(p))
except Exception:
    m = {}
m['confirmed_in_scratch_worktree'] = {'clean_demo_rc': int(rc0), 'mutated_demo_rc': int(rc1), 'tests': tests}
json.dump(m, open(p, 'w'), indent=1)
P
  echo "kept in $OUT"
fi
