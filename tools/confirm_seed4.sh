#!/bin/bash
# confirm_seed4.sh <Cxx>: confirm a round-4 sub-agent's seeded change left applied in its scratch worktree /tmp/r4_<Cxx>
# (demo.py, meta.json beside it): with the change demo must FAIL and the test suite pass; reverted, demo must PASS.
# Kept as /verif/seeded/<Cxx>-D.
set -u
ID=$1; WT=/tmp/r4_$ID; OUT=/verif/seeded/$ID-D; L=/tmp/r4_$ID.confirm
export OMP_NUM_THREADS=1 OPENBLAS_NUM_THREADS=1 MKL_NUM_THREADS=1
cd $WT || exit 9
git -C $WT diff -- mabwiser > $L.patch.diff
[ -s $L.patch.diff ] || { echo "$ID: no source change"; exit 9; }
PYTHONPATH=$WT timeout 900 /venv/bin/python demo.py > $L.mut.log 2>&1; RC1=$?
if [ "${SKIP_TESTS:-0}" = "1" ]; then TESTS="skipped"; else
PYTHONPATH=$WT timeout 3000 /venv/bin/python -m pytest -q -p no:cacheprovider --timeout=900 tests --deselect tests/test_ridge.py::RidgeRegressionTest::test_predict_ridge_scaler > $L.tests.log 2>&1; RCT=$?
TESTS="rc=$RCT $(tail -1 $L.tests.log)"
fi
git -C $WT checkout -- mabwiser
PYTHONPATH=$WT timeout 900 /venv/bin/python demo.py > $L.clean.log 2>&1; RC0=$?
git -C $WT apply $L.patch.diff
echo "$ID-D clean_demo_rc=$RC0 mutated_demo_rc=$RC1 tests: $TESTS"
if [ $RC0 -eq 0 ] && [ $RC1 -ne 0 ]; then
  mkdir -p $OUT; cp $L.patch.diff $OUT/patch.diff; cp $WT/demo.py $WT/meta.json $OUT/ 2>/dev/null
  python3 - "$OUT/meta.json" "$RC0" "$RC1" "$TESTS" <<'P'
import json, sys
p, rc0, rc1, tests = sys.argv[1:5]
try:
    m = json.load(open(p))
except Exception:
    m = {}
m['confirmed_in_scratch_worktree'] = {'clean_demo_rc': int(rc0), 'mutated_demo_rc': int(rc1), 'tests': tests}
json.dump(m, open(p, 'w'), indent=1)
P
  echo "kept in $OUT"
fi
